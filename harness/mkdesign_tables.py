"""Rewrite DESIGN.md sections 9.2 (findings) and 9.3 (seeded changes) from known_findings.json and seeded/*/meta.json."""
import json, os, re, glob
ROOT = os.path.dirname(os.path.dirname(os.path.abspath(__file__)))


def esc(s):
    return str(s).replace("|", "\\|").replace("\n", " ")


CANDIDATES = """Outcome of the candidates of section 7 (all twenty were re-found by the machinery on the real code):

| section-7 id | outcome | key(s) in known_findings.json |
|---|---|---|
| F-C02-1 | confirmed, known | C02 `split-dependent/failByDrop=False` |
| F-C07-1 | confirmed, fixed 6c480a83 | C07 `client.processHandshake/ESCAPED/UnicodeDecodeError` |
| F-C07-2, F-C07-3 | confirmed (+ two more exception classes at the same site), fixed 7837caa7 | C07 `server.processHandshake/ESCAPED/{ValueError,URLParseError,IDNAError,InvalidCodepoint}` |
| F-C08-1 | confirmed, fixed 3f578427 | C08 `uri-regex/dollar-accepts-trailing-newline` |
| F-C08-2 | confirmed at 12 parse sites (+ Unregister), fixed ea2362f8 | C08 `<Cls>.parse/forward_for/AssertionError` |
| F-C08-3 | confirmed, known | C08 `.../accepts-id-range`, `.../forward_for/accepts-ff-entries` |
| F-C08-4 | confirmed, fixed d6e6279b | C08 `uri-regex/backslash-d-accepts-unicode-digits` |
| F-C09-1 | confirmed (+ pure-Python empty-chunk variant), fixed ebfd183a, a0b6310f | C09 `nvx.*/after-reject/valid`, `py/after-reject/empty-chunk/valid` |
| F-C04-1 | confirmed (+ options=None variant), fixed d5bb0938, a97bf2af | C04 `tx/onMessage/ESCAPED/{TypeError,AttributeError}/result-progressive` |
| F-C05-1 | confirmed, fixed ba5bad9e | C05, C17 `client/peer-close-in-OPEN/no-timer-armed` |
| F-C06-1 | confirmed, known | C06 `aio/asyncio-deferred-continuation/phase-gate/established/goodbye-rejected` (+ 5 siblings) |
| F-C10-1 | confirmed, fixed 4bb5bcbc | C10 `rawsocket.twisted.send/unserializable/*` |
| F-C10-2 | confirmed, fixed ad1f12fb | C10 `rawsocket.asyncio.send/oversized/ValueError` |
| F-C11-1 | confirmed, fixed 25140640 | C11 `session.onMessage/Event/shared-kwargs` |
| F-C12-1 | confirmed (send and receive side), fixed 444bd7d4 | C12 `brotli/context_takeover/msg2`, `.../recv/msg2` |
| F-C13-1 | confirmed, fixed e59b5271 | C13 `rawsocket.aio.server/handshake/ESCAPED/TransportLost` |
| F-C13-2 | confirmed (server and client), fixed c3b6af5d | C13 `rawsocket.tx.{server,client}/handshake/attach/non-zero-reserved-octets` |
| F-C16-1 | confirmed with real zlib, known | C16 `decompress-cap/truncated`, `decompress-cap/escaped-error` |
| F-C19-1 | confirmed, fixed f3a49ef4 | C19 `AuthScram.on_challenge/kdf=pbkdf2/str-salt/ValueError` |
| F-C01-1 | confirmed; judged outside the property's scope (fuzzing-only parameter of sendFrame), modelled faithfully, theorem `C01_explicit_mask_omits_key` | — |

Beyond the candidates the checks found the further defects listed below (e.g. C11 unsubscribe during dispatch,
C10 fallback ERROR embedding the payload, C14 component stop/main-error paths, C18 kwarg named `error`,
C01 pong written inside a streaming frame, C07 line breaks inside header values, C12 bzip2 trailing empty frame,
C05 invalid peer close reported clean, C17 ping timeout after close, C03 PUBLISH with kwargs only).

"""


def findings():
    k = json.load(open(os.path.join(ROOT, "known_findings.json")))
    out = [CANDIDATES,"Every row was found (or re-found) by the check of its property on the real code, with the replay named in",
           "`known_findings.json` / `corpus/<id>/`. *fixed* = repaired by one unguarded `fix:` commit in `/repo` (the check passes",
           "on the repaired tree, prints no KNOWN-FINDING line for it and reports it again under the same key if it returns);",
           "*known* = genuine defect recorded, not repaired (reason in the last column); the check prints one KNOWN-FINDING",
           "line per key and exits 0; any violation with a different key is still reported.", "",
           "| property | key | status | commit | what fails | why not repaired |", "|---|---|---|---|---|---|"]
    for e in sorted(k, key=lambda e: (e["property"], e["status"], e["key"])):
        out.append(f"| {e['property']} | `{esc(e['key'])}` | {e['status']} | {e.get('commit','')} | {esc(e['what'])} | {esc(e.get('why_not_fixed',''))} |")
    nf = sum(1 for e in k if e["status"] == "fixed"); nk = len(k) - nf
    out += ["", f"Totals: {nf} keys fixed by {len(set(e['commit'] for e in k if e['status']=='fixed'))} `fix:` commits, {nk} keys known."]
    return "\n".join(out)


def seeds():
    out = ["Two changes per property were written by independent sub-agents that saw only the property text and a scratch",
           "worktree (nothing from `/verif`). Each was confirmed here (`harness/seedtest.py confirm`: demo passes on the pristine",
           "tree, the pinned 288 tests still pass with the change, demo fails with it) and is kept under `seeded/<id>/`",
           "(`patch.diff`, `demo.py`, `meta.json`). Detection = `./check <property> quick` on a worktree with the patch applied.",
           "Seeds -1/-2 are the first round, -3/-4 a second round whose authors were asked for changes a reviewer of the main",
           "path would overlook (rare options, one-framework-only code, error paths, boundaries, cross-module agreement),",
           "-5/-6 a third round whose authors were additionally told which four changes per property already existed and asked",
           "for a different site and mechanism. First-run detection by the property's own quick check: round 1 33/40 (+1 by a",
           "neighbouring check), round 2 23/40 (+1), round 3 21/40, round 4 26/40 (+5 by neighbouring checks; -7/-8, whose",
           "authors knew all six earlier changes per property); after strengthening 157 of the 160 are reported by their own",
           "property's quick check, C01-2/C01-3 by C12 (compression is C12's), and C16-3 by none because a later repair made",
           "it behaviour-neutral; the misses of each round were configuration plumbing",
           "(setProtocolOptions, factory -> connection), object re-use across lives/connections, tri-state options, re-entrant",
           "delivery inside send(), rarely used API variants (streaming/prepared send, frame-based receive) and state that",
           "must be invalidated on mutation; each was turned into a generator dimension / oracle clause / model part.",
           "`[first run: missed; strengthened]` marks seeds the check of their property did NOT catch when first run; the check",
           "was then extended (new event kinds / generators / oracle clauses / model parts, described in the builder reports",
           "and in the check's evidence `rule`) and the row shows the result after that.", "",
           "| seed | property | caught by | first VIOLATION key | needs to manifest |", "|---|---|---|---|---|"]
    for d in sorted(glob.glob(os.path.join(ROOT, "seeded", "*"))):
        m = json.load(open(os.path.join(d, "meta.json")))
        det = m.get("detected_by", {})
        caught = [k for k, v in det.items() if v.get("caught")]
        missed = [k for k, v in det.items() if not v.get("caught")]
        key = ""
        for k in caught:
            for l in det[k]["lines"]:
                mm = re.search(r"key=(\S+)", l)
                if l.startswith("VIOLATION") and mm:
                    key = mm.group(1); break
            if key: break
        need = " ".join(m.get("needs_to_manifest", "").split())[:220]
        status = ", ".join(caught) if caught else ("MISSED by " + ", ".join(missed) if missed else "not yet run")
        if caught and missed:
            status += " (missed by " + ", ".join(missed) + ")"
        fr = m.get("first_run", "")
        note = " [first run: missed; strengthened]" if fr.startswith("missed by the check of its own") else (
               " [C01 misses it by design]" if fr.startswith("missed by C01") else (" [builder was told first]" if fr.startswith("the builder") else ""))
        if m.get("neutralised"):
            note += " [no longer property-breaking on the repaired tree]"
        out.append(f"| {os.path.basename(d)} | {m['property']} | {status}{note} | `{esc(key)}` | {esc(need)} |")
    return "\n".join(out)


def inventory():
    import sys
    sys.path.insert(0, os.path.join(ROOT, "harness"))
    import vlib
    out = ["Generated from `coq/Props/*.v` (statements only; proofs live in `coq/Proofs/`). Every theorem is closed by",
           "`exact <lemma>` and followed by `Print Assumptions`, which the check parses on every run (all report *Closed under",
           "the global context*: no axioms, not even the standard library's). `_refuted` = the full-strength statement is false",
           "of the faithful model (witness computed in Coq; the same input replayed on the real code is the finding);",
           "`_partial` = the part that is provable, with what is missing said in the file.", "",
           "| property | property files | theorems | examples | model / proof files in the closure | refuted or partial statements |",
           "|---|---|---|---|---|---|"]
    for f in sorted(glob.glob(os.path.join(ROOT, "coq", "Props", "C*.v"))):
        rel = "Props/" + os.path.basename(f)
        src = vlib.strip_comments(open(f).read())
        th = re.findall(r"^\s*(?:Theorem|Lemma|Corollary)\s+([A-Za-z0-9_']+)", src, re.M)
        ex = re.findall(r"^\s*Example\s+([A-Za-z0-9_']+)", src, re.M)
        clo = [c for c in vlib.closure(rel) if not c.startswith("Props/")]
        special = [t for t in th if "refuted" in t or "partial" in t]
        pid = os.path.basename(f)[:3]
        out.append(f"| {pid} | `{rel}` | {len(th)} | {len(ex)} | {', '.join('`'+c[:-2]+'`' for c in clo)} | {', '.join('`'+t+'`' for t in special) or '—'} |")
    return "\n".join(out)


def main():
    p = os.path.join(ROOT, "DESIGN.md")
    s = open(p).read()
    a = s.index("### 9.2 Candidate findings: outcome")
    b = s.index("### 9.3 Seeded changes and which check catches each")
    c = s.index("--------------------------------------------------------------------------------------------", b)
    s = (s[:a] + "### 9.2 Candidate findings: outcome\n\n" + findings() + "\n\n" +
         "### 9.3 Seeded changes and which check catches each\n\n" + seeds() + "\n\n" +
         "### 9.4 Theorem inventory\n\n" + inventory() + "\n\n" + s[c:])
    open(p, "w").write(s)


if __name__ == "__main__":
    main()
