"""Rewrite DESIGN.md sections 9.2 (findings) and 9.3 (seeded changes) from known_findings.json and seeded/*/meta.json."""
import json, os, re, glob
ROOT = os.path.dirname(os.path.dirname(os.path.abspath(__file__)))


def esc(s):
    return str(s).replace("|", "\\|").replace("\n", " ")


def findings():
    k = json.load(open(os.path.join(ROOT, "known_findings.json")))
    out = ["Every row was found (or re-found) by the check of its property on the real code, with the replay named in",
           "`known_findings.json` / `corpus/<id>/`. *fixed* = repaired by one unguarded `fix:` commit in `/repo` (the check passes",
           "on the repaired tree, prints no KNOWN-FINDING line for it and reports it again under the same key if it returns);",
           "*known* = genuine defect recorded, not repaired (reason in the last column); the check prints one KNOWN-FINDING",
           "line per key and exits 0; any violation with a different key is still reported.", "",
           "| property | key | status | commit | what fails | why not repaired |", "|---|---|---|---|---|---|"]
    for e in sorted(k, key=lambda e: (e["property"], e["status"], e["key"])):
        out.append(f"| {e['property']} | `{esc(e['key'])}` | {e['status']} | {e.get('commit','')} | {esc(e['what'])} | {esc(e.get('why_not_fixed',''))} |")
    nf = sum(1 for e in k if e["status"] == "fixed"); nk = len(k) - nf
    out += ["", f"Totals: {nf} keys fixed by {len(set(e['commit'] for e in k if e['status']=='fixed'))} `fix:` commits, {nk} keys known."]
    return "\n".join(out)


def seeds():
    out = ["Two changes per property were written by independent sub-agents that saw only the property text and a scratch",
           "worktree (nothing from `/verif`). Each was confirmed here (`harness/seedtest.py confirm`: demo passes on the pristine",
           "tree, the pinned 288 tests still pass with the change, demo fails with it) and is kept under `seeded/<id>/`",
           "(`patch.diff`, `demo.py`, `meta.json`). Detection = `./check <property> quick` on a worktree with the patch applied.", "",
           "| seed | property | caught by | first VIOLATION key | needs to manifest |", "|---|---|---|---|---|"]
    for d in sorted(glob.glob(os.path.join(ROOT, "seeded", "*"))):
        m = json.load(open(os.path.join(d, "meta.json")))
        det = m.get("detected_by", {})
        caught = [k for k, v in det.items() if v.get("caught")]
        missed = [k for k, v in det.items() if not v.get("caught")]
        key = ""
        for k in caught:
            for l in det[k]["lines"]:
                mm = re.search(r"key=(\S+)", l)
                if l.startswith("VIOLATION") and mm:
                    key = mm.group(1); break
            if key: break
        need = " ".join(m.get("needs_to_manifest", "").split())[:220]
        status = ", ".join(caught) if caught else ("MISSED by " + ", ".join(missed) if missed else "not yet run")
        if caught and missed:
            status += " (missed by " + ", ".join(missed) + ")"
        out.append(f"| {os.path.basename(d)} | {m['property']} | {status} | `{esc(key)}` | {esc(need)} |")
    return "\n".join(out)


def inventory():
    import sys
    sys.path.insert(0, os.path.join(ROOT, "harness"))
    import vlib
    out = ["Generated from `coq/Props/*.v` (statements only; proofs live in `coq/Proofs/`). Every theorem is closed by",
           "`exact <lemma>` and followed by `Print Assumptions`, which the check parses on every run (all report *Closed under",
           "the global context*: no axioms, not even the standard library's). `_refuted` = the full-strength statement is false",
           "of the faithful model (witness computed in Coq; the same input replayed on the real code is the finding);",
           "`_partial` = the part that is provable, with what is missing said in the file.", "",
           "| property | property files | theorems | examples | model / proof files in the closure | refuted or partial statements |",
           "|---|---|---|---|---|---|"]
    for f in sorted(glob.glob(os.path.join(ROOT, "coq", "Props", "C*.v"))):
        rel = "Props/" + os.path.basename(f)
        src = vlib.strip_comments(open(f).read())
        th = re.findall(r"^\s*(?:Theorem|Lemma|Corollary)\s+([A-Za-z0-9_']+)", src, re.M)
        ex = re.findall(r"^\s*Example\s+([A-Za-z0-9_']+)", src, re.M)
        clo = [c for c in vlib.closure(rel) if not c.startswith("Props/")]
        special = [t for t in th if "refuted" in t or "partial" in t]
        pid = os.path.basename(f)[:3]
        out.append(f"| {pid} | `{rel}` | {len(th)} | {len(ex)} | {', '.join('`'+c[:-2]+'`' for c in clo)} | {', '.join('`'+t+'`' for t in special) or '—'} |")
    return "\n".join(out)


def main():
    p = os.path.join(ROOT, "DESIGN.md")
    s = open(p).read()
    a = s.index("### 9.2 Candidate findings: outcome")
    b = s.index("### 9.3 Seeded changes and which check catches each")
    c = s.index("--------------------------------------------------------------------------------------------", b)
    s = (s[:a] + "### 9.2 Candidate findings: outcome\n\n" + findings() + "\n\n" +
         "### 9.3 Seeded changes and which check catches each\n\n" + seeds() + "\n\n" +
         "### 9.4 Theorem inventory\n\n" + inventory() + "\n\n" + s[c:])
    open(p, "w").write(s)


if __name__ == "__main__":
    main()
