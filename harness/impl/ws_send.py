"""C01 implementation driver: the REAL WebSocket protocol classes (one framework per process) are driven through
generated API call sequences; for every call the octets handed to transport.write and the result are recorded.

Three things are produced per case:
  outs    per call: writes (hex, or length + adler32 for big ones) and result (None / int / raised class) -- compared
          with the Gallina model by harness/props/c01.py
  oracle  independent judgement (wsdrv.parse_frames + the RFC 6455 sequencing rules written out below, nothing from the
          model): everything written must be a well-formed frame sequence for the role, masked with the successive keys
          of the pinned random source, and reassemble to exactly the messages the generator intended to send
  e2e     the octets written by endpoint A are re-segmented and fed to a REAL peer endpoint B of the opposite role;
          B's onMessage log must equal the sent (payload, isBinary) list exactly

Input  (argv[1], JSON): {"fw": "tx"|"aio", "cases": [case...]}
   case = {"role": "client"|"server", "options": {...}, "ops": [op...], "expect": [[kind, payload, isBinary]...] | null,
           "e2e": null | {"mode": "all_splits"|"cuts"|"drip"|"whole", "seed": int, "peer_options": {...}}}
   payload = {"hex": "..."} | {"pat": [seed, n]} | {"apat": [seed, n]}
Output (argv[2], JSON): {"results": [...], "hist": {...}}
"""
import json, os, random, sys, zlib

inp = json.load(open(sys.argv[1]))
REPO = os.environ.get("AV_REPO", "/repo")
sys.path.insert(0, os.path.dirname(os.path.abspath(__file__)))
NVX = os.environ.get("AUTOBAHN_USE_NVX") == "1"
if NVX:
    import nvxbuild
    nvxbuild.ensure()          # freshly compiled NVX masker / UTF-8 validator, before autobahn is imported
import wsdrv

FW = inp["fw"]
env = wsdrv.Env(FW, key_seed=inp.get("key_seed", 1))
P = env.P
assert os.path.realpath(P.__file__).startswith(os.path.realpath(REPO) + "/src/"), (P.__file__, REPO)
assert env.W.__file__.startswith(os.path.realpath(REPO) + "/src/") or os.path.realpath(env.W.__file__).startswith(os.path.realpath(REPO) + "/src/")
import autobahn.websocket as _aw
assert _aw.USES_NVX == NVX, (_aw.USES_NVX, NVX)

STATES = {"CLOSED": 0, "CONNECTING": 1, "CLOSING": 2, "OPEN": 3, "PROXY_CONNECTING": 4}
BIG = 256
TICK = P.WebSocketProtocol._QUEUED_WRITE_DELAY


def pat(seed, n):
    x = seed
    out = bytearray(n)
    for i in range(n):
        x ^= (x << 13) & 0xFFFFFFFF
        x ^= x >> 17
        x ^= (x << 5) & 0xFFFFFFFF
        out[i] = x & 255
    return bytes(out)


_pat_cache = {}


def payload_of(p):
    if p is None:
        return None
    if "hex" in p:
        return bytes.fromhex(p["hex"])
    k = ("pat" if "pat" in p else "apat", tuple(p.get("pat") or p.get("apat")))
    if k not in _pat_cache:
        b = pat(*k[1])
        if k[0] == "apat":
            b = bytes(x & 127 for x in b)
        if len(_pat_cache) > 64:
            _pat_cache.clear()
        _pat_cache[k] = b
    return _pat_cache[k]


def wdesc(b):
    if len(b) <= BIG:
        return {"hex": b.hex()}
    return {"len": len(b), "adler": zlib.adler32(b) & 0xFFFFFFFF, "head": b[:14].hex()}


_pfd = os.open(os.environ["AV_PROGRESS"], os.O_WRONLY | os.O_CREAT | os.O_TRUNC) if os.environ.get("AV_PROGRESS") else None


def announce(case):
    if _pfd is not None:
        b = json.dumps(case).encode()
        if len(b) < 60000:
            os.ftruncate(_pfd, 0)
            os.pwrite(_pfd, b, 0)


class Runner:
    """one connection of the real implementation, driven op by op"""

    def __init__(self, role, options):
        self.conn = env.connect(role, options)
        self.k0 = len(env.keys.issued)
        self.conn.handshake()
        # the client handshake draws nothing 32-bit from `random`; keys issued from here on belong to this case
        self.k0 = len(env.keys.issued)
        self.n_start = len(self.conn.log)
        self.pms = []
        self.wire = []          # every transport.write argument, in order
        self.outs = []

    def _collect(self, n0):
        ws, raised = [], None
        for e in self.conn.log[n0:]:
            if e[0] == "write":
                ws.append(bytes.fromhex(e[1]))
            elif e[0] == "raised":
                raised = e[1]
            elif e[0] in ("lose", "abort", "close", "escaped"):
                raised = "UNEXPECTED:" + e[0]
        return ws, raised

    def do(self, op):
        c, p = self.conn, self.conn.proto
        n0 = len(c.log)
        kind = op[0]
        r = None
        if kind == "sendMessage":
            kw = {}
            if op[3] is not None:
                kw["fragmentSize"] = op[3]
            r = c.call("sendMessage", payload_of(op[1]), op[2], sync=op[4], **kw)
        elif kind == "sendFrame":
            kw = dict(opcode=op[1], payload=payload_of(op[2]), fin=op[3], rsv=op[4], sync=op[8])
            if op[5] is not None:
                kw["mask"] = bytes.fromhex(op[5])
            if op[6] is not None:
                kw["payload_len"] = op[6]
            if op[7] is not None:
                kw["chopsize"] = op[7]
            r = c.call("sendFrame", **kw)
        elif kind == "prepare":
            try:
                self.pms.append(c.factory.prepareMessage(payload_of(op[1]), op[2]))
            except BaseException as e:
                c.log.append(["raised", type(e).__name__, str(e)[:200]])
        elif kind == "sendPrepared":
            r = c.call("sendPreparedMessage", self.pms[op[1]])
        elif kind == "beginMessage":
            r = c.call("beginMessage", op[1])
        elif kind == "beginMessageFrame":
            r = c.call("beginMessageFrame", op[1])
        elif kind == "frameData":
            r = c.call("sendMessageFrameData", payload_of(op[1]), op[2])
        elif kind == "endMessage":
            r = c.call("endMessage")
        elif kind == "sendMessageFrame":
            r = c.call("sendMessageFrame", payload_of(op[1]), op[2])
        elif kind == "ping":
            r = c.call("sendPing", payload_of(op[1]))
        elif kind == "pong":
            r = c.call("sendPong", payload_of(op[1]))
        elif kind == "peerPing":
            # the PEER's ping arrives now (real receive path: processData -> processControlFrame -> onPing -> sendPong)
            pl = payload_of(op[1]) or b""
            if c.role == "server":      # our peer is a client: its frames are masked
                k = b"\x11\x22\x33\x44"
                fr = bytes([0x89, 0x80 | len(pl)]) + k + bytes(b ^ k[i & 3] for i, b in enumerate(pl))
            else:
                fr = bytes([0x89, len(pl)]) + pl
            c.feed(fr)
        elif kind == "sendData":
            r = c.call("sendData", payload_of(op[1]), op[2], op[3])
        elif kind == "tick":
            env.advance(TICK)
        elif kind == "setState":
            p.state = STATES[op[1]]
        else:
            raise ValueError(kind)
        ws, raised = self._collect(n0)
        self.wire += ws
        ret = {"raise": raised} if raised else (r if isinstance(r, int) and not isinstance(r, bool) else None)
        self.outs.append({"w": [wdesc(w) for w in ws], "ret": ret})

    def drain(self):
        """let the reactor run until the write queue is empty; each timer firing is recorded as a tick op"""
        ticks = 0
        while self.conn.proto.triggered and ticks < 100000:
            self.do(["tick"])
            ticks += 1
        return ticks


# ---------------------------------------------------------------------------------------------------------------
# independent oracle: RFC 6455 judgement of everything written (uses wsdrv.parse_frames, not the model)
def judge(wire, role, keys, default_masks=True):
    """returns (events, open_message, problems, frames); events = [kind, payload, isBinary]"""
    problems = []
    try:
        frames, rest = wsdrv.parse_frames(wire)
    except ValueError as e:
        return [], None, ["unparsable: %s" % e], []
    if rest:
        problems.append("trailing %d octets do not form a complete frame" % len(rest))
    events, cur = [], None
    ki = 0
    closed = False
    for f in frames:
        op = f["opcode"]
        if closed:
            problems.append("frame after close")
        if f["rsv"]:
            problems.append("rsv bits set")
        if not default_masks:
            pass            # maskClientFrames=False / maskServerFrames=True: the MASK bit is the application's choice
        elif role == "client":
            if not f["masked"]:
                problems.append("client frame not masked")
        elif f["masked"]:
            problems.append("server frame masked")
        if op >= 8:
            if not f["fin"]:
                problems.append("fragmented control frame")
            if f["length"] > 125:
                problems.append("control frame too long")
            if op == 8:
                closed = True
                events.append(["close", f["payload"], None])
            elif op == 9:
                events.append(["ping", f["payload"], None])
            elif op == 10:
                events.append(["pong", f["payload"], None])
            else:
                problems.append("reserved opcode %d" % op)
        elif op == 0:
            if cur is None:
                problems.append("continuation frame without a message")
            else:
                cur[1].append(f["payload"])
                if f["fin"]:
                    events.append(["msg", b"".join(cur[1]), cur[0]])
                    cur = None
        elif op in (1, 2):
            if cur is not None:
                problems.append("new data frame inside a fragmented message")
            if f["fin"]:
                events.append(["msg", f["payload"], op == 2])
            else:
                cur = [op == 2, [f["payload"]]]
        else:
            problems.append("reserved opcode %d" % op)
    return events, cur, problems, frames


def check_keys(frames, keys, role, prepared_keys):
    """client frames carry the keys of the pinned stream in issue order (prepared messages carry the key drawn
    when they were prepared, possibly several times)"""
    if role != "client":
        return []
    seen = [f["mask"] for f in frames]
    fresh = [k for k in seen if k not in prepared_keys]
    want = [k.hex() for k in keys if k.hex() not in prepared_keys]
    if fresh != want[:len(fresh)] or len(fresh) != len(want):
        return ["mask keys on the wire %s are not the issued keys %s" % (fresh[:6], want[:6])]
    return []


def segment(wire, mode, rng):
    n = len(wire)
    if mode == "whole":
        return [wire]
    if mode == "drip":
        return [wire[i:i + 1] for i in range(n)]
    if mode == "cuts":
        k = rng.choice([1, 2, 3, 5, 9])
        cuts = sorted(rng.randint(0, n) for _ in range(k))
        # bias cuts towards frame headers: first 16 octets
        if n > 20 and rng.random() < 0.5:
            cuts = sorted(cuts + [rng.randint(1, 15)])
        return [wire[a:b] for a, b in zip([0] + cuts, cuts + [n])]
    raise ValueError(mode)


import base64, hashlib
HS_REQ = (b"GET / HTTP/1.1\r\nHost: localhost:9000\r\nUpgrade: websocket\r\nConnection: Upgrade\r\n"
          b"Sec-WebSocket-Key: dGhlIHNhbXBsZSBub25jZQ==\r\nSec-WebSocket-Version: 13\r\n\r\n")


def frame_ends(frames):
    """offsets in the wire at which a frame ends (from the independent parser's frame list)"""
    ends, pos = [], 0
    for f in frames:
        n = f["length"]
        pos += 2 + (0 if n <= 125 else 2 if n <= 65535 else 8) + (4 if f["masked"] else 0) + n
        ends.append(pos)
    return ends


def deliver(peer_role, peer_options, chunks, with_handshake=False, burst=False):
    """feed the chunks to a fresh REAL endpoint; with_handshake: the octets of the opening handshake and the first
    chunk arrive in ONE read (hand-over of the octets following the HTTP header)"""
    b = env.connect(peer_role, peer_options)
    if not with_handshake:
        b.handshake()
        n0 = len(b.log)
    else:
        b.make()
        env.turn()
        if peer_role == "server":
            hs = HS_REQ
        else:
            req = b"".join(bytes.fromhex(e[1]) for e in b.log if e[0] == "write")
            key = [l.split(b":", 1)[1].strip() for l in req.split(b"\r\n") if l.lower().startswith(b"sec-websocket-key:")][0]
            acc = base64.b64encode(hashlib.sha1(key + b"258EAFA5-E914-47DA-95CA-C5AB0DC85B11").digest())
            hs = (b"HTTP/1.1 101 Switching Protocols\r\nUpgrade: websocket\r\nConnection: Upgrade\r\n"
                  b"Sec-WebSocket-Accept: " + acc + b"\r\n\r\n")
        n0 = len(b.log)
        chunks = [hs + (chunks[0] if chunks else b"")] + list(chunks[1:])
    if burst:
        # all reads arrive back to back before the event loop gets a turn (asyncio: several data_received calls queued
        # behind one wake-up of the consumer; Twisted: identical to one by one)
        b.feed_burst(list(chunks))
    else:
        for ch in chunks:
            b.feed(ch)
    env.turn()
    got, bad = [], []
    for e in b.log[n0:]:
        if e[0] == "msg":
            got.append([bytes.fromhex(e[1]), e[2]])
        elif e[0] in ("close", "lose", "abort", "escaped", "raised"):
            bad.append(e[:3])
    st = b.state()
    # release the peer's timers
    b.lost(True)
    return got, bad, st


def run_case(case):
    r = Runner(case["role"], case.get("options") or {})
    for op in case["ops"]:
        r.do(op)
    executed = list(case["ops"])
    nt = r.drain() if case.get("drain", True) else 0
    executed += [["tick"]] * nt
    keys = env.keys.issued[r.k0:]
    res = {"keys": [k.hex() for k in keys], "outs": r.outs, "executed_ticks": nt, "oracle": None, "e2e": None}
    wire = b"".join(r.wire)
    res["wire_len"] = len(wire)
    exp = case.get("expect")
    if exp is not None:
        expect = [[k, payload_of(p), b] for k, p, b in exp]
        opts = case.get("options") or {}
        default_masks = opts.get("maskClientFrames", True) and not opts.get("maskServerFrames", False)
        events, cur, problems, frames = judge(wire, case["role"], keys, default_masks)
        if cur is not None:
            problems.append("a fragmented message is left open")
        if case.get("float_pongs"):
            # a ping of the peer arrived in the middle of one of our frames: the pong may come anywhere later
            same = ([e for e in events if e[0] != "pong"] == [e for e in expect if e[0] != "pong"] and
                    sorted(e[1] for e in events if e[0] == "pong") == sorted(e[1] for e in expect if e[0] == "pong"))
        else:
            same = events == expect
        if not same:
            problems.append("reassembled events differ from what was sent: got %d events %s, sent %d %s" % (
                len(events), [(e[0], len(e[1]), e[2]) for e in events][:8], len(expect),
                [(e[0], len(e[1]), e[2]) for e in expect][:8]))
        pk = set()
        for pm in r.pms:
            h = pm.payloadHybi
            # key of a prepared client message: located after the length field
            if case["role"] == "client":
                l7 = h[1] & 127
                off = 2 + (0 if l7 < 126 else 2 if l7 == 126 else 8)
                pk.add(h[off:off + 4].hex())
        if default_masks:
            problems += check_keys(frames, keys, case["role"], pk)
        res["oracle"] = {"ok": not problems, "problems": problems[:5], "frames": len(frames)}
        hist["frames"] = hist.get("frames", 0) + len(frames)
        for f in frames:
            ln = f["length"]
            b = "len<=125" if ln <= 125 else "len16" if ln <= 65535 else "len64"
            hist[b] = hist.get(b, 0) + 1
        e2e = case.get("e2e")
        if e2e and not problems:
            rng = random.Random(e2e.get("seed", 0))
            peer_role = "server" if case["role"] == "client" else "client"
            want = [[p, b] for k, p, b in expect if k == "msg"]
            fails = []
            runs = 0
            modes = e2e["modes"]
            for mode in modes:
                hs = mode.startswith("hs+")
                burst = mode.startswith("burst+")
                base = mode.split("+", 1)[1] if (hs or burst) else mode
                if base == "all_splits":
                    segs = [[wire[:k], wire[k:]] for k in range(len(wire) + 1)]
                elif base == "frames":
                    # 2-5 chunks, each holding whole frames
                    ends = frame_ends(frames)[:-1]
                    k = min(len(ends), rng.randint(1, 4))
                    cuts = sorted(rng.sample(ends, k)) if k else []
                    segs = [[wire[a:b] for a, b in zip([0] + cuts, cuts + [len(wire)])]]
                else:
                    segs = [segment(wire, base, rng)]
                for chunks in segs:
                    got, bad, st = deliver(peer_role, e2e.get("peer_options") or {}, chunks, with_handshake=hs, burst=burst)
                    runs += 1
                    if got != want or bad or st != "OPEN":
                        fails.append({"mode": mode, "chunk_lens": [len(c) for c in chunks][:40], "bad": bad[:3],
                                      "state": st, "got": [(len(p), b) for p, b in got][:8],
                                      "want": [(len(p), b) for p, b in want][:8]})
                        break
                if fails:
                    break
            res["e2e"] = {"ok": not fails, "runs": runs, "fails": fails[:2]}
            hist["e2e_deliveries"] = hist.get("e2e_deliveries", 0) + runs
    if exp is None and not case.get("fifo"):
        probs = judge(wire, case["role"], keys)[2]
        raised = any(isinstance(o["ret"], dict) for o in r.outs)
        res["wild"] = {"malformed": bool(probs), "raised": raised}
    for op in executed:
        hist["op:" + op[0]] = hist.get("op:" + op[0], 0) + 1
    return res


def collect_peer(b, n0):
    got, bad = [], []
    for e in b.log[n0:]:
        if e[0] == "msg":
            got.append([bytes.fromhex(e[1]), e[2]])
        elif e[0] in ("close", "lose", "abort", "escaped", "raised"):
            bad.append(e[:3])
    return got, bad


def run_xconn(group):
    """SEVERAL real connections (both roles) living in this one process.
    (1) their send calls are interleaved call by call; every connection's own wire must still be the well-formed frame
        sequence of its own messages;
    (2) the wires are cut into segments and the segments of all connections reach their (real, same-process) peers
        INTERLEAVED; every peer must deliver exactly what its own sender sent.
    A failure is re-run with the connection ALONE (same calls / same segments): clean alone = state leaks between
    connections."""
    rng = random.Random(group.get("seed", 0))
    members = group["members"]
    runners = [Runner(m["role"], m.get("options") or {}) for m in members]
    # (1) interleaved send calls (random merge preserving each connection's own order)
    pos = [0] * len(members)
    live = [i for i, m in enumerate(members) if m["ops"]]
    while live:
        i = rng.choice(live)
        runners[i].do(members[i]["ops"][pos[i]])
        pos[i] += 1
        if pos[i] >= len(members[i]["ops"]):
            live.remove(i)
    for r in runners:
        r.drain()
    fails, wires, wants = [], [], []
    for i, (m, r) in enumerate(zip(members, runners)):
        # the virtual clock is shared: a timer of this connection may have fired during another connection's call,
        # so the wire is read from the connection's own transport log, not from the per-call windows
        wire = b"".join(bytes.fromhex(e[1]) for e in r.conn.log[r.n_start:] if e[0] == "write")
        expect = [[k, payload_of(p), b] for k, p, b in m["expect"]]
        opts = m.get("options") or {}
        events, cur, problems, frames = judge(wire, m["role"], [],
                                              opts.get("maskClientFrames", True) and not opts.get("maskServerFrames", False))
        if cur is not None:
            problems.append("a fragmented message is left open")
        if events != expect:
            problems.append("reassembled events differ from what was sent")
        if problems:
            alone = run_case(dict(m, e2e=None, drain=True))
            fails.append({"stage": "send", "member": i, "role": m["role"], "problem": problems[0],
                          "alone_ok": bool(alone["oracle"] and alone["oracle"]["ok"])})
        wires.append(wire)
        wants.append([[p, b] for k, p, b in expect if k == "msg"])
        hist["xconn_frames"] = hist.get("xconn_frames", 0) + len(frames)
    res = {"ok": True, "fails": fails, "members": len(members), "segments": 0}
    if not fails:
        # (2) interleaved delivery
        mode = group["mode"]
        peers, chunkss = [], []
        for m, wire in zip(members, wires):
            b = env.connect("server" if m["role"] == "client" else "client", m.get("peer_options") or {})
            b.handshake()
            peers.append((b, len(b.log)))
            chunkss.append(segment(wire, mode, rng))
        pos = [0] * len(members)
        live = [i for i, c in enumerate(chunkss) if c]
        rr = 0
        while live:
            if group.get("order") == "round_robin":
                i = live[rr % len(live)]; rr += 1
            else:
                i = rng.choice(live)
            if group.get("burst"):
                peers[i][0].feed_burst([chunkss[i][pos[i]]])
            else:
                peers[i][0].feed(chunkss[i][pos[i]])
            pos[i] += 1
            res["segments"] += 1
            if pos[i] >= len(chunkss[i]):
                live.remove(i)
        env.turn()
        for i, ((b, n0), m) in enumerate(zip(peers, members)):
            got, bad = collect_peer(b, n0)
            st = b.state()
            b.lost(True)
            if got != wants[i] or bad or st != "OPEN":
                peer_role = "server" if m["role"] == "client" else "client"
                g1, b1, s1 = deliver(peer_role, m.get("peer_options") or {}, chunkss[i])
                fails.append({"stage": "receive", "member": i, "role": peer_role, "mode": mode, "bad": bad[:3], "state": st,
                              "got": [(len(p), x) for p, x in got][:8], "want": [(len(p), x) for p, x in wants[i]][:8],
                              "chunk_lens": [len(c) for c in chunkss[i]][:40],
                              "alone_ok": g1 == wants[i] and not b1 and s1 == "OPEN"})
    for r in runners:
        r.conn.lost(True)
    res["ok"] = not fails
    hist["xconn_groups"] = hist.get("xconn_groups", 0) + 1
    hist["xconn_segments"] = hist.get("xconn_segments", 0) + res["segments"]
    return res


hist = {}
results = []
xresults = [run_xconn(g) for g in inp.get("xconn", [])]
for case in inp["cases"]:
    announce(case)
    results.append(run_case(case))

json.dump({"results": results, "xconn": xresults, "hist": hist, "fw": FW, "protocol_file": P.__file__, "uses_nvx": _aw.USES_NVX}, open(sys.argv[2], "w"))
