"""C19 implementation driver: runs the REAL authentication helpers of the tree under test
(autobahn.wamp.auth, autobahn.wamp.cryptosign, autobahn.util.xor) and

  1. checks every result with an INDEPENDENT verifier written here from the RFCs (RFC 2104/4231 HMAC via the hmac
     module, RFC 8018 PBKDF2 as a from-scratch loop over hmac, RFC 4226/6238 HOTP/TOTP, RFC 5802/7677 SCRAM server,
     RFC 8032 Ed25519 through `cryptography`, argon2id through argon2.low_level.hash_secret_raw) - no autobahn code;
  2. records every call the real code makes to a primitive (hashlib.new, hmac.new, PBKDF2HMAC.derive, argon2
     hash_secret, SigningKey.sign, saslprep, base64.b32decode) with arguments and result, so that the Gallina
     model can be evaluated with exactly these finite tables as its oracles and must reproduce the
     implementation's output byte for byte from its own GLUE (ordering, encodings, xor, truncation, base64/hex);
  3. alters signatures / server signatures / challenges / keys / salts bit by bit and checks that the verifier
     (or AuthScram.on_welcome) rejects, or that the signature changes.

Nothing in the tree under test is modified; the recording shims are installed on the imported module objects of
this process only.
"""
import base64, binascii, hashlib, hmac, json, os, random, struct, sys, time, types as pytypes

sys.modules.setdefault("bjdata", None)
inp = json.load(open(sys.argv[1]))
FW = inp.get("framework", "tx")
import txaio
import wampdrv                       # selects the txaio framework and installs the virtual clock / loop (one per process)
ENV = wampdrv.Env(FW)
_loop = getattr(ENV, "loop", None)

from autobahn.wamp import auth, cryptosign
from autobahn.wamp import types as wtypes
from autobahn import util as autil
import nacl.signing
import argon2.low_level
from cryptography.hazmat.primitives.asymmetric.ed25519 import Ed25519PublicKey, Ed25519PrivateKey
from cryptography.exceptions import InvalidSignature

REPO = os.environ.get("AV_REPO", "/repo")
for m in (auth, cryptosign, autil):
    assert os.path.realpath(m.__file__).startswith(os.path.realpath(REPO) + "/"), (m.__file__, REPO)

rng = random.Random(inp["seed"])

# ------------------------------------------------------------------------------------------------------
# recording shims (this process only)
# ------------------------------------------------------------------------------------------------------
class Rec:
    KEYS = ("h256", "hmac256", "hmac1", "pbkdf2", "argon", "sign", "sasl", "b32", "other")

    def __init__(self):
        self.on = False
        self.reset()

    def reset(self):
        for k in self.KEYS:
            setattr(self, k, [])

    def add(self, k, entry):
        if self.on and entry not in getattr(self, k):
            getattr(self, k).append(entry)

    def dump(self):
        return {k: getattr(self, k) for k in self.KEYS if getattr(self, k)}


REC = Rec()


def exc_name(e):
    return type(e).__name__


def res_ok(v):
    return {"ok": v}


def res_exc(e):
    return {"exc": exc_name(e)}


class Proxy:
    """module stand-in: overrides a few attributes, everything else from the real module"""
    def __init__(self, real, **over):
        self.__dict__["_real"] = real
        self.__dict__.update(over)

    def __getattr__(self, k):
        return getattr(self._real, k)


def _hmac_new(key, msg=None, digestmod=""):
    h = hmac.new(key, msg, digestmod)
    if REC.on:
        name = h.name
        d = h.digest()
        if name == "hmac-sha256":
            REC.add("hmac256", [bytes(key).hex(), bytes(msg or b"").hex(), d.hex()])
        elif name == "hmac-sha1":
            REC.add("hmac1", [bytes(key).hex(), bytes(msg or b"").hex(), d.hex()])
        else:
            REC.add("other", ["hmac", name])
    return h


def _hashlib_new(name, data=b"", **kw):
    h = hashlib.new(name, data, **kw)
    if REC.on:
        if name == "sha256":
            REC.add("h256", [bytes(data).hex(), h.digest().hex()])
        else:
            REC.add("other", ["hash", name])
    return h


_RealPBKDF2 = auth.PBKDF2HMAC


class _PBKDF2Rec:
    """records PBKDF2HMAC(...).derive(data); the real object is built inside derive() so that a constructor error
    (iterations < 1) is recorded with the data it would have been applied to"""
    def __init__(self, algorithm, length, salt, iterations, backend=None):
        self._a = (algorithm, length, salt, iterations, backend)

    def derive(self, data):
        algorithm, length, salt, iterations, backend = self._a
        alg = algorithm.name
        try:
            out = _RealPBKDF2(algorithm=algorithm, length=length, salt=salt, iterations=iterations, backend=backend).derive(data)
            r = res_ok(out.hex())
        except Exception as e:
            if alg == "sha256":
                REC.add("pbkdf2", [bytes(data).hex(), bytes(salt).hex(), iterations, length, res_exc(e)])
            raise
        if alg == "sha256":
            REC.add("pbkdf2", [bytes(data).hex(), bytes(salt).hex(), iterations, length, r])
        else:
            REC.add("other", ["pbkdf2", alg])
        return out


_real_hash_secret = argon2.low_level.hash_secret


def _hash_secret(secret, salt, time_cost, memory_cost, parallelism, hash_len, type, version=19):
    try:
        out = _real_hash_secret(secret=secret, salt=salt, time_cost=time_cost, memory_cost=memory_cost,
                                parallelism=parallelism, hash_len=hash_len, type=type, version=version)
    except Exception as e:
        if REC.on:
            REC.add("argon", [bytes(secret).hex(), bytes(salt).hex(), time_cost, memory_cost, res_exc(e)])
        raise
    if REC.on:
        if parallelism == 1 and hash_len == 32 and type == argon2.low_level.Type.ID and version == 0x13:
            tag_txt = out.split(b"$")[-1]
            raw = base64.b64decode(tag_txt + b"=" * (-len(tag_txt) % 4))
            REC.add("argon", [bytes(secret).hex(), bytes(salt).hex(), time_cost, memory_cost, res_ok(raw.hex())])
        else:
            REC.add("other", ["argon2", parallelism, hash_len, str(type), version])
    return out


_real_saslprep = getattr(auth, "saslprep", None)


def cps(s):
    return [ord(c) for c in s]


def _saslprep(s, *a, **kw):
    try:
        out = _real_saslprep(s, *a, **kw)
    except Exception as e:
        REC.add("sasl", [cps(s), res_exc(e)])
        raise
    REC.add("sasl", [cps(s), res_ok(cps(out))])
    return out


def _b32decode(s, *a, **kw):
    try:
        out = base64.b32decode(s, *a, **kw)
    except Exception as e:
        if isinstance(s, str):
            REC.add("b32", [cps(s), res_exc(e)])
        raise
    if isinstance(s, str):
        REC.add("b32", [cps(s), res_ok(out.hex())])
    return out


_real_sign = nacl.signing.SigningKey.sign


def _sign(self, message, *a, **kw):
    sm = _real_sign(self, message, *a, **kw)
    REC.add("sign", [bytes(self).hex(), bytes(message).hex(), bytes(sm.signature).hex()])
    return sm


NOW = [0.0]
URANDOM = [None]


def _urandom(n):
    if URANDOM[0] is None:
        return os.urandom(n)
    return URANDOM[0].randbytes(n)


auth.hmac = Proxy(hmac, new=_hmac_new)
auth.hashlib = Proxy(hashlib, new=_hashlib_new)
auth.PBKDF2HMAC = _PBKDF2Rec
if auth.HAS_ARGON:
    auth.hash_secret = _hash_secret
    auth.saslprep = _saslprep
    argon2.low_level.hash_secret = _hash_secret          # derive_scram_credential imports it at call time
auth.base64 = Proxy(base64, b32decode=_b32decode)
auth.time = Proxy(time, time=lambda: NOW[0])
auth.os = Proxy(os, urandom=_urandom)
nacl.signing.SigningKey.sign = _sign


class recording:
    def __enter__(self):
        REC.reset()
        REC.on = True
        return REC

    def __exit__(self, *a):
        REC.on = False


def call(f, *a, **kw):
    """-> ('ok', value) | ('exc', class name); value of a fired Deferred/Future unwrapped"""
    try:
        v = f(*a, **kw)
        if txaio.is_future(v):
            box = []
            txaio.add_callbacks(v, lambda r: box.append(("ok", r)), lambda fail: box.append(("exc", type(fail.value).__name__)))
            if FW != "tx":
                _loop.run_ready()
            if not box:
                return ("exc", "FutureNotFired")
            return box[0]
        return ("ok", v)
    except Exception as e:
        return ("exc", exc_name(e))


# ------------------------------------------------------------------------------------------------------
# independent reference implementations (from the RFCs; no autobahn code)
# ------------------------------------------------------------------------------------------------------
def rfc_hmac(hname, key, msg):
    return hmac.new(key, msg, getattr(hashlib, hname)).digest()


def rfc_pbkdf2(hname, password, salt, c, dklen):
    """RFC 8018 section 5.2, written out"""
    hlen = getattr(hashlib, hname)().digest_size
    out = b""
    i = 1
    while len(out) < dklen:
        u = rfc_hmac(hname, password, salt + struct.pack(">I", i))
        t = int.from_bytes(u, "big")
        for _ in range(c - 1):
            u = rfc_hmac(hname, password, u)
            t ^= int.from_bytes(u, "big")
        out += t.to_bytes(hlen, "big")
        i += 1
    return out[:dklen]


def fast_pbkdf2(hname, password, salt, c, dklen):
    """OpenSSL's implementation via hashlib (different code path from `cryptography`'s binding); cross-checked
    against rfc_pbkdf2 on the RFC vectors and on every case with c <= 100"""
    return hashlib.pbkdf2_hmac(hname, password, salt, c, dklen)


def rfc_hotp(key, counter, digits=6, hname="sha1"):
    """RFC 4226 section 5.3"""
    hs = rfc_hmac(hname, key, counter.to_bytes(8, "big"))
    offset = hs[-1] % 16
    p = hs[offset:offset + 4]
    snum = int.from_bytes(p, "big") % (1 << 31)
    return str(snum % (10 ** digits)).rjust(digits, "0")


def rfc_totp(key, unix_time, step=30, t0=0, digits=6):
    """RFC 6238 section 4.2"""
    return rfc_hotp(key, (unix_time - t0) // step, digits)


def xor_bytes(a, b):
    assert len(a) == len(b)
    return bytes(x ^ y for x, y in zip(a, b))


class RfcScramServer:
    """RFC 5802 section 3 server side over SHA-256 (RFC 7677), generic in the KDF.
    The server stores (salt, iteration count, StoredKey, ServerKey) and knows the messages exchanged."""
    def __init__(self, stored_key, server_key, hname="sha256"):
        self.stored_key, self.server_key, self.h = stored_key, server_key, hname

    @classmethod
    def from_salted_password(cls, salted_password, hname="sha256"):
        client_key = rfc_hmac(hname, salted_password, b"Client Key")
        stored_key = getattr(hashlib, hname)(client_key).digest()
        server_key = rfc_hmac(hname, salted_password, b"Server Key")
        return cls(stored_key, server_key, hname)

    @staticmethod
    def auth_message(client_first_bare, server_first, client_final_without_proof):
        return (client_first_bare + "," + server_first + "," + client_final_without_proof).encode("utf8")

    def verify_client_proof(self, auth_message, proof):
        if len(proof) != len(self.stored_key):
            return False
        client_signature = rfc_hmac(self.h, self.stored_key, auth_message)
        client_key = xor_bytes(proof, client_signature)
        return hmac.compare_digest(getattr(hashlib, self.h)(client_key).digest(), self.stored_key)

    def server_signature(self, auth_message):
        return rfc_hmac(self.h, self.server_key, auth_message)


def argon2id_raw(password, salt, t, m):
    return argon2.low_level.hash_secret_raw(secret=password, salt=salt, time_cost=t, memory_cost=m, parallelism=1,
                                            hash_len=32, type=argon2.low_level.Type.ID, version=0x13)


def argon_tag_text(raw):
    """the hash field of argon2's PHC string: base64 without padding"""
    return base64.b64encode(raw).rstrip(b"=")


def ed25519_verify(pk, msg, sig):
    try:
        Ed25519PublicKey.from_public_bytes(pk).verify(sig, msg)
        return True
    except (InvalidSignature, ValueError):
        return False


# ------------------------------------------------------------------------------------------------------
# bookkeeping
# ------------------------------------------------------------------------------------------------------
cases = []          # model-comparison cases (with recorded tables)
failures = []       # {"key":..., "what":..., "replay":...}
hist = {}
evals = [0]
MAXCASES = inp.get("max_model_cases", 4000)


def bump(k, n=1):
    hist[k] = hist.get(k, 0) + n


def fail(key, what, replay):
    bump("FAIL " + key)
    if sum(1 for f in failures if f["key"] == key) < 3:
        failures.append({"key": key, "what": what, "replay": replay})


CAPS = inp.get("caps", {})
_kind_count = {}


def add_case(c):
    """every executed case is counted; at most CAPS[kind] of them (all 'force'd ones) go to the model comparison"""
    evals[0] += 1
    k = c["kind"]
    bump("case " + k)
    _kind_count[k] = _kind_count.get(k, 0) + 1
    if c.get("force") or _kind_count[k] <= CAPS.get(k, MAXCASES):
        cases.append(c)


def pv(v):
    """str|bytes -> tagged json"""
    if isinstance(v, str):
        return {"s": cps(v)}
    return {"b": bytes(v).hex()}


def outcome(r, conv=lambda v: v):
    return {"ok": conv(r[1])} if r[0] == "ok" else {"exc": r[1]}


def flip(b, i):
    b = bytearray(b)
    b[i // 8] ^= 1 << (i % 8)
    return bytes(b)


def bit_positions(nbits, exhaustive, k, label):
    if exhaustive or nbits <= k:
        return range(nbits)
    r = random.Random(f"{inp['seed']}/{label}")
    return sorted(r.sample(range(nbits), k))


# ------------------------------------------------------------------------------------------------------
# generators
# ------------------------------------------------------------------------------------------------------
ALPH_MISC = ["a", "Z", "0", " ", "é", "ß", "Ω", "д", "中", "ª", " ", "😀", "\U0010ffff", "\x00", "\x7f", "\x80",
             "߿", "ࠀ", "￿", "\U00010000", "=", ",", "\"", "\\"]


def gen_text(r, allow_surrogate=False, maxlen=40):
    mode = r.random()
    if mode < 0.08:
        return ""
    n = r.choice([1, 2, 3, 8, 14, 16, 31, 32, 33, 63, 64, 65, maxlen]) if mode < 0.5 else r.randint(1, maxlen)
    if r.random() < 0.5:
        s = "".join(r.choice("abcdefghijklmnopqrstuvwxyzABCDEFGHIJKLMNOPQRSTUVWXYZ0123456789") for _ in range(n))
    else:
        s = "".join(r.choice(ALPH_MISC) if r.random() < 0.4 else chr(r.randint(32, 126)) for _ in range(n))
    if allow_surrogate and r.random() < 0.04:
        p = r.randint(0, len(s))
        s = s[:p] + chr(r.randint(0xD800, 0xDFFF)) + s[p:]
    return s


def gen_bytes(r, lens=(0, 1, 15, 16, 17, 31, 32, 33, 64)):
    return r.randbytes(r.choice(lens))


# ------------------------------------------------------------------------------------------------------
# RFC vectors (corpus) - validate the reference implementations and the real code
# ------------------------------------------------------------------------------------------------------
def run_vectors(vec):
    for v in vec.get("hmac_sha256", []):                       # RFC 4231
        key, data, mac = bytes.fromhex(v["key"]), bytes.fromhex(v["data"]), bytes.fromhex(v["mac"])
        evals[0] += 1
        if rfc_hmac("sha256", key, data) != mac:
            fail("vectors/rfc4231/reference", "reference HMAC-SHA256 != RFC 4231 vector (vector file corrupt?)", v)
        with recording():
            r = call(auth.compute_wcs, key, data)
            tb = REC.dump()
        want = base64.b64encode(mac)
        if r != ("ok", want):
            fail("compute_wcs/rfc4231", f"compute_wcs != base64(RFC 4231 HMAC-SHA256): {r}", v)
        add_case({"kind": "wcs", "key": pv(key), "challenge": pv(data), "tables": tb, "out": outcome(r, lambda b: b.hex()), "force": True})
    for v in vec.get("pbkdf2", []):                            # RFC 6070 (sha1), RFC 7914 section 11 & common sha256 vectors
        P, S, dk = bytes.fromhex(v["P"]), bytes.fromhex(v["S"]), bytes.fromhex(v["DK"])
        evals[0] += 1
        if v["c"] <= 5000 and rfc_pbkdf2(v["hash"], P, S, v["c"], v["dkLen"]) != dk:
            fail("vectors/pbkdf2/reference", "from-scratch PBKDF2 != published vector (vector file corrupt?)", v)
        if fast_pbkdf2(v["hash"], P, S, v["c"], v["dkLen"]) != dk:
            fail("vectors/pbkdf2/reference-fast", "hashlib PBKDF2 != published vector", v)
        with recording():
            r = call(auth.pbkdf2, P, S, v["c"], v["dkLen"], v["hash"])
            tb = REC.dump()
        if r != ("ok", dk):
            fail("pbkdf2/vector", f"auth.pbkdf2 != published PBKDF2-HMAC-{v['hash']} vector", v)
        if v["hash"] == "sha256":
            add_case({"kind": "pbkdf2", "data": pv(P), "salt": pv(S), "iterations": v["c"], "keylen": v["dkLen"], "tables": tb,
                      "out": outcome(r, lambda b: b.hex()), "force": True})
    for v in vec.get("hotp", []):                              # RFC 4226 appendix D
        key = bytes.fromhex(v["key"])
        evals[0] += 1
        if rfc_hotp(key, v["count"]) != v["hotp"]:
            fail("vectors/rfc4226/reference", "reference HOTP != RFC 4226 vector (vector file corrupt?)", v)
        # the real code at a time whose 30 s counter is the HOTP count
        for now in (v["count"] * 30, v["count"] * 30 + 29):
            totp_case(base64.b32encode(key).decode(), now, 0, expect=v["hotp"], key="compute_totp/rfc4226", force=True)
    for v in vec.get("totp", []):                              # RFC 6238 appendix B, SHA-1 rows (8 digits there)
        key = bytes.fromhex(v["key"])
        evals[0] += 1
        if rfc_totp(key, v["time"], digits=8) != v["totp8"]:
            fail("vectors/rfc6238/reference", "reference TOTP != RFC 6238 vector (vector file corrupt?)", v)
        totp_case(base64.b32encode(key).decode(), v["time"], 0, expect=v["totp8"][-6:], key="compute_totp/rfc6238", force=True)
    for v in vec.get("scram", []):                             # RFC 5802 section 5 (SHA-1), RFC 7677 section 3 (SHA-256)
        evals[0] += 1
        salted = rfc_pbkdf2(v["hash"], v["password"].encode(), base64.b64decode(v["salt"]), v["i"], getattr(hashlib, v["hash"])().digest_size)
        srv = RfcScramServer.from_salted_password(salted, v["hash"])
        am = RfcScramServer.auth_message(v["client_first_bare"], v["server_first"], v["client_final_without_proof"])
        if not srv.verify_client_proof(am, base64.b64decode(v["proof"])) or base64.b64encode(srv.server_signature(am)).decode() != v["server_signature"]:
            fail("vectors/scram/reference", "reference SCRAM server does not reproduce the RFC example (vector file corrupt?)", v)
        if v["hash"] == "sha256":
            scram_rfc7677(v)
    for v in vec.get("ed25519", []):                           # RFC 8032 section 7.1
        sk, pk, msg, sig = (bytes.fromhex(v[k]) for k in ("sk", "pk", "msg", "sig"))
        evals[0] += 1
        if not ed25519_verify(pk, msg, sig) or Ed25519PrivateKey.from_private_bytes(sk).sign(msg) != sig:
            fail("vectors/rfc8032/reference", "cryptography's Ed25519 does not reproduce the RFC 8032 vector (vector file corrupt?)", v)
        k = cryptosign.CryptosignKey.from_bytes(sk)
        r = call(k.sign, msg)
        if r != ("ok", sig) or k.public_key(binary=True) != pk or k.public_key() != pk.hex():
            fail("CryptosignKey.sign/rfc8032", f"CryptosignKey.sign/public_key != RFC 8032 vector: {r}", v)


def scram_rfc7677(v):
    """the RFC 7677 exchange through the real AuthScram: needs kdf=pbkdf2 with the salt as the router sends it (str)"""
    a = auth.AuthScram(password=v["password"], authid=v["user"])
    a._client_nonce = v["client_nonce"]
    extra = {"nonce": v["server_nonce"], "kdf": "pbkdf2", "salt": v["salt"], "iterations": v["i"], "channel_binding": v["cbind"]}
    r = call(a.on_challenge, None, wtypes.Challenge("scram", extra))
    bump("scram rfc7677 " + (r[1] if r[0] == "exc" else "ok"))
    if r[0] == "exc":
        fail(f"AuthScram.on_challenge/kdf=pbkdf2/str-salt/{r[1]}",
             f"AuthScram.on_challenge raises {r[1]} for a kdf='pbkdf2' challenge whose salt is the base64 str the router sends "
             f"(the RFC 7677 example exchange cannot be completed)",
             {"op": "scram_challenge", "password": v["password"], "authid": v["user"], "client_nonce": v["client_nonce"], "extra": extra})
    elif r[1] != v["proof"].encode():
        fail("AuthScram.on_challenge/kdf=pbkdf2/rfc7677-proof", f"client proof {r[1]!r} != RFC 7677 example proof", {"vector": v})
    else:
        # the RFC's server-final-message v=... must be accepted, and a one-bit alteration of it denied
        good = call(a.on_welcome, _Sess(), {"scram_server_signature": v["server_signature"]})
        bad = call(a.on_welcome, _Sess(), {"scram_server_signature": base64.b64encode(flip(base64.b64decode(v["server_signature"]), 7)).decode()})
        evals[0] += 2
        if good != ("ok", None) or bad == ("ok", None):
            fail("AuthScram.on_welcome/rfc7677-server-signature", f"RFC 7677 server signature -> {good}; altered -> {bad}", {"vector": v})


# ------------------------------------------------------------------------------------------------------
# WAMP-CRA
# ------------------------------------------------------------------------------------------------------
def cra_reference(secret_utf8, salt_utf8, iterations, keylen, challenge_utf8):
    """what a router does (WAMP spec, 'WAMP-CRA'): key = secret, or base64(PBKDF2-HMAC-SHA256(secret, salt, iterations,
    keylen)) when salted; signature = base64(HMAC-SHA256(key, challenge))"""
    key = secret_utf8
    if salt_utf8 is not None:
        kdf = rfc_pbkdf2 if iterations <= 100 else fast_pbkdf2
        key = base64.b64encode(kdf("sha256", secret_utf8, salt_utf8, iterations, keylen))
    return base64.b64encode(rfc_hmac("sha256", key, challenge_utf8)).decode("ascii")


def cra_case(secret, salt, iterations, keylen, challenge, force=False, flips=0):
    extra = {"challenge": challenge}
    if salt is not None:
        extra.update(salt=salt, iterations=iterations, keylen=keylen)
    with recording():
        def go():
            a = auth.create_authenticator("wampcra", authid="user", secret=secret)
            return a.on_challenge(None, wtypes.Challenge("wampcra", dict(extra)))
        r = call(go)
        tb = REC.dump()
    c = {"kind": "cra", "secret": cps(secret), "salted": None if salt is None else [pv(salt), iterations, keylen],
         "challenge": cps(challenge), "tables": tb, "out": outcome(r, cps), "force": force}
    add_case(c)
    rep = {"op": "cra", "secret": cps(secret), "salt": None if salt is None else pv(salt), "iterations": iterations, "keylen": keylen,
           "challenge": cps(challenge)}
    try:
        su, cu = secret.encode("utf8"), challenge.encode("utf8")
        sau = None if salt is None else (salt.encode("utf8") if isinstance(salt, str) else salt)
        encodable = True
    except UnicodeEncodeError:
        encodable = False
    if not encodable:
        bump("cra unencodable")
        if r != ("exc", "UnicodeEncodeError"):
            fail("AuthWampCra.on_challenge/surrogate", f"expected UnicodeEncodeError for a secret/challenge/salt with a lone surrogate, got {r}", rep)
        return
    if salt is not None and iterations < 1:
        bump("cra iterations<1")
        if r[0] != "exc":
            fail("AuthWampCra.on_challenge/iterations<1", f"iterations {iterations} accepted: {r}", rep)
        return
    want = cra_reference(su, sau, iterations, keylen, cu)
    bump("cra salted" if salt is not None else "cra unsalted")
    if r != ("ok", want):
        fail("AuthWampCra.on_challenge/" + ("salted" if salt is not None else "unsalted") + "/signature-mismatch",
             f"signature {r} differs from the independent WAMP-CRA computation {want!r}", rep)
        return
    # alterations: every flipped bit of challenge / secret / salt must change the signature (sampled), and every
    # flipped bit of the signature must be rejected by the verifier (exhaustive over the 256 bits of the MAC)
    if flips and (salt is None or keylen >= 16):       # a derived key of < 16 octets collides by pigeon-hole, not by a defect
        mac = base64.b64decode(want)
        for i in range(len(mac) * 8):
            evals[0] += 1
            bump("cra flip signature")
            alt = base64.b64encode(flip(mac, i)).decode()
            if hmac.compare_digest(alt, want):
                fail("cra/verifier/flip", "altered signature accepted", rep)
        for what, val in (("challenge", cu), ("secret", su), ("salt", sau)):
            if not val:
                continue
            for i in bit_positions(len(val) * 8, False, flips, f"cra/{what}/{len(cases)}"):
                alt = flip(val, i)
                try:
                    alt_s = alt.decode("utf8")
                except UnicodeDecodeError:
                    continue                                                     # not a str the API could be given
                s2, c2, sa2 = (alt_s if what == "secret" else secret), (alt_s if what == "challenge" else challenge), salt
                if what == "salt":
                    sa2 = alt_s if isinstance(salt, str) else alt
                ex2 = {"challenge": c2}
                if salt is not None:
                    ex2.update(salt=sa2, iterations=iterations, keylen=keylen)
                r2 = call(lambda: auth.create_authenticator("wampcra", authid="user", secret=s2).on_challenge(None, wtypes.Challenge("wampcra", ex2)))
                evals[0] += 1
                bump("cra flip " + what)
                if r2 == r:
                    fail(f"AuthWampCra.on_challenge/altered-{what}/same-signature", f"bit {i} of {what} altered, signature unchanged", dict(rep, bit=i))


def gen_cra(n):
    r = random.Random(f"{inp['seed']}/cra")
    for it in (1, 2, 100, 1000):
        for kl in (16, 32, 64):
            cra_case(gen_text(r) or "s", gen_text(r), it, kl, json.dumps({"nonce": r.getrandbits(64), "authid": "é"}, ensure_ascii=False), flips=4)
    cra_case("", None, 0, 0, "", flips=0)
    cra_case("", "", 1, 1, "", flips=0)
    cra_case("x", "s", 0, 32, "c")
    for i in range(n):
        secret = gen_text(r, allow_surrogate=True, maxlen=80)
        challenge = gen_text(r, allow_surrogate=(r.random() < 0.2), maxlen=120) if r.random() < 0.5 else json.dumps(
            {"authid": gen_text(r, maxlen=8), "nonce": r.getrandbits(128), "session": r.getrandbits(53)}, ensure_ascii=(r.random() < 0.5))
        if r.random() < 0.6:
            salt = gen_text(r, allow_surrogate=(r.random() < 0.1)) if r.random() < 0.85 else gen_bytes(r)
            it = r.choice([1, 2, 3, 10, 100, 1000]) if r.random() < 0.97 else 0
            kl = r.choice([16, 32, 64, 1, 20, 33])
            cra_case(secret, salt, it, kl, challenge, flips=(3 if i % 10 == 0 else 0))
        else:
            cra_case(secret, None, 0, 0, challenge, flips=(3 if i % 10 == 0 else 0))
    # the public helpers directly, with str and bytes arguments
    for i in range(max(10, n // 4)):
        sec, sa = (gen_text(r) if r.random() < 0.5 else gen_bytes(r)), (gen_text(r) if r.random() < 0.5 else gen_bytes(r))
        it, kl = r.choice([1, 2, 100]), r.choice([16, 32, 64])
        with recording():
            rr = call(auth.derive_key, sec, sa, it, kl)
            tb = REC.dump()
        add_case({"kind": "derive_key", "secret": pv(sec), "salt": pv(sa), "iterations": it, "keylen": kl, "tables": tb,
                  "out": outcome(rr, lambda b: b.hex())})
        su = sec.encode("utf8") if isinstance(sec, str) else sec
        sau = sa.encode("utf8") if isinstance(sa, str) else sa
        if rr != ("ok", base64.b64encode(rfc_pbkdf2("sha256", su, sau, it, kl))):
            fail("derive_key/mismatch", f"derive_key != base64(PBKDF2-HMAC-SHA256): {rr}", {"op": "derive_key", "secret": pv(sec), "salt": pv(sa), "iterations": it, "keylen": kl})
        k, ch = (gen_text(r) if r.random() < 0.5 else gen_bytes(r)), (gen_text(r) if r.random() < 0.5 else gen_bytes(r))
        with recording():
            rr = call(auth.compute_wcs, k, ch)
            tb = REC.dump()
        add_case({"kind": "wcs", "key": pv(k), "challenge": pv(ch), "tables": tb, "out": outcome(rr, lambda b: b.hex())})
        ku = k.encode("utf8") if isinstance(k, str) else k
        chu = ch.encode("utf8") if isinstance(ch, str) else ch
        if rr != ("ok", base64.b64encode(rfc_hmac("sha256", ku, chu))):
            fail("compute_wcs/mismatch", f"compute_wcs != base64(HMAC-SHA256): {rr}", {"op": "wcs", "key": pv(k), "challenge": pv(ch)})
        # pbkdf2 argument types
        d, s = (gen_text(r) if r.random() < 0.3 else gen_bytes(r)), (gen_text(r) if r.random() < 0.3 else gen_bytes(r))
        with recording():
            rr = call(auth.pbkdf2, d, s, it, kl)
            tb = REC.dump()
        add_case({"kind": "pbkdf2", "data": pv(d), "salt": pv(s), "iterations": it, "keylen": kl, "tables": tb, "out": outcome(rr, lambda b: b.hex())})
        if isinstance(d, bytes) and isinstance(s, bytes):
            if rr != ("ok", rfc_pbkdf2("sha256", d, s, it, kl)):
                fail("pbkdf2/mismatch", f"auth.pbkdf2 != RFC 8018 PBKDF2-HMAC-SHA256: {rr}", {"op": "pbkdf2", "data": pv(d), "salt": pv(s), "iterations": it, "keylen": kl})
        elif rr != ("exc", "ValueError"):
            fail("pbkdf2/types", f"auth.pbkdf2 with a str argument: {rr}", {"op": "pbkdf2", "data": pv(d), "salt": pv(s), "iterations": it, "keylen": kl})


# ------------------------------------------------------------------------------------------------------
# TOTP
# ------------------------------------------------------------------------------------------------------
def totp_case(secret, now, offset, expect=None, key="compute_totp/rfc6238-mismatch", force=False):
    NOW[0] = now + 0.75 if now >= 0 else now            # int(time.time()) truncates
    with recording():
        r = call(auth.compute_totp, secret, offset)
        tb = REC.dump()
    add_case({"kind": "totp", "secret": cps(secret), "now": int(NOW[0]), "offset": offset, "tables": tb, "out": outcome(r, cps), "force": force})
    rep = {"op": "totp", "secret": secret, "now": now, "offset": offset}
    try:
        kb = base64.b32decode(secret)
    except Exception:
        bump("totp bad-secret")
        if r[0] != "exc":
            fail("compute_totp/bad-secret-accepted", f"not a Base32 secret, yet {r}", rep)
        return r
    counter = int(NOW[0]) // 30 + offset
    if not (0 <= counter < 2 ** 64):
        bump("totp counter-out-of-range")
        if r[0] != "exc":
            fail("compute_totp/counter-range", f"counter {counter}: {r}", rep)
        return r
    want = rfc_hotp(kb, counter) if expect is None else expect
    bump("totp ok")
    if r != ("ok", want) or rfc_hotp(kb, counter) != want:
        fail(key, f"compute_totp -> {r}, RFC 6238/4226 reference -> {want!r}", rep)
    elif not (len(r[1]) == 6 and r[1].isdigit() and r[1].isascii()):
        fail("compute_totp/format", f"not six decimal digits: {r}", rep)
    return r


def gen_totp(n):
    r = random.Random(f"{inp['seed']}/totp")
    for bad in ["abc", "mfrggzdf", "========", "MFRGG=Z=", "MFRGGZD1", "MFRGGZDé"]:
        totp_case(bad, 1000, 0)
    totp_case("MFRGGZDF", 10, -1)                        # counter -1 -> struct.error
    totp_case("MFRGGZDF", 30, -1)
    totp_case("", 59, 0)                                 # empty key is a valid HMAC key
    for i in range(n):
        with recording():
            URANDOM[0] = r
            ln = r.choice([10, 10, 10, 1, 5, 16, 20, 32, 64, 65, 100])
            secret = auth.generate_totp_secret(ln)
            URANDOM[0] = None
        if base64.b32decode(secret) is None or len(base64.b32decode(secret)) != ln or not all(c in "ABCDEFGHIJKLMNOPQRSTUVWXYZ234567=" for c in secret):
            fail("generate_totp_secret/format", "not a base32 string of the requested entropy", {"op": "gen_totp_secret", "length": ln})
        step = r.choice([0, 1, 2, 3, 1000, 55555555, 2 ** 31 // 30, 2 ** 32 // 30, r.getrandbits(40), r.getrandbits(20)])
        for now in (step * 30 - 1, step * 30, step * 30 + 1, step * 30 + 29, step * 30 + 30):
            if now < 0:
                continue
            off = r.choice([0, 0, 0, 1, -1, 2, -2])
            rr = totp_case(secret, now, off)
        # check_totp: tickets of the adjacent steps are accepted, others are not
        now = step * 30 + r.randint(0, 29)
        if step >= 2:
            NOW[0] = now
            kb = base64.b32decode(secret)
            cur = now // 30
            tickets = [(rfc_hotp(kb, cur + d), d) for d in (0, 1, -1, 2, -2)]
            tickets.append(("%06d" % r.randint(0, 999999), None))
            tickets.append((rfc_hotp(kb, cur)[:5], None))
            valid = {rfc_hotp(kb, cur + d) for d in (0, 1, -1)}
            for tk, d in tickets:
                with recording():
                    rr = call(auth.check_totp, secret, tk)
                    tb = REC.dump()
                add_case({"kind": "check_totp", "secret": cps(secret), "ticket": cps(tk), "now": now, "tables": tb, "out": outcome(rr)})
                bump("check_totp " + ("valid" if tk in valid else "invalid"))
                if rr != ("ok", tk in valid):
                    fail("check_totp/window", f"check_totp({tk!r}) at step offset {d} -> {rr}, RFC 6238 window (0,+1,-1) says {tk in valid}",
                         {"op": "check_totp", "secret": secret, "now": now, "ticket": tk})


# ------------------------------------------------------------------------------------------------------
# WAMP-SCRAM
# ------------------------------------------------------------------------------------------------------
def scram_case(password, authid, kdf, salt_raw, iterations, memory, cbind, salt_as="str", exhaustive_flips=False, force=False,
               extra_over=None, client_nonce=None):
    """full exchange; the 'router' is RfcScramServer.  salt_as: how extra['salt'] is typed on the wire"""
    URANDOM[0] = random.Random(f"{inp['seed']}/nonce/{evals[0]}")
    a = auth.AuthScram(password=password, authid=authid)
    if client_nonce is None:
        client_nonce = a.authextra["nonce"]                     # what HELLO carries
    else:
        a._client_nonce = client_nonce
    URANDOM[0] = None
    server_nonce = client_nonce + base64.b64encode(random.Random(f"{inp['seed']}/snonce/{evals[0]}").randbytes(16)).decode()
    salt_txt = base64.b64encode(salt_raw).decode()
    salt_wire = salt_txt if salt_as == "str" else salt_txt.encode()
    extra = {"nonce": server_nonce, "kdf": kdf, "salt": salt_wire, "iterations": iterations}
    if memory is not None:
        extra["memory"] = memory
    if cbind is not None:
        extra["channel_binding"] = cbind
    if extra_over:
        extra.update(extra_over)
    with recording():
        r = call(a.on_challenge, None, wtypes.Challenge("scram", dict(extra)))
        tb = REC.dump()
    if isinstance(extra["salt"], bytes):
        tb["repr"] = [[extra["salt"].hex(), cps(f"{extra['salt']}")]]
    st = None
    if r[0] == "ok":
        st = (a._auth_message, a._salted_password)
    c = {"kind": "scram_challenge", "password": cps(password), "authid": cps(authid), "client_nonce": cps(client_nonce),
         "extra": {"nonce": cps(server_nonce), "kdf": cps(extra["kdf"]), "salt": pv(extra["salt"]), "iterations": iterations,
                   "memory": extra.get("memory"), "cbind": cps(extra.get("channel_binding", ""))},
         "tables": tb, "force": force,
         "out": {"ok": [r[1].hex(), st[0].hex(), st[1].hex()]} if r[0] == "ok" else {"exc": r[1]}}
    add_case(c)
    rep = {"op": "scram_challenge", "password": password, "authid": authid, "client_nonce": client_nonce,
           "extra": {k: (v if not isinstance(v, bytes) else {"b": v.hex()}) for k, v in extra.items()}}
    label = f"scram {extra['kdf']} salt={salt_as}"
    # ---- what must happen ----
    try:
        pw = password.encode("utf8")
    except UnicodeEncodeError:
        bump(label + " surrogate-password")
        if r[0] != "exc":
            fail("AuthScram.on_challenge/surrogate-password", f"{r}", rep)
        return
    if extra["kdf"] not in ("pbkdf2", "argon2id-13"):
        bump(label + " unknown-kdf")
        if r != ("exc", "RuntimeError"):
            fail("AuthScram.on_challenge/unknown-kdf", f"{r}", rep)
        return
    if extra["kdf"] == "argon2id-13" and memory is None:
        bump(label + " no-memory")
        if r != ("exc", "ValueError"):
            fail("AuthScram.on_challenge/argon2-no-memory", f"{r}", rep)
        return
    if salt_as != "str":
        # a bytes salt is formatted as "b'...'" into the AuthMessage: no router can agree with that; only the model is compared
        bump(label + " " + (r[1] if r[0] == "exc" else "ok"))
        return
    if not authid.isascii() or not auth.saslprep(authid).isascii():
        bump(label + " non-ascii-authid")
        return                                                   # reported separately (outside the property's quantifier)
    # the router's view, from RFC 5802 / the WAMP-SCRAM profile
    if extra["kdf"] == "pbkdf2":
        salted = (rfc_pbkdf2 if iterations <= 100 else fast_pbkdf2)("sha256", pw, salt_raw, iterations, 32)
    else:
        # convention of this code base (derive_scram_credential, crossbar): SaltedPassword is the unpadded base64 TEXT of the tag
        salted = argon_tag_text(argon2id_raw(pw, salt_raw, iterations, memory))
    srv = RfcScramServer.from_salted_password(salted)
    am = RfcScramServer.auth_message(f"n={_real_saslprep(authid)},r={client_nonce}", f"r={server_nonce},s={salt_txt},i={iterations}",
                                     f"c={extra.get('channel_binding', '')},r={server_nonce}")
    if r[0] == "exc":
        bump(label + " " + r[1])
        fail(f"AuthScram.on_challenge/kdf={extra['kdf']}/str-salt/{r[1]}",
             f"AuthScram.on_challenge raises {r[1]} for a well-formed kdf='{extra['kdf']}' challenge (salt is the base64 str the router sends): "
             f"the method cannot interoperate", rep)
        return
    bump(label + " ok")
    try:
        proof = base64.b64decode(r[1], validate=True)
    except Exception:
        proof = b""
    if not srv.verify_client_proof(am, proof):
        fail(f"AuthScram.on_challenge/kdf={extra['kdf']}/proof-rejected", "the RFC 5802 server rejects the client proof", rep)
        return
    sig = srv.server_signature(am)
    good = base64.b64encode(sig).decode()

    def welcome(sigval, note, want_accept):
        with recording():
            rr = call(a.on_welcome, _Sess(), {"scram_server_signature": sigval})
            tbw = REC.dump()
        evals[0] += 1
        accepted = (rr == ("ok", None))
        add_w = (note != "flip") or (evals[0] % 16 == 0)
        if add_w:
            evals[0] -= 1
            add_case({"kind": "scram_welcome", "am": st[0].hex(), "salted": st[1].hex(), "sig": pv(sigval), "tables": tbw,
                      "out": {"ok": accepted} if rr[0] == "ok" else {"exc": rr[1]}})
        bump(f"scram welcome {note} " + ("accept" if accepted else ("deny" if rr[0] == "ok" else rr[1])))
        if accepted != want_accept:
            fail("AuthScram.on_welcome/" + ("correct-signature-denied" if want_accept else "forged-signature-accepted"),
                 f"on_welcome({note}) -> {rr}", dict(rep, welcome_sig=pv(sigval), note=note))
        elif rr[0] == "ok" and not accepted and not isinstance(rr[1], str):
            fail("AuthScram.on_welcome/deny-value", f"deny value is not an error string: {rr}", rep)

    welcome(good, "correct", True)
    welcome(good.encode(), "correct-bytes", True)
    # every single-bit alteration of the server signature
    for i in bit_positions(256, exhaustive_flips, 24, f"ssig/{evals[0]}"):
        welcome(base64.b64encode(flip(sig, i)).decode(), "flip", False)
    welcome(base64.b64encode(sig[:-1]).decode(), "truncated", False)
    welcome(base64.b64encode(sig + b"\x00").decode(), "extended", False)
    welcome("", "empty", False)
    welcome(r[1].decode(), "client-proof-echoed", False)
    welcome(base64.b64encode(srv.server_signature(am + b"x")).decode(), "other-authmessage", False)
    # every single-bit alteration of the client proof must be rejected by the RFC server
    for i in bit_positions(256, exhaustive_flips, 24, f"proof/{evals[0]}"):
        evals[0] += 1
        bump("scram flip proof")
        if srv.verify_client_proof(am, flip(proof, i)):
            fail("scram/verifier/flipped-proof-accepted", "RFC server accepts an altered proof", rep)
    # altered password / salt / nonce / iterations: the proof must change and be rejected by the original server
    alts = []
    pwb = password.encode("utf8")
    for i in bit_positions(len(pwb) * 8, False, 3, f"pw/{evals[0]}"):
        try:
            alts.append(("password", dict(password=flip(pwb, i).decode("utf8"))))
        except UnicodeDecodeError:
            pass
    for i in bit_positions(len(salt_raw) * 8, False, 3, f"salt/{evals[0]}"):
        alts.append(("salt", dict(salt_raw=flip(salt_raw, i))))
    alts.append(("iterations", dict(iterations=iterations + 1)))
    for what, ch in alts:
        p2, s2, i2 = ch.get("password", password), ch.get("salt_raw", salt_raw), ch.get("iterations", iterations)
        b = auth.AuthScram(password=p2, authid=authid)
        b._client_nonce = client_nonce
        ex2 = dict(extra, salt=base64.b64encode(s2).decode(), iterations=i2)
        r2 = call(b.on_challenge, None, wtypes.Challenge("scram", ex2))
        evals[0] += 1
        bump("scram altered " + what)
        if r2[0] == "ok":
            p2b = base64.b64decode(r2[1])
            # the server still holds the ORIGINAL credential; for salt/iterations the AuthMessage it computes is its own
            if p2b == proof or srv.verify_client_proof(am, p2b):
                fail(f"AuthScram.on_challenge/altered-{what}/accepted", f"altered {what}: proof unchanged or accepted by the original server", dict(rep, altered=what))


class _Log:
    def error(self, *a, **k): pass
    def info(self, *a, **k): pass
    def debug(self, *a, **k): pass
    def warn(self, *a, **k): pass


class _Sess:
    log = _Log()


def gen_scram(n, exhaustive_every):
    r = random.Random(f"{inp['seed']}/scram")
    if not auth.HAS_ARGON:
        fail("AuthScram/unavailable", "argon2/passlib not importable: AuthScram cannot be constructed", {})
        return
    base = [("p4ssw0rd", "username", "argon2id-13", b"1234567890abcdef", 2, 16, None),
            ("p4ssw0rd", "username", "pbkdf2", b"1234567890abcdef", 8, None, None),
            ("pencil", "user", "pbkdf2", base64.b64decode("W22ZaJ0SNY7soEsUEjb6gQ=="), 4096, None, "biws"),
            ("", "u", "argon2id-13", b"12345678", 1, 8, ""),
            ("пароль-密码-😀", "user", "argon2id-13", bytes(16), 1, 8, "biws")]
    for i, (pw, aid, kdf, salt, it, mem, cb) in enumerate(base):
        scram_case(pw, aid, kdf, salt, it, mem, cb, exhaustive_flips=True, force=True)
    scram_case("pw", "user", "argon2id-13", b"12345678", 1, None, None)               # no memory
    scram_case("pw", "user", "scrypt", b"12345678", 1, 8, None)                       # unknown kdf
    scram_case("pw", "user", "argon2id-13", b"12345678", 1, 8, None, salt_as="bytes")
    scram_case("pw", "user", "pbkdf2", b"12345678", 2, None, None, salt_as="bytes")
    scram_case("pw\ud800", "user", "argon2id-13", b"12345678", 1, 8, None)
    for i in range(n):
        pw = gen_text(r, allow_surrogate=True, maxlen=48)
        aid = "".join(r.choice("abcdefghijklmnopqrstuvwxyz0123456789.-_@") for _ in range(r.randint(1, 12)))
        kdf = r.choice(["argon2id-13", "argon2id-13", "pbkdf2"])
        salt = r.randbytes(r.choice([8, 16, 16, 16, 24, 32]))
        if kdf == "pbkdf2":
            it, mem = r.choice([1, 2, 100, 1000, 4096]), (None if r.random() < 0.8 else 8)
        else:
            it, mem = r.choice([1, 2, 3]), r.choice([8, 16, 32, 64])
        cb = r.choice([None, None, "", "biws", "tls-unique"])
        scram_case(pw, aid, kdf, salt, it, mem, cb, salt_as=("str" if r.random() < 0.9 else "bytes"),
                   exhaustive_flips=(exhaustive_every and i % exhaustive_every == 0))
    # derive_scram_credential (the credential a router is configured with) against the RFC server + the client
    for i in range(inp.get("scram_cred", 1)):
        pw = gen_text(r, maxlen=20) or "pw"
        salt = r.randbytes(16)
        with recording():
            rr = call(auth.derive_scram_credential, "user@example.com", pw, salt)
            tb = REC.dump()
        add_case({"kind": "scram_cred", "password": cps(pw), "salt": salt.hex(), "tables": tb, "force": True,
                  "out": {"ok": [rr[1]["stored-key"], rr[1]["server-key"]]} if rr[0] == "ok" else {"exc": rr[1]}})
        rep = {"op": "scram_cred", "password": pw, "salt": salt.hex()}
        if rr[0] != "ok":
            fail("derive_scram_credential/raises", f"{rr}", rep)
            continue
        cred = rr[1]
        ok = (cred["kdf"] == "argon2id-13" and cred["iterations"] == 4096 and cred["memory"] == 512 and cred["salt"] == salt.hex())
        srv = RfcScramServer(bytes.fromhex(cred["stored-key"]), bytes.fromhex(cred["server-key"]))
        a = auth.AuthScram(password=pw, authid="user")
        cn = a.authextra["nonce"]
        sn = cn + "SRV"
        extra = {"nonce": sn, "kdf": cred["kdf"], "salt": base64.b64encode(salt).decode(), "iterations": cred["iterations"], "memory": cred["memory"]}
        r2 = call(a.on_challenge, None, wtypes.Challenge("scram", extra))
        am = RfcScramServer.auth_message(f"n=user,r={cn}", f"r={sn},s={extra['salt']},i=4096", f"c=,r={sn}")
        evals[0] += 1
        bump("scram credential exchange")
        if not ok or r2[0] != "ok" or not srv.verify_client_proof(am, base64.b64decode(r2[1])):
            fail("derive_scram_credential/client-proof-rejected", f"a router configured with derive_scram_credential() rejects AuthScram's proof ({r2[0]})", rep)
        elif call(a.on_welcome, _Sess(), {"scram_server_signature": base64.b64encode(srv.server_signature(am)).decode()}) != ("ok", None):
            fail("derive_scram_credential/server-signature-denied", "AuthScram denies the signature made with the derived server-key", rep)


# ------------------------------------------------------------------------------------------------------
# histories of calls on ONE AuthScram object: WELCOME on a fresh object, after a failed / partial CHALLENGE, twice,
# after a second CHALLENGE with other parameters.  Oracle (independent tracker below): a WELCOME may be accepted only
# when a CHALLENGE completed before (its KDF ran) and only with HMAC(HMAC(SaltedPassword,"Server Key"), AuthMessage)
# of the values in force; in particular never on a fresh object and never the password-independent constant
# HMAC(HMAC(b"","Server Key"), b"").
# ------------------------------------------------------------------------------------------------------
EMPTY_DEFAULT_SIG = rfc_hmac("sha256", rfc_hmac("sha256", b"", b"Server Key"), b"")


def history_case(r, template=None, force=False):
    password = gen_text(r, maxlen=12) or "pw"
    try:
        pw = password.encode("utf8")
    except UnicodeEncodeError:
        password, pw = "pässwörd", "pässwörd".encode("utf8")
    authid = "user" + str(r.randint(0, 9))
    a = auth.AuthScram(password=password, authid=authid)
    ref = {"nonce": None, "am": None, "sp": None}
    past_sigs, last_proof = [], [None]
    ops, outs = [], []
    REC.reset()

    def impl(f, *args):
        REC.on = True
        try:
            return call(f, *args)
        finally:
            REC.on = False

    def do_authextra():
        URANDOM[0] = random.Random(f"{inp['seed']}/hnonce/{evals[0]}/{len(ops)}")
        n = a.authextra["nonce"]
        URANDOM[0] = None
        if ref["nonce"] is None:
            ref["nonce"] = n
        ops.append({"op": "authextra", "nonce": cps(n)})
        outs.append({"ok": ""})
        if n != ref["nonce"]:
            fail("AuthScram.authextra/nonce-changed", "the client nonce changed between two reads of authextra", {"op": "scram_history"})

    def do_challenge(variant):
        sn = (ref["nonce"] or "x") + base64.b64encode(r.randbytes(9)).decode()
        salt_raw = r.randbytes(16)
        extra = {"nonce": sn, "kdf": "argon2id-13", "salt": base64.b64encode(salt_raw).decode(), "iterations": r.choice([1, 2]), "memory": r.choice([8, 16])}
        if variant == "pbkdf2":
            extra.update(kdf="pbkdf2", iterations=r.choice([1, 2, 50]))
            del extra["memory"]
        elif variant == "unknown-kdf":
            extra["kdf"] = "scrypt"
        elif variant == "no-memory":
            del extra["memory"]
        elif variant == "bad-salt":
            extra["salt"] = "QUJ"
        elif variant == "pbkdf2-iter0":
            extra.update(kdf="pbkdf2", iterations=0)
            del extra["memory"]
        elif variant == "nonascii-cbind":
            extra["channel_binding"] = "bïws"
        elif variant == "cbind":
            extra["channel_binding"] = "biws"
        rr = impl(a.on_challenge, None, wtypes.Challenge("scram", dict(extra)))
        ops.append({"op": "challenge", "extra": {"nonce": cps(sn), "kdf": cps(extra["kdf"]), "salt": pv(extra["salt"]), "iterations": extra["iterations"],
                                                "memory": extra.get("memory"), "cbind": cps(extra.get("channel_binding", ""))}})
        outs.append(outcome(rr, lambda b: b.hex()))
        # independent tracker of what a completed / partial challenge leaves behind
        completed = False
        if ref["nonce"] is not None:
            am = f"n={authid},r={ref['nonce']},r={sn},s={extra['salt']},i={extra['iterations']},c={extra.get('channel_binding', '')},r={sn}"
            if am.isascii():
                ref["am"] = am.encode("ascii")
                try:
                    if extra["kdf"] == "argon2id-13" and "memory" in extra:
                        ref["sp"] = argon_tag_text(argon2id_raw(pw, base64.b64decode(extra["salt"]), extra["iterations"], extra["memory"]))
                        completed = True
                    elif extra["kdf"] == "pbkdf2" and extra["iterations"] >= 1:
                        ref["sp"] = rfc_pbkdf2("sha256", pw, base64.b64decode(extra["salt"]), extra["iterations"], 32)
                        completed = True
                except Exception:
                    pass
        bump(f"history challenge {variant} " + ("ok" if rr[0] == "ok" else rr[1]))
        if completed != (rr[0] == "ok"):
            fail("AuthScram.on_challenge/history/outcome", f"challenge variant {variant}: implementation {rr[0]}, reference completed={completed}",
                 {"op": "scram_history", "password": password, "authid": authid, "ops": ops})
        if completed:
            srv = RfcScramServer.from_salted_password(ref["sp"])
            if not srv.verify_client_proof(ref["am"], base64.b64decode(rr[1])):
                fail("AuthScram.on_challenge/history/proof-rejected", "RFC 5802 server rejects the proof", {"op": "scram_history", "password": password, "authid": authid, "ops": ops})
            past_sigs.append(srv.server_signature(ref["am"]))
            last_proof[0] = rr[1].decode()

    def do_welcome(which):
        genuine = None
        if ref["sp"] is not None and ref["am"] is not None:
            genuine = rfc_hmac("sha256", rfc_hmac("sha256", ref["sp"], b"Server Key"), ref["am"])
        if which == "genuine" and genuine is None:
            which = "empty-default"
        if which == "previous" and len(past_sigs) < 2:
            which = "random"
        if which == "proof-echo" and last_proof[0] is None:
            which = "random"
        sig = {"genuine": genuine, "empty-default": EMPTY_DEFAULT_SIG, "random": r.randbytes(32), "previous": past_sigs[-2] if len(past_sigs) >= 2 else None}.get(which)
        if which == "missing":
            ax, sigj = {}, None
        elif which == "garbage":
            ax, sigj = {"scram_server_signature": "QUJ"}, pv("QUJ")
        elif which == "proof-echo":
            ax, sigj = {"scram_server_signature": last_proof[0]}, pv(last_proof[0])
        else:
            t = base64.b64encode(sig).decode()
            ax, sigj = {"scram_server_signature": t}, pv(t)
        rr = impl(a.on_welcome, _Sess(), ax)
        accepted = rr == ("ok", None)
        ops.append({"op": "welcome", "sig": sigj})
        outs.append({"exc": rr[1]} if rr[0] == "exc" else {"ok": "01" if accepted else "00"})
        evals[0] += 1
        state = "fresh" if ref["am"] is None and ref["sp"] is None else ("partial" if ref["sp"] is None else "challenged")
        bump(f"history welcome {state} {which} " + ("accept" if accepted else "deny" if rr[0] == "ok" else rr[1]))
        may_accept = genuine is not None and sig is not None and which not in ("missing", "garbage", "proof-echo") and hmac.compare_digest(sig, genuine)
        rep = {"op": "scram_history", "password": password, "authid": authid, "ops": list(ops)}
        if accepted and not may_accept:
            if genuine is None:
                fail("AuthScram.on_welcome/accepted-without-completed-challenge",
                     f"on_welcome accepts a WELCOME ({which} signature) although no CHALLENGE completed on this object (state {state}): "
                     f"a router that never proved knowledge of the password is accepted", rep)
            else:
                fail("AuthScram.on_welcome/forged-signature-accepted", f"on_welcome({which}) accepted in state {state}", rep)
        elif may_accept and not accepted:
            fail("AuthScram.on_welcome/correct-signature-denied", f"on_welcome(genuine) -> {rr} in state {state}", rep)
        elif rr[0] == "ok" and not accepted and not isinstance(rr[1], str):
            fail("AuthScram.on_welcome/deny-value", f"deny value is not an error string: {rr}", rep)

    good = ["argon", "argon", "pbkdf2", "cbind"]
    bad = ["unknown-kdf", "no-memory", "bad-salt", "pbkdf2-iter0", "nonascii-cbind"]
    sigs = ["genuine", "empty-default", "random", "missing", "garbage", "previous", "proof-echo"]
    templates = {
        "fresh": lambda: [("w", s_) for s_ in r.sample(sigs, 3)],
        "fresh-after-hello": lambda: [("a",)] + [("w", s_) for s_ in ["empty-default", r.choice(sigs)]],
        "failed": lambda: [("a",), ("c", r.choice(bad)), ("w", "empty-default"), ("w", r.choice(sigs))],
        "no-hello": lambda: [("c", r.choice(good)), ("w", "empty-default"), ("a",), ("w", "random")],
        "twice": lambda: [("a",), ("c", r.choice(good)), ("w", "genuine"), ("w", "genuine"), ("w", r.choice(sigs))],
        "rechallenge": lambda: [("a",), ("c", r.choice(good)), ("c", r.choice(good)), ("w", "previous"), ("w", "genuine")],
        "good-then-failed": lambda: [("a",), ("c", r.choice(good)), ("c", r.choice(bad)), ("w", "genuine"), ("w", "previous"), ("w", "empty-default")],
        "random": lambda: [r.choice([("a",), ("c", r.choice(good + bad)), ("w", r.choice(sigs)), ("w", r.choice(sigs))]) for _ in range(r.randint(2, 6))],
    }
    tname = template or r.choice(list(templates))
    for st in templates[tname]():
        if st[0] == "a": do_authextra()
        elif st[0] == "c": do_challenge(st[1])
        else: do_welcome(st[1])
    bump("history template " + tname)
    am_, sp_ = getattr(a, "_auth_message", None), getattr(a, "_salted_password", None)
    add_case({"kind": "scram_history", "password": cps(password), "authid": cps(authid), "ops": ops, "outs": outs,
              "state": [None if am_ is None else am_.hex(), None if sp_ is None else sp_.hex()], "tables": REC.dump(), "force": force})


def gen_history(n):
    r = random.Random(f"{inp['seed']}/history")
    for t in ("fresh", "fresh-after-hello", "failed", "no-hello", "twice", "rechallenge", "good-then-failed"):
        history_case(r, t, force=True)
    for i in range(n):
        history_case(r)


# ------------------------------------------------------------------------------------------------------
# WAMP-cryptosign
# ------------------------------------------------------------------------------------------------------
class _TD:
    def __init__(self, cid): self.channel_id = cid


class _Tr:
    def __init__(self, cid): self.transport_details = _TD(cid)


class _CsSess:
    def __init__(self, cid): self._transport = _Tr(cid)


def router_verify_cryptosign(pubkey, challenge_raw, channel_id, signature_hex):
    """what a router does (WAMP spec 'Cryptosign'; crossbar's PendingAuthCryptosign): signature is hex of
    64-octet Ed25519 signature + 32-octet signed message; the message must be challenge XOR channel id"""
    if not isinstance(signature_hex, str) or len(signature_hex) != (64 + 32) * 2:
        return False
    try:
        raw = bytes.fromhex(signature_hex)
    except ValueError:
        return False
    sig, msg = raw[:64], raw[64:]
    expected = challenge_raw if channel_id is None else xor_bytes(challenge_raw, channel_id)
    return ed25519_verify(pubkey, msg, sig) and hmac.compare_digest(msg, expected)


def cs_case(seed, challenge_hex, cid, cid_type, via="authenticator", exhaustive_flips=False, force=False):
    pk = Ed25519PrivateKey.from_private_bytes(seed).public_key().public_bytes_raw()
    with recording():
        def go():
            if via == "authenticator":
                ax = {"channel_binding": cid_type} if cid_type is not None else {}
                a = auth.create_authenticator("cryptosign", privkey=seed.hex(), authid="user", authextra=ax)
                if a.authextra.get("pubkey") != pk.hex():
                    raise RuntimeError("pubkey in authextra differs")
                chan = {} if cid is None else {cid_type or "tls-unique": cid}
                return a.on_challenge(_CsSess(chan), wtypes.Challenge("cryptosign", {"challenge": challenge_hex}))
            k = cryptosign.CryptosignKey.from_bytes(seed)
            return k.sign_challenge(wtypes.Challenge("cryptosign", {"challenge": challenge_hex}), channel_id=cid, channel_id_type=cid_type)
        r = call(go)
        tb = REC.dump()
    c = {"kind": "cs_sign", "seed": seed.hex(), "challenge": pv(challenge_hex) if isinstance(challenge_hex, (str, bytes)) else None,
         "cid": None if cid is None else cid.hex(), "cid_type": None if cid_type is None else cps(cid_type), "tables": tb,
         "out": outcome(r, cps), "force": force}
    if c["challenge"] is not None:
        add_case(c)
    rep = {"op": "cs_sign", "seed": seed.hex(), "challenge": challenge_hex if isinstance(challenge_hex, str) else repr(challenge_hex),
           "cid": None if cid is None else cid.hex(), "cid_type": cid_type, "via": via}
    wellformed = (isinstance(challenge_hex, str) and len(challenge_hex) == 64 and all(ch in "0123456789abcdefABCDEF" for ch in challenge_hex)
                  and (cid_type is None or (cid_type == "tls-unique" and cid is not None and len(cid) == 32)))
    if not wellformed:
        bump("cs malformed " + (r[1] if r[0] == "exc" else "ok"))
        if r[0] != "exc":
            fail("cryptosign/malformed-accepted", f"{r}", rep)
        return
    craw = bytes.fromhex(challenge_hex)
    bind = cid if cid_type == "tls-unique" else None
    bump("cs ok " + ("bound" if bind is not None else "unbound"))
    if r[0] != "ok" or not router_verify_cryptosign(pk, craw, bind, r[1]):
        fail("cryptosign/" + ("tls-unique" if bind is not None else "no-binding") + "/signature-rejected",
             f"router-side verification (Ed25519 over challenge XOR channel id) rejects the signature: {r[0]}", rep)
        return
    # alterations
    raw = bytes.fromhex(r[1])
    for i in bit_positions(len(raw) * 8, exhaustive_flips, 32, f"cs/{evals[0]}"):
        evals[0] += 1
        bump("cs flip signature")
        if router_verify_cryptosign(pk, craw, bind, flip(raw, i).hex()):
            fail("cryptosign/verifier/flipped-accepted", f"bit {i} of the signature altered and accepted", rep)
    for what, val in (("challenge", craw), ("channel_id", bind), ("key", seed)):
        if val is None:
            continue
        for i in bit_positions(len(val) * 8, exhaustive_flips and what != "key", 4, f"cs/{what}/{evals[0]}"):
            alt = flip(val, i)
            k = cryptosign.CryptosignKey.from_bytes(alt if what == "key" else seed)
            ch2 = (alt if what == "challenge" else craw).hex()
            cid2 = alt if what == "channel_id" else cid
            r2 = call(k.sign_challenge, wtypes.Challenge("cryptosign", {"challenge": ch2}), channel_id=cid2, channel_id_type=cid_type)
            evals[0] += 1
            bump("cs altered " + what)
            # the router still expects the ORIGINAL challenge / channel id / public key
            if r2[0] == "ok" and (r2[1] == r[1] or router_verify_cryptosign(pk, craw, bind, r2[1])):
                fail(f"cryptosign/altered-{what}/accepted", f"bit {i} of {what} altered, signature unchanged or accepted", dict(rep, bit=i))


def gen_cs(n, exhaustive_every):
    r = random.Random(f"{inp['seed']}/cs")
    seed0 = bytes(range(32))
    cs_case(seed0, "aa" * 32, None, None, exhaustive_flips=True, force=True)
    cs_case(seed0, "aa" * 32, bytes(32), "tls-unique", exhaustive_flips=True, force=True)
    cs_case(seed0, "AbCdEf" + "00" * 29, b"\xff" * 32, "tls-unique", via="key", force=True)
    for bad in [("zz" * 32, None, None), ("aa" * 31, None, None), ("aa" * 33, None, None), ("é" + "a" * 63, None, None),
                ("aa" * 32, None, "tls-unique"), ("aa" * 32, b"x", "tls-unique"), ("aa" * 32, bytes(31), "tls-unique"),
                ("aa" * 32, bytes(33), "tls-unique"), ("aa" * 32, bytes(32), "tls-exporter"), (b"aa" * 32, None, None), ("", None, None)]:
        cs_case(seed0, bad[0], bad[1], bad[2], via="key")
    for i in range(n):
        seed = r.randbytes(32)
        ch = r.randbytes(32).hex()
        if r.random() < 0.2:
            ch = ch.upper()
        bound = r.random() < 0.5
        cs_case(seed, ch, r.randbytes(32) if bound else (None if r.random() < 0.7 else r.randbytes(32)), "tls-unique" if bound else None,
                via=r.choice(["authenticator", "key"]), exhaustive_flips=(exhaustive_every and i % exhaustive_every == 0))


# ------------------------------------------------------------------------------------------------------
# util.xor, codecs, create_authenticator, ticket / anonymous
# ------------------------------------------------------------------------------------------------------
def gen_misc(n):
    r = random.Random(f"{inp['seed']}/misc")
    for i in range(n):
        a = gen_bytes(r, (0, 1, 2, 16, 32, 33))
        b = r.randbytes(len(a)) if r.random() < 0.8 else gen_bytes(r, (0, 1, 31, 32))
        rr = call(autil.xor, a, b)
        add_case({"kind": "xor", "a": a.hex(), "b": b.hex(), "out": outcome(rr, lambda x: x.hex())})
        if len(a) == len(b):
            if rr != ("ok", xor_bytes(a, b)) or call(autil.xor, rr[1], b) != ("ok", a):
                fail("util.xor/mismatch", f"{rr}", {"op": "xor", "a": a.hex(), "b": b.hex()})
        elif rr[0] != "exc":
            fail("util.xor/length-mismatch-accepted", f"{rr}", {"op": "xor", "a": a.hex(), "b": b.hex()})
        # the codecs as the interpreter implements them (validates the concrete Gallina codecs the model uses)
        x = r.randbytes(r.choice([0, 1, 2, 3, 4, 5, 31, 32, 33, 64]))
        add_case({"kind": "codec", "codec": 0, "input": x.hex(), "out": {"ok": binascii.b2a_base64(x).strip().hex()}})
        add_case({"kind": "codec", "codec": 2, "input": x.hex(), "out": {"ok": binascii.b2a_hex(x).hex()}})
        t = base64.b64encode(x)
        if r.random() < 0.7 and t:
            t = bytearray(t)
            for _ in range(r.randint(1, 3)):
                p = r.randrange(len(t))
                op = r.random()
                if op < 0.4: t[p] ^= 1 << r.randrange(8)
                elif op < 0.6: del t[p]
                elif op < 0.8: t.insert(p, r.choice(b"=\n !-_A"))
                else: t[p] = r.choice(b"=Az09+/")
            t = bytes(t)
        add_case({"kind": "codec", "codec": 1, "input": bytes(t).hex(), "out": outcome(call(base64.b64decode, bytes(t)), lambda v: v.hex())})
        h = bytearray(x.hex().encode() if r.random() < 0.5 else x.hex().upper().encode())
        if r.random() < 0.5 and h:
            p = r.randrange(len(h))
            if r.random() < 0.5: h[p] = r.choice(b"gG:/@`")
            else: del h[p]
        add_case({"kind": "codec", "codec": 3, "input": bytes(h).hex(), "out": outcome(call(binascii.a2b_hex, bytes(h)), lambda v: v.hex())})
        # base32 as generate_totp_secret / compute_totp use it: valid strings of every padding class and corrupted ones
        kb = r.randbytes(r.choice([0, 1, 2, 3, 4, 5, 6, 9, 10, 10, 16, 20, 32]))
        add_case({"kind": "codec", "codec": 9, "input": kb.hex(), "out": {"ok": base64.b32encode(kb).hex()}})
        t32 = base64.b32encode(kb).decode()
        if r.random() < 0.6 and t32:
            tl = list(t32)
            for _ in range(r.randint(1, 2)):
                p32 = r.randrange(len(tl))
                op = r.random()
                if op < 0.25: tl[p32] = tl[p32].lower()
                elif op < 0.45: tl[p32] = r.choice("=018 9é-")
                elif op < 0.6: del tl[p32]
                elif op < 0.8: tl.insert(p32, r.choice("=A7"))
                else: tl[p32] = r.choice("ABCDEFGHIJKLMNOPQRSTUVWXYZ234567")
            t32 = "".join(tl)
            if r.random() < 0.3:
                t32 = t32.rstrip("=") + "=" * r.choice([0, 1, 2, 3, 4, 5, 6, 7, 8])
        add_case({"kind": "codec_s", "codec": 8, "input": cps(t32), "out": outcome(call(base64.b32decode, t32), lambda v: v.hex())})
        s = gen_text(r, allow_surrogate=True, maxlen=12)
        add_case({"kind": "codec_s", "codec": 4, "input": cps(s), "out": outcome(call(s.encode, "utf8"), lambda v: v.hex())})
        add_case({"kind": "codec_s", "codec": 5, "input": cps(s), "out": outcome(call(s.encode, "ascii"), lambda v: v.hex())})
        nn = r.choice([0, 1, 9, 10, 4096, r.getrandbits(20), r.getrandbits(70)])
        add_case({"kind": "codec_n", "codec": 6, "input": nn, "out": {"ok": str(nn).encode().hex()}})
        tok = r.choice([0, 7, 99999, 100000, 999999, r.randrange(10 ** 6)])
        add_case({"kind": "codec_n", "codec": 7, "input": tok, "out": {"ok": f"{tok:06d}".encode().hex()}})
    names = ["scram", "cryptosign", "cryptosign-proxy", "wampcra", "anonymous", "anonymous-proxy", "ticket", "tls", "", "WAMPCRA", "cookie"]
    kw = {"scram": dict(password="p", authid="u"), "cryptosign": dict(privkey="00" * 32), "cryptosign-proxy": dict(privkey="00" * 32),
          "wampcra": dict(secret="s", authid="u"), "anonymous": {}, "anonymous-proxy": {}, "ticket": dict(ticket="t")}
    order = ["scram", "cryptosign", "cryptosign-proxy", "wampcra", "anonymous", "anonymous-proxy", "ticket"]
    for nm in names:
        rr = call(auth.create_authenticator, nm, **kw.get(nm, {}))
        out = {"exc": rr[1]} if rr[0] == "exc" else {"ok": order.index(type(rr[1]).name) if type(rr[1]).name in order else 99}
        add_case({"kind": "create", "name": cps(nm), "out": out})
        if (nm in order) != (rr[0] == "ok") or (rr[0] == "ok" and type(rr[1]).name != nm):
            fail("create_authenticator/dispatch", f"{nm!r} -> {rr}", {"op": "create", "name": nm})
    t = auth.create_authenticator("ticket", ticket="sésame", authid="u")
    rr = call(t.on_challenge, None, wtypes.Challenge("ticket", {}))
    if rr != ("ok", "sésame") or t.on_welcome(None, {}) is not None:
        fail("AuthTicket/on_challenge", f"{rr}", {"op": "ticket"})
    rr = call(auth.create_authenticator("anonymous").on_challenge, None, wtypes.Challenge("anonymous", {}))
    if rr != ("exc", "RuntimeError"):
        fail("AuthAnonymous/on_challenge", f"{rr}", {"op": "anonymous"})
    evals[0] += 2
    # generate_wcs / qrcode_from_totp (the string handed to the QR encoder is the otpauth URI of the Key Uri Format)
    for ln in (0, 1, 14, 40):
        w = auth.generate_wcs(ln)
        evals[0] += 1
        if type(w) != bytes or len(w) != ln or not all(chr(c) in auth.WCS_SECRET_CHARSET for c in w):
            fail("generate_wcs/format", f"{w!r}", {"op": "generate_wcs", "length": ln})
    try:
        import qrcode
        seen = []
        real_make = qrcode.make
        qrcode.make = lambda data=None, **kw: (seen.append(data), real_make(data, **kw))[1]
        try:
            rr = call(auth.qrcode_from_totp, "MFRGGZDFMZTWQ2LK", "alice@example.com", "Example")
        finally:
            qrcode.make = real_make
        evals[0] += 1
        bump("qrcode " + rr[0])
        if rr[0] != "ok" or seen != ["otpauth://totp/alice@example.com?secret=MFRGGZDFMZTWQ2LK&issuer=Example"]:
            fail("qrcode_from_totp/uri", f"{rr[0]} {seen}", {"op": "qrcode"})
        if call(auth.qrcode_from_totp, b"MFRGGZDF", "l", "i")[0] != "exc" or call(auth.qrcode_from_totp, "MFRGGZDF", b"l", "i")[0] != "exc":
            fail("qrcode_from_totp/types", "bytes secret/label accepted", {"op": "qrcode"})
    except ImportError:
        bump("qrcode not installed")


# ------------------------------------------------------------------------------------------------------
# session level: the real ApplicationSession (protocol.py) with authenticators added, driven over a fake
# transport: HELLO -> CHALLENGE -> AUTHENTICATE -> WELCOME.  "Mutual authentication is enforced" means: a WELCOME
# with anything but the correct server signature ends in ABORT(wamp.error.cannot_authenticate) and no onJoin.
# ------------------------------------------------------------------------------------------------------
ROLES = {"broker": {"features": {}}, "dealer": {"features": {}}}


def _shim():
    from autobahn.wamp import protocol
    return protocol._SessionShim                      # the class that carries add_authenticator / onChallenge / onWelcome


def sends(s, code):
    return [e[1] for e in s.log if e[0] == "send" and e[1][0] == code]


def joined(s):
    return any(e[0] == "cb" and e[1] == "onJoin" for e in s.log)


def session_scram(r, kdf, mode):
    from autobahn.wamp.types import ComponentConfig
    password, authid = gen_text(r, maxlen=16) or "pw", "user" + str(r.randint(0, 99))
    try:
        password.encode("utf8")
    except UnicodeEncodeError:
        password = "pw"
    s = ENV.session(mixin=_shim(), config=ComponentConfig(realm="realm1"))
    s.s.add_authenticator(auth.create_authenticator("scram", authid=authid, password=password))
    s.open()
    hello = sends(s, 1)
    rep = {"op": "session_scram", "kdf": kdf, "mode": mode, "password": cps(password), "authid": authid}
    if len(hello) != 1 or hello[0][2].get("authmethods") != ["scram"] or hello[0][2].get("authid") != authid or "nonce" not in hello[0][2].get("authextra", {}):
        fail("session/scram/hello", f"unexpected HELLO {hello}", rep)
        return
    cn = hello[0][2]["authextra"]["nonce"]
    sn = cn + base64.b64encode(r.randbytes(12)).decode()
    salt = r.randbytes(16)
    it, mem = (r.choice([1, 2]), r.choice([8, 16])) if kdf == "argon2id-13" else (r.choice([1, 100]), None)
    extra = {"nonce": sn, "kdf": kdf, "salt": base64.b64encode(salt).decode(), "iterations": it}
    if mem is not None:
        extra["memory"] = mem
    s.recv([4, "scram", extra])
    au = sends(s, 5)
    if kdf == "pbkdf2" and not au:
        ab = sends(s, 3)
        bump("session scram pbkdf2 no-authenticate")
        fail("AuthScram.on_challenge/kdf=pbkdf2/str-salt/ValueError",
             f"session: CHALLENGE with kdf=pbkdf2 is answered with ABORT {ab[:1]} instead of AUTHENTICATE", dict(rep, extra=extra))
        return
    pw = password.encode("utf8")
    salted = argon_tag_text(argon2id_raw(pw, salt, it, mem)) if kdf == "argon2id-13" else rfc_pbkdf2("sha256", pw, salt, it, 32)
    srv = RfcScramServer.from_salted_password(salted)
    am = RfcScramServer.auth_message(f"n={authid},r={cn}", f"r={sn},s={extra['salt']},i={it}", f"c=,r={sn}")
    if len(au) != 1 or not isinstance(au[0][1], str) or not srv.verify_client_proof(am, base64.b64decode(au[0][1])):
        fail(f"session/scram/{kdf}/authenticate-rejected", f"AUTHENTICATE {au} not accepted by the RFC 5802 server", rep)
        return
    sig = srv.server_signature(am)
    if mode == "good":
        ax = {"scram_server_signature": base64.b64encode(sig).decode()}
    elif mode == "flip":
        ax = {"scram_server_signature": base64.b64encode(flip(sig, r.randrange(256))).decode()}
    elif mode == "missing":
        ax = {}
    elif mode == "garbage":
        ax = {"scram_server_signature": "QUJ"}
    else:
        ax = {"scram_server_signature": base64.b64encode(r.randbytes(32)).decode()}
    s.recv([2, 4711, {"roles": ROLES, "authid": authid, "authrole": "user", "authmethod": "scram", "authprovider": "static", "authextra": ax}])
    ab = sends(s, 3)
    evals[0] += 1
    bump(f"session scram {kdf} {mode} " + ("joined" if joined(s) else "aborted" if ab else "neither"))
    if mode == "good":
        if not joined(s) or ab:
            fail("session/scram/correct-welcome-not-joined", f"log {s.log[-4:]}", rep)
    else:
        if joined(s) or s.s._session_id is not None:
            fail("session/scram/forged-welcome-joined", f"WELCOME with {mode} server signature: session joined", rep)
        elif len(ab) != 1 or ab[0][2] != "wamp.error.cannot_authenticate":
            fail("session/scram/forged-welcome-no-abort", f"WELCOME with {mode} server signature: no ABORT(cannot_authenticate): {ab}", rep)


def session_scram_nochallenge(r, mode):
    """a rogue router answers HELLO directly with WELCOME(authmethod=scram): no signature can be genuine"""
    from autobahn.wamp.types import ComponentConfig
    s = ENV.session(mixin=_shim(), config=ComponentConfig(realm="realm1"))
    s.s.add_authenticator(auth.create_authenticator("scram", authid="user", password="p4ssw0rd"))
    s.open()
    if mode == "empty-default":
        ax = {"scram_server_signature": base64.b64encode(EMPTY_DEFAULT_SIG).decode()}
    elif mode == "random":
        ax = {"scram_server_signature": base64.b64encode(r.randbytes(32)).decode()}
    elif mode == "empty-string":
        ax = {"scram_server_signature": ""}
    else:
        ax = {}
    s.recv([2, 4711, {"roles": ROLES, "authid": "user", "authrole": "user", "authmethod": "scram", "authprovider": "static", "authextra": ax}])
    ab = sends(s, 3)
    evals[0] += 1
    bump(f"session scram no-challenge {mode} " + ("joined" if joined(s) else "aborted" if ab else "neither"))
    rep = {"op": "session_scram_nochallenge", "mode": mode, "authextra": ax}
    if joined(s) or s.s._session_id is not None:
        fail("AuthScram.on_welcome/accepted-without-completed-challenge",
             f"session: WELCOME(authmethod=scram, {mode} signature) without any CHALLENGE is accepted and the session joins", rep)
    elif len(ab) != 1 or ab[0][2] != "wamp.error.cannot_authenticate":
        fail("session/scram/no-challenge-welcome-no-abort", f"no ABORT(cannot_authenticate): {ab}", rep)


# the WELCOME grid: every combination of configured authenticators x CHALLENGE done or not x WELCOME.authmethod x
# WELCOME.authextra shape.  Independent oracle: the session may join only if
#   - authmethod names a configured authenticator, and
#   - for "scram": a CHALLENGE completed and authextra is a dict whose "scram_server_signature" is text decoding to exactly
#     HMAC(HMAC(SaltedPassword,"Server Key"), AuthMessage) of that exchange (the RFC 5802 server of this driver computes it),
#   - without authmethod: only if an anonymous authenticator is configured;
# and it must join in exactly those cases; a refused WELCOME must be answered with ABORT wamp.error.cannot_authenticate.
W_CONFIGS = [["scram"], ["scram", "ticket"], ["scram", "anonymous"]]
W_AUTHMETHODS = ["scram", None, "ticket", "anonymous", "wampcra", "SCRAM"]
W_AUTHEXTRA = ["correct", "correct-bytes", "absent", "null", "empty", "other-key", "flip", "random", "empty-default", "garbage",
               "sig-int", "sig-null", "sig-list", "sig-dict", "nondict"]


def session_welcome_case(r, configured, challenged, authmethod, axshape):
    from autobahn.wamp.types import ComponentConfig
    password, authid = (gen_text(r, maxlen=10) or "pw"), "user"
    try:
        pw = password.encode("utf8")
    except UnicodeEncodeError:
        password, pw = "pw", b"pw"
    s = ENV.session(mixin=_shim(), config=ComponentConfig(realm="realm1"))
    scram = auth.create_authenticator("scram", authid=authid, password=password)
    for name in configured:
        s.s.add_authenticator(scram if name == "scram" else auth.create_authenticator(name, authid=authid, **({"ticket": "t"} if name == "ticket" else {})))
    s.open()
    hello = sends(s, 1)
    rep = {"op": "session_welcome", "configured": configured, "challenged": challenged, "authmethod": authmethod, "authextra_shape": axshape, "password": cps(password)}
    if len(hello) != 1 or sorted(hello[0][2].get("authmethods", [])) != sorted(configured):
        fail("session/hello", f"unexpected HELLO {hello}", rep)
        return
    genuine = None
    if challenged:
        cn = hello[0][2]["authextra"]["nonce"]
        sn = cn + base64.b64encode(r.randbytes(9)).decode()
        salt = r.randbytes(16)
        extra = {"nonce": sn, "kdf": "argon2id-13", "salt": base64.b64encode(salt).decode(), "iterations": 1, "memory": 8}
        s.recv([4, "scram", extra])
        srv = RfcScramServer.from_salted_password(argon_tag_text(argon2id_raw(pw, salt, 1, 8)))
        am = RfcScramServer.auth_message(f"n={authid},r={cn}", f"r={sn},s={extra['salt']},i=1", f"c=,r={sn}")
        au = sends(s, 5)
        if len(au) != 1 or not srv.verify_client_proof(am, base64.b64decode(au[0][1])):
            fail("session/scram/argon2id-13/authenticate-rejected", f"AUTHENTICATE {au} not accepted by the RFC 5802 server", rep)
            return
        genuine = srv.server_signature(am)
    g = genuine if genuine is not None else r.randbytes(32)
    details = {"roles": ROLES, "authid": authid, "authrole": "user", "authprovider": "static"}
    if authmethod is not None:
        details["authmethod"] = authmethod
    ax = {"correct": {"scram_server_signature": base64.b64encode(g).decode()},
          "correct-bytes": {"scram_server_signature": base64.b64encode(g)},
          "null": None, "empty": {}, "other-key": {"signature": base64.b64encode(g).decode()},
          "flip": {"scram_server_signature": base64.b64encode(flip(g, r.randrange(256))).decode()},
          "random": {"scram_server_signature": base64.b64encode(r.randbytes(32)).decode()},
          "empty-default": {"scram_server_signature": base64.b64encode(EMPTY_DEFAULT_SIG).decode()},
          "garbage": {"scram_server_signature": "QUJ"},
          "sig-int": {"scram_server_signature": 5}, "sig-null": {"scram_server_signature": None},
          "sig-list": {"scram_server_signature": [base64.b64encode(g).decode()]},
          "sig-dict": {"scram_server_signature": {"v": base64.b64encode(g).decode()}},
          "nondict": [base64.b64encode(g).decode()]}.get(axshape, "ABSENT")
    if axshape != "absent":
        details["authextra"] = ax
    REC.reset()
    REC.on = True
    try:
        try:
            s.recv([2, 4711, details])
            parsed = True
        except Exception as e:                      # Welcome.parse refuses the message: nothing reaches the session
            parsed = False
    finally:
        REC.on = False
    tb = REC.dump()
    j = joined(s) or s.s._session_id is not None
    ab = sends(s, 3)
    evals[0] += 1
    # ---- independent oracle ----
    sig_exact = (genuine is not None and axshape in ("correct", "correct-bytes"))
    if authmethod is None:
        may = any(n in ("anonymous", "anonymous-proxy") for n in configured)
        cls = "welcome-authmethod-absent"
    elif authmethod == "scram":
        may = sig_exact and parsed
        cls = "welcome-authextra-" + ("exact" if sig_exact else axshape)
    elif authmethod in configured:
        may = parsed
        cls = "welcome-authmethod-other-configured"
    else:
        may = False
        cls = "welcome-authmethod-unconfigured"
    if not parsed:
        may = False
    bump(f"session welcome cfg={'+'.join(configured)} chal={int(challenged)} am={authmethod} ax={axshape} " + ("joined" if j else "aborted" if ab else "silent"))
    bump("session welcome " + ("joined" if j else "refused"))
    if j and not may:
        fail(f"session/scram/{cls}/joined-without-server-signature",
             f"session with authenticators {configured} joined on WELCOME(authmethod={authmethod!r}, authextra {axshape}) "
             f"{'after a completed SCRAM CHALLENGE/AUTHENTICATE' if challenged else 'WITHOUT any CHALLENGE'}: no server signature was verified", rep)
    elif may and not j:
        fail(f"session/scram/{cls}/not-joined", f"legitimate WELCOME refused: abort={ab[:1]}", rep)
    elif parsed and not j and (len(ab) != 1 or ab[0][2] != "wamp.error.cannot_authenticate"):
        fail("session/scram/refused-welcome-no-abort", f"WELCOME refused without ABORT(cannot_authenticate): {ab}", rep)
    if parsed:
        am_, sp_ = getattr(scram, "_auth_message", None), getattr(scram, "_salted_password", None)
        if ax is None or axshape == "absent":
            axm = None
        elif "scram_server_signature" not in ax:
            axm = {"dict": None}
        else:
            v = ax["scram_server_signature"]
            axm = {"dict": pv(v) if isinstance(v, (str, bytes)) else "other"}
        add_case({"kind": "session_welcome", "configured": [cps(n) for n in configured], "state": [None if am_ is None else am_.hex(), None if sp_ is None else sp_.hex()],
                  "authmethod": None if authmethod is None else cps(authmethod), "ax": axm, "joined": bool(j), "tables": tb})


def gen_session_welcome(reps):
    r = random.Random(f"{inp['seed']}/welcome-grid/{FW}")
    grid = [(c, ch, m, a) for c in W_CONFIGS for ch in (True, False) for m in W_AUTHMETHODS for a in W_AUTHEXTRA]
    for _ in range(reps):
        r.shuffle(grid)
        for c, ch, m, a in grid:
            session_welcome_case(r, c, ch, m, a)


def session_cra(r):
    from autobahn.wamp.types import ComponentConfig
    secret, authid = gen_text(r, maxlen=20) or "s", "user"
    try:
        su = secret.encode("utf8")
    except UnicodeEncodeError:
        secret, su = "sécret", "sécret".encode("utf8")
    s = ENV.session(mixin=_shim(), config=ComponentConfig(realm="realm1"))
    s.s.add_authenticator(auth.create_authenticator("wampcra", authid=authid, secret=secret))
    s.open()
    ch = json.dumps({"nonce": r.getrandbits(64), "authid": authid}, ensure_ascii=False)
    extra = {"challenge": ch}
    salted = r.random() < 0.6
    if salted:
        extra.update(salt=gen_text(r, maxlen=12), iterations=r.choice([1, 2, 100]), keylen=r.choice([16, 32]))
        try:
            sau = extra["salt"].encode("utf8")
        except UnicodeEncodeError:
            extra["salt"], sau = "salt", b"salt"
    s.recv([4, "wampcra", extra])
    au = sends(s, 5)
    want = cra_reference(su, sau if salted else None, extra.get("iterations"), extra.get("keylen"), ch.encode("utf8"))
    evals[0] += 1
    bump("session cra " + ("salted" if salted else "unsalted"))
    if len(au) != 1 or au[0][1] != want:
        fail("session/wampcra/authenticate-mismatch", f"AUTHENTICATE {au} != {want}", {"op": "session_cra", "secret": cps(secret), "extra": extra})


def session_cs(r):
    from autobahn.wamp.types import ComponentConfig
    seed = r.randbytes(32)
    bound = r.random() < 0.5
    cid = r.randbytes(32)
    ax = {"channel_binding": "tls-unique"} if bound else {}
    s = ENV.session(mixin=_shim(), config=ComponentConfig(realm="realm1"))
    s.t.transport_details.channel_id = {"tls-unique": cid} if bound or r.random() < 0.5 else {}
    s.s.add_authenticator(auth.create_authenticator("cryptosign", authid="user", privkey=seed.hex(), authextra=ax))
    s.open()
    hello = sends(s, 1)
    pk = Ed25519PrivateKey.from_private_bytes(seed).public_key().public_bytes_raw()
    ch = r.randbytes(32)
    s.recv([4, "cryptosign", {"challenge": ch.hex(), "channel_binding": "tls-unique" if bound else None}])
    au = sends(s, 5)
    evals[0] += 1
    bump("session cryptosign " + ("bound" if bound else "unbound"))
    rep = {"op": "session_cs", "seed": seed.hex(), "challenge": ch.hex(), "cid": cid.hex(), "bound": bound}
    if len(hello) != 1 or hello[0][2].get("authextra", {}).get("pubkey") != pk.hex():
        fail("session/cryptosign/hello-pubkey", f"HELLO {hello}", rep)
    elif len(au) != 1 or not router_verify_cryptosign(pk, ch, cid if bound else None, au[0][1]):
        fail("session/cryptosign/authenticate-rejected", f"AUTHENTICATE {au} rejected by the router-side check", rep)


def gen_session(n):
    r = random.Random(f"{inp['seed']}/session")
    kdfs = ["argon2id-13", "argon2id-13", "pbkdf2"]
    modes = ["good", "flip", "flip", "missing", "garbage", "random"]
    for i in range(n):
        session_scram(r, kdfs[i % 3], modes[(i // 3) % len(modes)])
        session_scram_nochallenge(r, ["empty-default", "random", "missing", "empty-string"][i % 4])
        session_cra(r)
        session_cs(r)


# ------------------------------------------------------------------------------------------------------
# replay of one stored case
# ------------------------------------------------------------------------------------------------------
def unpv(d):
    return "".join(map(chr, d["s"])) if "s" in d else bytes.fromhex(d["b"])


def replay(rep):
    op = rep["op"]
    if op == "scram_challenge":
        ex = {k: (bytes.fromhex(v["b"]) if isinstance(v, dict) else v) for k, v in rep["extra"].items()}
        a = auth.AuthScram(password=rep["password"], authid=rep["authid"])
        a._client_nonce = rep["client_nonce"]
        try:
            out = a.on_challenge(None, wtypes.Challenge("scram", ex))
            res = {"result": repr(out)}
            if "welcome_sig" in rep:
                res["on_welcome"] = repr(a.on_welcome(_Sess(), {"scram_server_signature": unpv(rep["welcome_sig"])}))
            return res
        except Exception as e:
            return {"raised": f"{type(e).__name__}: {e}"}
    if op == "scram_history":
        a = auth.AuthScram(password=rep["password"], authid=rep["authid"])
        res = []
        for o in rep["ops"]:
            if o["op"] == "authextra":
                a._client_nonce = "".join(map(chr, o["nonce"]))
                res.append("authextra")
            elif o["op"] == "challenge":
                x = o["extra"]
                ex = {"nonce": "".join(map(chr, x["nonce"])), "kdf": "".join(map(chr, x["kdf"])), "salt": unpv(x["salt"]), "iterations": x["iterations"]}
                if x["memory"] is not None: ex["memory"] = x["memory"]
                if x["cbind"]: ex["channel_binding"] = "".join(map(chr, x["cbind"]))
                res.append("on_challenge -> " + repr(call(a.on_challenge, None, wtypes.Challenge("scram", ex))))
            else:
                ax = {} if o["sig"] is None else {"scram_server_signature": unpv(o["sig"])}
                res.append(f"on_welcome({ax}) -> " + repr(call(a.on_welcome, _Sess(), ax)))
        return {"result": res}
    if op == "session_welcome":
        before = len(failures)
        session_welcome_case(random.Random("replay"), rep["configured"], rep["challenged"], rep["authmethod"], rep["authextra_shape"])
        return {"result": "conversation replayed: " + ("; ".join(f["key"] + " :: " + f["what"] for f in failures[before:]) or "as the oracle demands")}
    if op == "session_scram_nochallenge":
        from autobahn.wamp.types import ComponentConfig
        s = ENV.session(mixin=_shim(), config=ComponentConfig(realm="realm1"))
        s.s.add_authenticator(auth.create_authenticator("scram", authid="user", password="p4ssw0rd"))
        s.open()
        s.recv([2, 4711, {"roles": ROLES, "authid": "user", "authrole": "user", "authmethod": "scram", "authprovider": "static", "authextra": rep["authextra"]}])
        return {"result": {"joined": joined(s), "abort": sends(s, 3)}}
    if op == "cra":
        return {"result": repr(call(lambda: auth.create_authenticator("wampcra", authid="user", secret="".join(map(chr, rep["secret"]))).on_challenge(
            None, wtypes.Challenge("wampcra", dict({"challenge": "".join(map(chr, rep["challenge"]))},
                                                   **({} if rep["salt"] is None else {"salt": unpv(rep["salt"]), "iterations": rep["iterations"], "keylen": rep["keylen"]}))))))}
    if op == "totp":
        NOW[0] = rep["now"]
        return {"result": repr(call(auth.compute_totp, rep["secret"], rep["offset"]))}
    if op == "check_totp":
        NOW[0] = rep["now"]
        return {"result": repr(call(auth.check_totp, rep["secret"], rep["ticket"]))}
    if op == "cs_sign":
        k = cryptosign.CryptosignKey.from_bytes(bytes.fromhex(rep["seed"]))
        return {"result": repr(call(k.sign_challenge, wtypes.Challenge("cryptosign", {"challenge": rep["challenge"]}),
                                    channel_id=None if rep["cid"] is None else bytes.fromhex(rep["cid"]), channel_id_type=rep["cid_type"]))}
    if op == "xor":
        return {"result": repr(call(autil.xor, bytes.fromhex(rep["a"]), bytes.fromhex(rep["b"])))}
    return {"result": "no replay routine for op " + op}


# ------------------------------------------------------------------------------------------------------
out = {}
if "replay" in inp:
    out["replay"] = replay(inp["replay"])
else:
    parts = inp.get("parts", ["vectors", "cra", "totp", "scram", "history", "cs", "misc", "session", "welcome"])
    if "vectors" in parts:
        for vf in inp.get("vector_files", []):
            run_vectors(json.load(open(vf)))
    if "cra" in parts: gen_cra(inp.get("n_cra", 50))
    if "totp" in parts: gen_totp(inp.get("n_totp", 50))
    if "scram" in parts: gen_scram(inp.get("n_scram", 20), inp.get("exhaustive_every", 0))
    if "history" in parts: gen_history(inp.get("n_history", 20))
    if "cs" in parts: gen_cs(inp.get("n_cs", 30), inp.get("exhaustive_every", 0))
    if "misc" in parts: gen_misc(inp.get("n_misc", 30))
    if "session" in parts: gen_session(inp.get("n_session", 12))
    if "welcome" in parts: gen_session_welcome(inp.get("welcome_reps", 1))
    out = {"evaluations": evals[0], "cases": cases, "failures": failures, "hist": hist, "has_argon": auth.HAS_ARGON,
           "has_cryptosign": cryptosign.HAS_CRYPTOSIGN, "files": [auth.__file__, cryptosign.__file__, autil.__file__]}
json.dump(out, open(sys.argv[2], "w"))
