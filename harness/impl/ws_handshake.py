"""C07 implementation driver: the REAL opening-handshake code of autobahn (server and client protocol
objects on fake transports, via wsdrv) on one framework per process.

    ws_handshake.py <in.json> <out.json>

in : {"fw": "tx"|"aio", "server": [case...], "client": [case...], "e2e": [case...], "wild": [[pattern, origin_header]...],
      "prims": {...}}
out: per case the canonical observable outcome, the effective configuration read back from the protocol object
     and the ORACLE TABLES: for exactly the arguments the implementation passed to urllib.parse / hyperlink, the
     results of those libraries computed here independently (pass-through recording facades are installed on the
     names `parse` and `hyperlink` of autobahn.websocket.protocol in THIS process only; nothing in the tree under
     test is changed).
"""
import base64, hashlib, json, os, sys, re, traceback

inp = json.load(open(sys.argv[1]))
FW = inp["fw"]
REPO = os.environ.get("AV_REPO", "/repo")

import wsdrv
env = wsdrv.Env(FW)
P = env.P
assert os.path.realpath(P.__file__).startswith(os.path.realpath(REPO) + os.sep), (P.__file__, REPO)
import urllib.parse as real_parse
import hyperlink as real_hyperlink
from autobahn.websocket.types import ConnectionDeny
from autobahn.websocket import compress as C

GUID = b"258EAFA5-E914-47DA-95CA-C5AB0DC85B11"

# ---------------------------------------------------------------- recording facades (pass-through)
REC = {"uri": [], "qs": [], "split": [], "hl": []}


class _ParseFacade:
    def urlsplit(self, url, *a, **k):
        REC["split"].append(url); return real_parse.urlsplit(url, *a, **k)
    def urlparse(self, url, *a, **k):
        REC["uri"].append(url); return real_parse.urlparse(url, *a, **k)
    def parse_qs(self, q, *a, **k):
        REC["qs"].append(q); return real_parse.parse_qs(q, *a, **k)
    def __getattr__(self, n):
        return getattr(real_parse, n)


class _URLFacade:
    @staticmethod
    def from_text(t):
        REC["hl"].append(t); return real_hyperlink.URL.from_text(t)


class _HyperlinkFacade:
    URL = _URLFacade
    def __getattr__(self, n):
        return getattr(real_hyperlink, n)


P.parse = _ParseFacade()
P.hyperlink = _HyperlinkFacade()


def cps(s):
    return [ord(c) for c in s]


def o_uri(u):
    try:
        r = real_parse.urlparse(u)
        return {"ok": [cps(r.path), cps(r.query), cps(r.fragment)]}
    except Exception as e:
        return {"raises": type(e).__name__}


def o_qs(q):
    try:
        r = real_parse.parse_qs(q)
        return {"ok": [[cps(k), [cps(v) for v in vs]] for k, vs in r.items()]}
    except Exception as e:
        return {"raises": type(e).__name__}


def o_split(u):
    try:
        r = real_parse.urlsplit(u)
    except ValueError:
        return {"raises": "ValueError"}
    try:
        port = r.port
        port = {"none": True} if port is None else {"some": port}
    except ValueError:
        port = {"raises": True}
    h = r.hostname
    return {"ok": [cps(r.scheme), None if h is None else cps(h), port]}


def o_hl(t):
    try:
        return {"ok": cps(real_hyperlink.URL.from_text(t).to_uri().normalize().to_text())}
    except Exception as e:
        return {"raises": type(e).__name__}


def tables_from_rec():
    def uniq(xs):
        out = []
        for x in xs:
            if x not in out: out.append(x)
        return out
    return {"uri": [[cps(u), o_uri(u)] for u in uniq(REC["uri"])],
            "qs": [[cps(q), o_qs(q)] for q in uniq(REC["qs"])],
            "split": [[cps(u), o_split(u)] for u in uniq(REC["split"])],
            "hl": [[cps(t), o_hl(t)] for t in uniq(REC["hl"])]}


def reset_rec():
    for k in REC: REC[k] = []


# ---------------------------------------------------------------- extension oracles (PMCE classes, C12's subject)
def params_json(params):
    return [[cps(k), [None if v is True else cps(v) for v in vs]] for k, vs in params.items()]


def ext_table(header_value, role, accept_fn):
    """For the extension header the peer sent: what the PMCE classes say about each registered extension."""
    out = []
    try:
        exts = P.WebSocketProtocol._parseExtensionsHeader(None, header_value)
    except Exception:
        return out
    for name, params in exts:
        if name in C.PERMESSAGE_COMPRESSION_EXTENSION:
            PM = C.PERMESSAGE_COMPRESSION_EXTENSION[name]
            if role == "server":
                try:
                    PM["Offer"].parse(params); ok = True
                except Exception:
                    ok = False
                out.append([cps(name), params_json(params), ok])
            else:
                try:
                    resp = PM["Response"].parse(params)
                except Exception:
                    out.append([cps(name), params_json(params), "parse_error"]); continue
                acc = accept_fn(resp) if accept_fn else None
                out.append([cps(name), params_json(params), "accepted" if acc is not None else "denied"])
    return out


def header_value(block, name):
    """header value as the REAL parseHttpHeader sees it (only used to build the PMCE oracle table)"""
    try:
        _, hs, _ = P.parseHttpHeader(block)
        return hs.get(name)
    except Exception:
        return None


def make_offer_accept(kind, record):
    """server perMessageCompressionAccept policies"""
    if kind in (None, "none"):
        return None
    if kind == "default":             # what resetProtocolOptions installs: accept nothing
        def deny(offers):
            record.append(None)
            return None
        deny._av_kind = "default"
        return deny
    def accept(offers):
        for o in offers:
            nm = type(o).__name__
            if kind in ("any", "deflate") and nm == "PerMessageDeflateOffer":
                a = C.PerMessageDeflateOfferAccept(o); record.append(a.get_extension_string()); return a
            if kind in ("any", "bzip2") and nm == "PerMessageBzip2Offer":
                a = C.PerMessageBzip2OfferAccept(o); record.append(a.get_extension_string()); return a
        record.append(None)
        return None
    accept._av_kind = kind
    return accept


def make_response_accept(kind):
    if kind in (None, "none"):
        return None
    if kind == "default":
        def deny(resp):
            return None
        deny._av_kind = "default"
        return deny
    def accept(resp):
        nm = type(resp).__name__
        if kind in ("any", "deflate") and nm == "PerMessageDeflateResponse":
            return C.PerMessageDeflateResponseAccept(resp)
        if kind in ("any", "bzip2") and nm == "PerMessageBzip2Response":
            return C.PerMessageBzip2ResponseAccept(resp)
        return None
    accept._av_kind = kind
    return accept


def make_offers(kinds):
    out = []
    for k in kinds or []:
        if k == "deflate": out.append(C.PerMessageDeflateOffer())
        elif k == "deflate-nct": out.append(C.PerMessageDeflateOffer(accept_no_context_takeover=True, accept_max_window_bits=True,
                                                                     request_no_context_takeover=True, request_max_window_bits=10))
        elif k == "bzip2": out.append(C.PerMessageBzip2Offer())
        else: raise ValueError(k)
    return out


# ---------------------------------------------------------------- policies (user callbacks)
def policy_mixin(pol):
    kind = (pol or {}).get("kind", "none")
    if kind == "none":
        return None
    class Mixin:
        def onConnect(self, request):
            if kind == "firstof":
                for p in request.protocols:
                    if p in pol["mine"]:
                        return p
                return None
            if kind == "fixed": return pol["p"]
            if kind == "tuple": return (pol.get("p"), {k: (v if len(v) != 1 else v[0]) for k, v in pol["headers"]})
            if kind == "deny": raise ConnectionDeny(pol["code"], "denied by policy")
            if kind == "error": raise RuntimeError("policy error")
            raise ValueError(kind)
    return Mixin


# ---------------------------------------------------------------- canonical outcomes
def writes(log):
    return [bytes.fromhex(e[1]) for e in log if e[0] == "write"]


def parse_http_error(w):
    head, _, _ = w.partition(b"\r\n\r\n")
    lines = head.split(b"\r\n")
    toks = lines[0].split(b" ", 2)
    code = int(toks[1])
    hdrs = []
    for l in lines[1:]:
        k, _, v = l.partition(b": ")
        hdrs.append([cps(k.decode("utf8")), cps(v.decode("utf8"))])
    return code, hdrs


_META = re.compile(r"""<meta http-equiv="refresh" content="(-?\d+);URL='(.*?)'">""", re.S)


def server_outcome(conn, sent_after_make):
    log = conn.log
    esc = [e for e in log if e[0] == "escaped"]
    if esc:
        return {"kind": "escaped", "cls": esc[0][1]}
    ws = writes(log)
    dropped = any(e[0] in ("lose", "abort") for e in log)
    st = conn.state()
    opened = any(e[0] == "open" for e in log)
    if st == "OPEN" and opened and ws and not dropped:
        data = getattr(conn.proto, "data", b"")
        return {"kind": "open", "response": ws[0].hex(), "extra_writes": len(ws) - 1,
                "proto": None if conn.proto.websocket_protocol_in_use is None else cps(conn.proto.websocket_protocol_in_use),
                "rest": bytes(data).hex()}
    if st == "CONNECTING" and not ws and not dropped:
        return {"kind": "stuck" if any(e[0] == "connect" for e in log) else "needmore"}
    if st == "CLOSED" and dropped and ws and any(e[0] == "lose" for e in log):
        w = b"".join(ws)
        if w.startswith(b"HTTP/1.1 200 OK\r\n") and len(ws) == 2:
            m = _META.search(ws[1].decode("utf8"))
            return {"kind": "status", "redirect": None if not m else [cps(m.group(2)), int(m.group(1))]}
        if w.startswith(b"HTTP/1.1 303\r\n"):
            head = w.partition(b"\r\n\r\n")[0].decode("utf8")
            loc = [l for l in head.split("\r\n") if l.startswith("Location: ")]
            return {"kind": "redirect", "url": cps(loc[0][len("Location: "):]) if loc else None}
        if w.startswith(b"HTTP/1.1 "):
            try:
                code, hdrs = parse_http_error(w)
                return {"kind": "http", "code": code, "headers": hdrs}
            except Exception:
                pass
        if w == conn.proto.flashSocketPolicy.encode("utf8"):
            return {"kind": "flash"}
    return {"kind": "weird", "state": st, "log": [e if e[0] != "write" else ["write", e[1][:200]] for e in log][:12]}


def client_outcome(conn, n_log0):
    log = conn.log[n_log0:]
    esc = [e for e in log if e[0] == "escaped"]
    if esc:
        return {"kind": "escaped", "cls": esc[0][1]}
    st = conn.state()
    if st == "OPEN" and any(e[0] == "open" for e in log) and not any(e[0] in ("lose", "abort") for e in log):
        p = conn.proto.websocket_protocol_in_use
        exts = [cps(x.EXTENSION_NAME) for x in conn.proto.websocket_extensions_in_use]
        return {"kind": "open", "proto": None if p is None else cps(p), "exts": exts,
                "rest": bytes(getattr(conn.proto, "data", b"")).hex()}
    if st == "CONNECTING" and not log:
        return {"kind": "needmore"}
    if st == "CLOSED" and [e[0] for e in log if e[0] in ("lose", "abort", "write")] == ["abort"]:
        return {"kind": "failed"}
    return {"kind": "weird", "state": st, "log": [e if e[0] != "write" else ["write", e[1][:200]] for e in log][:12]}


# ---------------------------------------------------------------- running cases
def server_cfg_readback(conn):
    p, f = conn.proto, conn.factory
    return {"versions": list(p.versions), "webStatus": bool(p.webStatus), "externalPort": f.externalPort,
            "allowedOrigins": [cps(x) for x in p.allowedOrigins], "patterns": [x.pattern for x in p.allowedOriginsPatterns],
            "allowNullOrigin": bool(f.allowNullOrigin), "allowNullOrigin_protocol": bool(getattr(p, "allowNullOrigin", None)),
            "trustXForwardedFor": p.trustXForwardedFor, "requireMaskedClientFrames": bool(p.requireMaskedClientFrames),
            "perMessageCompressionAccept": getattr(p.perMessageCompressionAccept, "_av_kind", "default"), "maxConnections": p.maxConnections,
            "countConnections": f.countConnections, "serveFlash": bool(p.serveFlashSocketPolicy),
            "server": cps(f.server or ""), "headers": [[cps(k), [cps(x) for x in ([v] if isinstance(v, str) else list(v))]] for k, v in f.headers.items()]}


def run_server(case, chunks=None):
    reset_rec()
    opts = dict(case.get("opts") or {})
    acc_rec = []
    acc = make_offer_accept(case.get("accept"), acc_rec)
    if acc is not None:
        opts["perMessageCompressionAccept"] = acc
    fk = dict(case.get("factory") or {})
    url = fk.pop("url", "ws://localhost:9000")
    if "calls" in case:
        # configuration plumbing: the factory is configured by a SEQUENCE of setProtocolOptions() calls, exactly as written
        conn = env.connect("server", options=None, factory_kwargs=fk, protocol_mixin=policy_mixin(case.get("policy")), url=url)
        for kw in case["calls"]:
            kw = dict(kw)
            if "perMessageCompressionAccept" in kw:
                kw["perMessageCompressionAccept"] = make_offer_accept(kw["perMessageCompressionAccept"], acc_rec)
            conn.factory.setProtocolOptions(**kw)
    else:
        conn = env.connect("server", options=opts, factory_kwargs=fk, protocol_mixin=policy_mixin(case.get("policy")), url=url)
    conn.factory.countConnections = int(case.get("others", 0))
    conn.make()
    cfg = server_cfg_readback(conn)
    n0 = len(conn.log)
    chunks = [bytes.fromhex(c) for c in case["chunks"]] if chunks is None else chunks
    fed = 0
    for c in chunks:
        conn.feed(c); fed += 1
        if any(e[0] == "escaped" for e in conn.log):
            break
    env.turn()
    out = server_outcome(conn, n0)
    data = b"".join(chunks)
    i = data.find(b"\r\n\r\n")
    exth = header_value(data[:i + 4], "sec-websocket-extensions") if i >= 0 else None
    tabs = tables_from_rec()
    tabs["offer"] = ext_table(exth, "server", None) if exth is not None else []
    tabs["accept"] = None if not acc_rec or acc_rec[0] is None else cps(acc_rec[0])
    res = {"cfg": cfg, "outcome": out, "tables": tabs, "fed": fed}
    # what the silence ends in: the opening-handshake timeout drops the connection
    if case.get("timeout") and out["kind"] == "needmore":
        env.advance(float(conn.proto.openHandshakeTimeout) + 1.5)
        res["after_timeout"] = {"state": conn.state(), "events": [e[0] for e in conn.log[n0:] if e[0] != "write"],
                                "escaped": [e[1] for e in conn.log if e[0] == "escaped"]}
    res["_conn"] = conn
    return res


_NONCE = [None]
_real_urandom = os.urandom


def _urandom(n):
    if _NONCE[0] is not None and n == 16:
        return _NONCE[0]
    return _real_urandom(n)


os.urandom = _urandom


def o_url(url):
    """urllib's view of the factory URL, computed here independently of autobahn.websocket.util.parse_url"""
    try:
        r = real_parse.urlparse(url)
    except ValueError:
        return {"raises": "ValueError"}
    try:
        port = r.port
        port = {"none": True} if port is None else {"some": port}
    except ValueError:
        port = {"raises": True}
    h = r.hostname
    return {"ok": [cps(r.scheme), None if h is None else cps(h), port, cps(r.path), cps(r.query), cps(r.fragment), cps(r.netloc)],
            "unquoted": cps(real_parse.unquote(r.path or "/"))}


def client_cfg_readback(conn):
    p, f = conn.proto, conn.factory
    return {"url": f.url, "url_oracle": o_url(f.url or "ws://localhost"), "path": cps(f.path),
            "host": cps(f.host), "port": f.port, "resource": cps(f.resource), "useragent": cps(f.useragent or ""),
            "origin": cps(f.origin or ""), "protocols": [cps(x) for x in f.protocols],
            "headers": [[cps(k), cps(v)] for k, v in f.headers.items()], "version": p.version,
            "acceptMaskedServerFrames": bool(p.acceptMaskedServerFrames), "maskClientFrames": bool(p.maskClientFrames),
            "perMessageCompressionAccept": getattr(p.perMessageCompressionAccept, "_av_kind", "default"),
            "offer_kinds": [type(o).__name__ for o in p.perMessageCompressionOffers],
            "offers": [cps(o.get_extension_string()) for o in p.perMessageCompressionOffers], "isSecure": bool(f.isSecure)}


def start_client(case):
    reset_rec()
    opts = dict(case.get("opts") or {})
    offers = make_offers(opts.pop("offers", None))
    if offers:
        opts["perMessageCompressionOffers"] = offers
    racc = make_response_accept(case.get("accept"))
    if racc is not None:
        opts["perMessageCompressionAccept"] = racc
    fk = dict(case.get("factory") or {})
    url = fk.pop("url", "ws://localhost:9000")
    if "calls" in case:
        conn = env.connect("client", options=None, factory_kwargs=fk, url=url)
        for kw in case["calls"]:
            kw = dict(kw)
            if "perMessageCompressionOffers" in kw:
                kw["perMessageCompressionOffers"] = make_offers(kw["perMessageCompressionOffers"])
            if "perMessageCompressionAccept" in kw:
                racc = make_response_accept(kw["perMessageCompressionAccept"])
                kw["perMessageCompressionAccept"] = racc
            conn.factory.setProtocolOptions(**kw)
        racc = getattr(conn.factory, "perMessageCompressionAccept", None)
        racc = racc if getattr(racc, "_av_kind", None) else None
    else:
        conn = env.connect("client", options=opts, factory_kwargs=fk, url=url)
    _NONCE[0] = bytes.fromhex(case["nonce"])
    try:
        conn.make()
        env.turn()
    finally:
        _NONCE[0] = None
    req = b"".join(writes(conn.log))
    return conn, req, racc


def finish_client(case, conn, req, racc, chunks):
    n0 = len(conn.log)
    for c in chunks:
        conn.feed(c)
        if any(e[0] == "escaped" for e in conn.log):
            break
    env.turn()
    out = client_outcome(conn, n0)
    data = b"".join(chunks)
    i = data.find(b"\r\n\r\n")
    utf8 = None
    exth = None
    if i >= 0:
        try:
            data[:i + 4].decode("utf8"); utf8 = True
        except UnicodeDecodeError:
            utf8 = False
        exth = header_value(data[:i + 4], "sec-websocket-extensions")
    tabs = tables_from_rec()
    tabs["response"] = ext_table(exth, "client", racc) if exth is not None else []
    res = {"cfg": client_cfg_readback(conn), "request": req.hex(), "utf8": utf8, "outcome": out, "tables": tabs,
           "key": conn.proto.websocket_key.decode() if getattr(conn.proto, "websocket_key", None) else None}
    if case.get("timeout") and out["kind"] == "needmore":
        env.advance(float(conn.proto.openHandshakeTimeout) + 1.5)
        res["after_timeout"] = {"state": conn.state(), "events": [e[0] for e in conn.log[n0:] if e[0] != "write"],
                                "escaped": [e[1] for e in conn.log if e[0] == "escaped"]}
    return res


def run_client(case):
    conn, req, racc = start_client(case)
    chunks = []
    for c in case["chunks"]:
        if isinstance(c, dict):      # {"accept_digest": true} placeholder is resolved by the generator, not here
            raise ValueError("unresolved placeholder")
        chunks.append(bytes.fromhex(c))
    return finish_client(case, conn, req, racc, chunks)


def run_e2e(case):
    """real client request -> real server -> reply -> real client"""
    cconn, req, racc = start_client(case["client"])
    cut = case.get("cuts") or []
    def seg(b, cuts):
        cs = sorted(set(min(max(0, int(x * len(b))), len(b)) for x in cuts))
        return [b[a:z] for a, z in zip([0] + cs, cs + [len(b)])]
    req_chunks = seg(req, cut)
    s = run_server(case["server"], chunks=req_chunks)
    sconn = s.pop("_conn")
    reply = b"".join(writes(sconn.log))
    resp_chunks = seg(reply, cut) if reply else []
    c = finish_client(case["client"], cconn, req, racc, resp_chunks)
    return {"server": s, "client": c, "req_chunks": [x.hex() for x in req_chunks], "resp_chunks": [x.hex() for x in resp_chunks],
            "server_exts": [x.EXTENSION_NAME for x in getattr(sconn.proto, "websocket_extensions_in_use", [])]}


def run_multi(case):
    """several connections on ONE server factory: ops ["open"] (new connection + a valid request) / ["lose", k] (connection k's
    transport is gone). A connection that the server drops is reported lost to it right away, as a real transport would."""
    opts = {"maxConnections": case["max"], "allowNullOrigin": True}
    first = env.connect("server", options=opts, factory_kwargs={}, url="ws://localhost:9000")
    factory = first.factory
    conns, trace = [], []
    req = (b"GET / HTTP/1.1\r\nHost: localhost:9000\r\nUpgrade: websocket\r\nConnection: Upgrade\r\n"
           b"Sec-WebSocket-Key: dGhlIHNhbXBsZSBub25jZQ==\r\nSec-WebSocket-Version: 13\r\n\r\n")
    for op in case["ops"]:
        if op[0] == "open":
            c = object.__new__(wsdrv.Conn)
            c.env, c.role, c.factory, c.made = env, "server", factory, False
            c.log = []
            c.proto = factory.buildProtocol(wsdrv._Addr()) if FW == "tx" else factory()
            c.transport = (wsdrv.TxTransport if FW == "tx" else wsdrv.AioTransport)(c.log)
            c.gone = False
            conns.append(c)
            c.make()
            c.feed(req)
            env.turn()
            if any(e[0] in ("lose", "abort") for e in c.log):
                c.lost(True); c.gone = True
        elif op[0] == "lose":
            c = conns[op[1]]
            if not c.gone:
                c.lost(True); c.gone = True
        def code(c):
            w = [bytes.fromhex(e[1]) for e in c.log if e[0] == "write"]
            return int(w[0].split(b" ")[1]) if w and w[0].startswith(b"HTTP/1.1 ") else None
        trace.append({"count": factory.countConnections, "states": [c.state() for c in conns], "codes": [code(c) for c in conns],
                      "escaped": [e[1] for c in conns for e in c.log if e[0] == "escaped"]})
    return {"trace": trace}


def guarded(fn, case):
    try:
        r = fn(case)
        r.pop("_conn", None)
        return r
    except Exception as e:
        return {"driver_error": f"{type(e).__name__}: {e}", "tb": traceback.format_exc()[-1500:]}


# ---------------------------------------------------------------- primitives of the interpreter / libraries (for the model's tables)
def prims(spec):
    out = []
    for kind, hx in spec:
        if kind == "origin":          # _url_to_origin on one Origin value + what urlsplit reports for it (computed separately)
            s = bytes.fromhex(hx).decode("latin-1")
            try:
                r = P._url_to_origin(s)
                r = "null" if r == "null" else [cps(r[0]), cps(r[1]), r[2]]
            except ValueError:
                r = None
            out.append([kind, hx, {"us": o_split(s), "res": r}]); continue
        if kind == "sameorigin":      # _is_same_origin on a triple and an allow-list (hx = JSON in hex)
            q = json.loads(bytes.fromhex(hx).decode())
            from autobahn.util import wildcards2patterns
            trip = "null" if q["origin"] == "null" else (q["origin"][0], q["origin"][1], q["origin"][2])
            out.append([kind, hx, bool(P._is_same_origin(trip, "http", 80, wildcards2patterns(q["allowed"])))]); continue
        b = bytes.fromhex(hx)
        s = b.decode("latin-1")
        if kind == "splitlines": out.append([kind, hx, [cps(x) for x in s.splitlines()]])
        elif kind == "strip": out.append([kind, hx, cps(s.strip())])
        elif kind == "lower": out.append([kind, hx, cps(s.lower())])
        elif kind == "splitws": out.append([kind, hx, [cps(x) for x in s.split()]])
        elif kind == "int":
            try: v = int(s)
            except ValueError: v = None
            out.append([kind, hx, v])
        elif kind == "b64": out.append([kind, hx, cps(base64.b64encode(b).decode())])
        elif kind == "sha1": out.append([kind, hx, list(hashlib.sha1(b).digest())])
        elif kind == "utf8":
            try: b.decode("utf8"); v = True
            except UnicodeDecodeError: v = False
            out.append([kind, hx, v])
        elif kind == "ext":
            out.append([kind, hx, [[cps(n), params_json(p)] for n, p in P.WebSocketProtocol._parseExtensionsHeader(None, s)]])
        elif kind == "header":
            try:
                sl, hs, cnt = P.parseHttpHeader(b)
                out.append([kind, hx, [cps(sl), [[cps(k), cps(v), cnt[k]] for k, v in hs.items()]]])
            except IndexError:
                out.append([kind, hx, None])
        else:
            raise ValueError(kind)
    return out


def wilds(pairs):
    from autobahn.util import wildcards2patterns
    out = []
    for pat, s in pairs:
        try:
            rx = wildcards2patterns([pat])[0]
            out.append([pat, s, bool(rx.match(s))])
        except re.error:
            out.append([pat, s, None])
    return out


result = {
    "fw": FW, "protocol_file": P.__file__,
    "server": [guarded(run_server, c) for c in inp.get("server", [])],
    "client": [guarded(run_client, c) for c in inp.get("client", [])],
    "e2e": [guarded(run_e2e, c) for c in inp.get("e2e", [])],
    "multi": [guarded(run_multi, c) for c in inp.get("multi", [])],
    "prims": prims(inp.get("prims", [])),
    "wild": wilds(inp.get("wild", [])),
}
json.dump(result, open(sys.argv[2], "w"))
