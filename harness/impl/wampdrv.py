"""Shared helper for drivers that exercise the REAL WAMP ApplicationSession deterministically.

    import wampdrv
    env = wampdrv.Env("tx" | "aio")                   # txaio framework + virtual clock / loop (one per process)
    s = env.session(mixin=None, transport_mode="ok")   # real ApplicationSession subclass + fake ITransport
    s.open()                                           # session.onOpen(transport)  -> HELLO is sent
    s.recv([2, 1234, {"roles": {"broker": {}, "dealer": {}}}])   # WELCOME as wire-level list -> parsed by the real
                                                       # message class, handed to session.onMessage (+ loop turn)
    s.join()                                           # open + WELCOME shortcut
    f = s.api("call", "com.x", 1, 2, k=3)              # calls session.call(...); result future tracked as label
    s.log                                              # ordered observable events:
        ["send", <marshalled list>] ["cb", "onJoin"|..., info] ["done", label, "ok"|"err", canon(value)]
        ["raised", where, ExcClass, text] ["tclose"] ["tabort"]
    s.lose(clean=False)                                # transport lost -> session.onClose(wasClean)
    env.turn() / env.advance(dt)

Values in the log are canonicalised by canon(): bytes -> {"$b": hex}, exceptions -> {"$exc": class, "uri":…, "args":…,
"kwargs":…}, CallResult/Publication/Subscription/Registration -> small dicts; dict keys sorted.
Nothing here changes the code under test.
"""
import sys, os, io, contextlib

sys.modules.setdefault("bjdata", None)   # UBJSON backend is broken in this sandbox (numpy ABI): treat as not installed, quietly

import txaio
import wsdrv  # VLoop

_FW = None


def canon(v):
    from autobahn.wamp import types, exception, request
    if isinstance(v, bytes): return {"$b": v.hex()}
    if isinstance(v, (list, tuple)): return [canon(x) for x in v]
    if isinstance(v, dict): return {str(k): canon(v[k]) for k in sorted(v, key=str)}
    if isinstance(v, (str, int, float, bool)) or v is None: return v
    if isinstance(v, types.CallResult):
        return {"$callresult": canon(list(v.results)), "kw": canon(v.kwresults)}
    if isinstance(v, request.Publication): return {"$publication": v.id}
    if isinstance(v, request.Subscription): return {"$subscription": v.id, "active": v.active}
    if isinstance(v, request.Registration): return {"$registration": v.id, "active": v.active}
    if isinstance(v, exception.Error):
        return {"$exc": type(v).__name__, "uri": getattr(v, "error", None), "args": canon(list(getattr(v, "args", ()))),
                "kwargs": canon(getattr(v, "kwargs", {}) or {})}
    if isinstance(v, BaseException): return {"$exc": type(v).__name__, "text": str(v)[:120]}
    if hasattr(v, "value") and isinstance(getattr(v, "value"), BaseException): return canon(v.value)   # Failure
    return {"$obj": type(v).__name__}


class Env:
    def __init__(self, framework):
        global _FW
        assert framework in ("tx", "aio") and _FW in (None, framework)
        _FW = framework
        self.fw = framework
        if framework == "tx":
            txaio.use_twisted()
            from twisted.internet.task import Clock
            self.clock = Clock()
            txaio.config.loop = self.clock
            from autobahn.twisted.wamp import ApplicationSession
        else:
            txaio.use_asyncio()
            import asyncio
            self.loop = wsdrv.VLoop()
            asyncio.set_event_loop(self.loop)
            txaio.config.loop = self.loop
            from autobahn.asyncio.wamp import ApplicationSession
        self.ApplicationSession = ApplicationSession

    def turn(self):
        if self.fw == "tx": self.clock.advance(0)
        else: self.loop.run_ready()

    def advance(self, dt):
        if self.fw == "tx": self.clock.advance(dt)
        else: self.loop.advance(dt)

    def loop_exceptions(self):
        return [] if self.fw == "tx" else self.loop.exceptions

    def session(self, mixin=None, config=None, transport_mode="ok", auto_turn=True):
        return Sess(self, mixin, config, transport_mode, auto_turn)


class FakeTransport:
    """ITransport: send/isOpen/close/abort/is_closed/transport_details.  mode decides what send() does:
       "ok" | callable(msg) -> None or raises (to imitate SerializationError / PayloadExceededError / other)."""
    def __init__(self, sess, mode):
        self.sess, self.mode, self._open = sess, mode, True
        from autobahn.wamp.types import TransportDetails
        self.transport_details = TransportDetails()
        self.is_closed = txaio.create_future()
        from autobahn.wamp.serializer import JsonSerializer
        self._serializer = JsonSerializer()

    def send(self, msg):
        if callable(self.mode):
            self.mode(msg)
        if not self._open:
            from autobahn.wamp.exception import TransportLost
            raise TransportLost()
        self.sess.log.append(["send", canon(msg.marshal())])

    def isOpen(self): return self._open
    def close(self):
        self.sess.log.append(["tclose"]); self._open = False
    def abort(self):
        self.sess.log.append(["tabort"]); self._open = False
    def get_channel_id(self, t="tls-unique"): return None


class Sess:
    def __init__(self, env, mixin, config, mode, auto_turn):
        self.env, self.log, self.auto_turn = env, [], auto_turn
        self.futures = {}
        log = self.log
        base = env.ApplicationSession
        outer = self

        class S(*((mixin,) if mixin else ()), base):
            def onConnect(self_):
                log.append(["cb", "onConnect"])
                return super().onConnect()
            def onJoin(self_, details):
                log.append(["cb", "onJoin", details.session])
                return super().onJoin(details)
            def onLeave(self_, details):
                log.append(["cb", "onLeave", details.reason])
                return super().onLeave(details)
            def onDisconnect(self_):
                log.append(["cb", "onDisconnect"])
                return super().onDisconnect()
            def onUserError(self_, fail, msg):
                log.append(["usererror", canon(fail), msg[:60]])
        self.s = S(config) if config is not None else S()
        self.t = FakeTransport(self, mode)
        self._n = 0

    def _guard(self, where, fn, *a, **kw):
        n0 = len(self.env.loop_exceptions())
        try:
            r = fn(*a, **kw)
        except BaseException as e:
            self.log.append(["raised", where, type(e).__name__, str(e)[:160]])
            r = None
        if self.auto_turn:
            self.env.turn()
        for ctx in self.env.loop_exceptions()[n0:]:
            e = ctx.get("exception")
            self.log.append(["raised", where + "/loop", type(e).__name__, str(e)[:160]])
        return r

    def open(self):
        self._guard("onOpen", self.s.onOpen, self.t)

    def recv(self, wmsg):
        """wmsg: wire-level list; parsed with the real message classes (as the serializer would)."""
        from autobahn.wamp import message
        cls = message.MESSAGE_TYPE_MAP if hasattr(message, "MESSAGE_TYPE_MAP") else None
        msg = parse(wmsg)
        self._guard("onMessage", self.s.onMessage, msg)

    def recv_msg(self, msg):
        self._guard("onMessage", self.s.onMessage, msg)

    def join(self, session_id=1234, roles=None):
        self.open()
        self.recv([2, session_id, {"roles": roles or {"broker": {"features": {}}, "dealer": {"features": {
            "progressive_call_results": True, "call_canceling": True}}}}])

    def lose(self, clean=False):
        self.t._open = False
        self._guard("onClose", self.s.onClose, clean)

    def track(self, fut, label=None):
        label = label or f"f{self._n}"; self._n += 1
        if fut is None or not txaio.is_future(fut):
            self.log.append(["done", label, "sync", canon(fut)])
            return label
        self.futures[label] = fut
        txaio.add_callbacks(fut, lambda r: self.log.append(["done", label, "ok", canon(r)]),
                            lambda f: self.log.append(["done", label, "err", canon(f)]))
        return label

    def api(self, name, *a, label=None, **kw):
        r = self._guard("api." + name, getattr(self.s, name), *a, **kw)
        return self.track(r, label) if r is not None else None


def parse(wmsg):
    from autobahn.wamp import message
    from autobahn.wamp.serializer import Serializer
    return Serializer.MESSAGE_TYPE_MAP[wmsg[0]].parse(wmsg)
