"""C13 implementation driver: the REAL WAMP transports of the tree under test ($AV_REPO, see BUILDERS.md) -
RawSocket (autobahn.{twisted,asyncio}.rawsocket) and WAMP-over-WebSocket (autobahn.{twisted,asyncio}.websocket
Wamp* classes on the real WebSocket engine) - on fake lower transports, a virtual clock/loop (wsdrv) and recording
stub sessions.  One txaio framework per process.

batch :  wamp_transports.py in.json out.json      in = {"fw": "tx"|"aio", "jobs": [job, ...]}
serve :  wamp_transports.py --serve tx|aio        one JSON job per line on stdin, one JSON answer per line (fd 3 or stdout)

Jobs (all answers are JSON; octets are hex):
  {"op":"hs_sweep", "role", "sers":[names], "max", "reserved":[[o3,o4],..], "segs":[0..3], "o1":[..]|null, "o2":[..]|null}
        -> {"outcomes":[...distinct...], "runs":{"<o3>,<o4>,<seg>":[[start_idx,count,outcome_no],...]}, "n":cases}
  {"op":"frame_sweep", "maxlen", "streams":[{"chunks":[hex,..]}, ...]}   (real receiver class, stringReceived observed)
        -> {"results":[{"events":[...], "dead":bool, "buf":hex}, ...]}
  {"op":"new", "ep", "kind":"rs"|"ws", "role", "sers":[names], "max":int|null, "sess":{"open_raises":bool,"react":{idx:kind}}}
  {"op":"feed", "ep", "chunks":[hex,...], "env_stop":bool, "burst":bool}     {"op":"lost","ep","clean":bool}
  {"op":"send", "ep", "msgs":[{"id":n,"pad":k} | {"id":n,"len":L} | {"id":n,"bad":true}]}
  {"op":"api", "ep", "name":"close"|"abort"}                    {"op":"frames","ser":name,"msgs":[...],"batch":bool}
  {"op":"drop", "ep"}
Each endpoint job answers {"log":[new log entries]}; entries:
  ["write",hex] ["lose"] ["abort"] ["sess_open"] ["sess_msg",id,len|null] ["sess_close",bool]
  ["escaped",Class] ["raised",Class] ["sent",id,serialized_len] ["state",{...}]
Nothing here changes the code under test.
"""
import sys, os, json, hashlib, logging

sys.modules.setdefault("bjdata", None)     # UBJSON backend broken in this sandbox: treat as not installed, quietly
logging.disable(logging.CRITICAL)

import txaio
import wsdrv

ENV = None
FW = None
R = W = None


def setup(fw):
    global ENV, FW, R, W
    if ENV is not None:
        assert fw == FW
        return
    FW = fw
    ENV = wsdrv.Env(fw)
    if fw == "tx":
        import autobahn.twisted.rawsocket as R_
        import autobahn.twisted.websocket as W_
    else:
        import autobahn.asyncio.rawsocket as R_
        import autobahn.asyncio.websocket as W_
    R, W = R_, W_
    repo = os.path.realpath(os.environ.get("AV_REPO", "/repo"))
    assert os.path.realpath(R.__file__).startswith(repo + os.sep), (R.__file__, repo)
    # pin the handshake key of WebSocket clients (os.urandom is used for nothing else on these paths)
    import autobahn.websocket.protocol as P

    class _OS:
        def __getattr__(self, n): return getattr(os, n)
        def urandom(self, n): return hashlib.sha256(b"c13-%d" % n).digest()[:n] if n <= 32 else os.urandom(n)
    P.os = _OS()


def serializer(name):
    from autobahn.wamp import serializer as S
    batched = name.endswith(".batched")
    base = name[:-8] if batched else name
    cls = {"json": S.JsonSerializer, "msgpack": S.MsgPackSerializer, "cbor": S.CBORSerializer,
           "flatbuffers": getattr(S, "FlatBuffersSerializer", None)}[base]
    return cls(batched=True) if batched else cls()


class Transport:
    """fake lower transport for both frameworks"""
    def __init__(self, log):
        self.log = log; self.closed = False; self.disconnecting = False
    def write(self, data): self.log.append(["write", bytes(data).hex()])
    def writeSequence(self, seq):
        for d in seq: self.write(d)
    def loseConnection(self): self.log.append(["lose"]); self.closed = True; self.disconnecting = True
    def abortConnection(self): self.log.append(["abort"]); self.closed = True; self.disconnecting = True
    def close(self): self.loseConnection()
    def abort(self): self.abortConnection()
    def is_closing(self): return self.closed
    def get_extra_info(self, name, default=None):
        if name == "peername": return ("127.0.0.1", 12345)
        if name == "sockname": return ("127.0.0.1", 9000)
        return default
    def getPeer(self): return wsdrv._Addr()
    def getHost(self): return wsdrv._Addr()
    def setTcpNoDelay(self, v): pass
    def registerProducer(self, p, s): pass
    def unregisterProducer(self): pass
    def pause_reading(self): pass
    def resume_reading(self): pass
    def pauseProducing(self): pass
    def resumeProducing(self): pass


class StubSession:
    """records the ISession callbacks; raises where the plan says so"""
    def __init__(self, log, plan):
        self.log, self.plan, self.n = log, plan or {}, 0
        self._authid = None; self._session_id = None; self._transport = None     # read by the WS trace-log arguments
    def onOpen(self, transport):
        self.log.append(["sess_open"])
        if self.plan.get("open_raises"):
            raise RuntimeError("onOpen failed")
    def onMessage(self, msg):
        i = self.n; self.n += 1
        ident = getattr(msg, "publication", None)
        args = getattr(msg, "args", None)
        if args and isinstance(args[0], str) and len(args[0]) > 64:
            digest = [len(args[0]), hashlib.blake2b(args[0].encode(), digest_size=8).hexdigest()]
        else:
            digest = args
        self.log.append(["sess_msg", ident, digest, type(msg).__name__])
        kind = (self.plan.get("react") or {}).get(str(i))
        if kind == "proto":
            from autobahn.wamp.exception import ProtocolError
            raise ProtocolError("planned protocol error")
        if kind == "cancel":
            if FW == "tx":
                from twisted.internet.defer import CancelledError
                raise CancelledError()
            raise RuntimeError("planned (no CancelledError on asyncio)")
        if kind == "other":
            raise RuntimeError("planned failure in session code")
    def onClose(self, wasClean):
        self.log.append(["sess_close", bool(wasClean)])
        if self.plan.get("close_raises"):
            raise RuntimeError("onClose failed")


def exc_name(e):
    return type(e).__name__


class Endpoint:
    def __init__(self, job):
        self.kind, self.role = job["kind"], job["role"]
        self.log = []
        self.mark = 0
        self.gone = False
        plan = job.get("sess")
        log = self.log
        sers = [serializer(n) for n in job["sers"]]
        self.sers = sers
        fac = lambda: StubSession(log, plan)
        self.t = Transport(log)
        if self.kind == "rs":
            if self.role == "server":
                f = R.WampRawSocketServerFactory(fac, serializers=sers)
            else:
                f = R.WampRawSocketClientFactory(fac, serializer=sers[0])
            mx = job.get("max")
            if FW == "tx":
                if mx is not None:
                    f.setProtocolOptions(maxMessagePayloadSize=mx)
                self.p = f.buildProtocol(None)
            else:
                self.p = f()
                if mx is not None:
                    self.p.max_length = mx           # asyncio has no option for it: instance override of the class attribute
        else:
            kw = {"serializers": sers}
            if FW == "tx": kw["reactor"] = ENV.clock
            else: kw["loop"] = ENV.loop
            if self.role == "server":
                f = W.WampWebSocketServerFactory(fac, "ws://localhost:9000", **kw)
            else:
                f = W.WampWebSocketClientFactory(fac, "ws://localhost:9000", **kw)
            opts = job.get("options")
            if opts:
                f.setProtocolOptions(**opts)
            self.p = f.buildProtocol(wsdrv._Addr()) if FW == "tx" else f()
        self.f = f
        self._entry(self.p.makeConnection if FW == "tx" else self.p.connection_made, self.t)
        ENV.turn(); self._loop_exc()

    def _entry(self, fn, *a):
        self._n0 = len(ENV.loop.exceptions) if FW == "aio" else 0
        try:
            fn(*a)
        except BaseException as e:
            self.log.append(["escaped", exc_name(e)])

    def _loop_exc(self):
        if FW == "aio":
            for ctx in ENV.loop.exceptions[self._n0:]:
                self.log.append(["escaped", exc_name(ctx.get("exception"))])
            self._n0 = len(ENV.loop.exceptions)

    def stopped(self, mode=True):
        """has the lower transport stopped delivering?  True: after any close/abort/escape (what a real transport does);
        "framing": only after a framing-level failure or a refused handshake (escape / close()), not after abort() called
        by the WAMP layer - the model's protocol function keeps processing the octets it already has"""
        kinds = ("lose", "abort", "escaped") if mode is True else ("lose", "escaped")
        return any(e[0] in kinds for e in self.log)

    def feed(self, chunks, env_stop=True, burst=False):
        """burst=True: all reads are delivered back to back BEFORE the event loop gets a turn (asyncio: several
        data_received calls queued behind one waiter wake-up - several TLS records / a pipelined peer; Twisted: the same as
        one by one, dataReceived is synchronous).  burst=False: one read per loop iteration."""
        dropped = 0
        for c in chunks:
            if env_stop and self.stopped(env_stop):
                dropped += 1
                continue
            self._entry(self.p.dataReceived if FW == "tx" else self.p.data_received, c)
            if self.kind == "ws" and not burst:
                ENV.turn()
            self._loop_exc()
        if self.kind == "ws" and burst:
            ENV.turn()
            self._loop_exc()
        if dropped:
            self.log.append(["undelivered", dropped])

    def lost(self, clean):
        self.gone = True
        if FW == "tx":
            from twisted.python.failure import Failure
            from twisted.internet.error import ConnectionDone, ConnectionLost
            self._entry(self.p.connectionLost, Failure(ConnectionDone() if clean else ConnectionLost()))
        else:
            self._entry(self.p.connection_lost, None if clean else ConnectionResetError("reset"))
        ENV.turn(); self._loop_exc()

    def ser(self):
        return getattr(self.p, "_serializer", None)

    def send(self, specs):
        for sp in specs:
            try:
                msg, n = build_msg(self.ser() or self.sers[0], sp)
            except Exception as e:          # cannot even build: report, do not call send
                self.log.append(["unbuildable", sp.get("id"), exc_name(e)])
                continue
            try:
                self.p.send(msg)
                self.log.append(["sent", sp.get("id"), n])
            except BaseException as e:
                self.log.append(["raised", exc_name(e), sp.get("id"), n])
            if self.kind == "ws":
                ENV.turn()
            self._loop_exc() if FW == "aio" and hasattr(self, "_n0") else None

    def ws_raw(self, payload, binary):
        """engine-level send (WebSocket only): lets the harness emit a WAMP payload with the WRONG frame type"""
        try:
            self.p.sendMessage(payload, binary)
        except BaseException as e:
            self.log.append(["raised", exc_name(e), "sendMessage"])
        ENV.turn()

    def api(self, name):
        try:
            getattr(self.p, name)()
        except BaseException as e:
            self.log.append(["raised", exc_name(e), name])
        ENV.turn()

    def state(self):
        p = self.p
        st = {"attached": bool(getattr(p, "_session", None) is not None)}
        s = getattr(p, "_serializer", None)
        if s is not None:
            st["ser"] = s.SERIALIZER_ID; st["rs_id"] = s.RAWSOCKET_SERIALIZER_ID; st["binary"] = bool(s._serializer.BINARY)
        if self.kind == "rs":
            st["max_send"] = getattr(p, "_max_len_send", None) if FW == "tx" else (
                p.max_length_send if getattr(p, "_handshake_done", False) else None)
            st["max_recv"] = p.MAX_LENGTH if FW == "tx" else p.max_length
        else:
            st["ws_state"] = {0: "CLOSED", 1: "CONNECTING", 2: "CLOSING", 3: "OPEN", 4: "PROXY_CONNECTING"}.get(p.state, str(p.state))
            st["subprotocol"] = getattr(p, "websocket_protocol_in_use", None)
        return st

    def delta(self):
        d = self.log[self.mark:]
        self.mark = len(self.log)
        return d


class Unserializable:
    pass


def build_msg(ser, sp):
    """Event(subscription=1, publication=id, args=[pad string]); 'len': pad chosen so that the serialized length is exact"""
    from autobahn.wamp import message
    if sp.get("bad"):
        return message.Event(1, sp["id"], args=[Unserializable()]), None
    probe = type(ser)(batched=ser.SERIALIZER_ID.endswith(".batched")) if ser.SERIALIZER_ID != "flatbuffers" else ser

    def slen(args):
        return len(probe.serialize(message.Event(1, sp["id"], args=args))[0])
    if "len" in sp:
        L = sp["len"]
        base = slen([""])
        k = max(0, L - base)
        args = None
        for kk in range(max(0, k - 12), k + 2):
            if slen(["a" * kk]) == L:
                args = ["a" * kk]; break
        if args is None:                       # length skipped by a header-size step: split over two strings
            for j in range(0, 40):
                for kk in range(max(0, k - 16 - j), k + 2):
                    if kk >= 0 and slen(["a" * kk, "b" * j]) == L:
                        args = ["a" * kk, "b" * j]; break
                if args: break
        if args is None:
            raise ValueError(f"cannot hit serialized length {L}")
    else:
        args = ["a" * sp.get("pad", 0)]
    m = message.Event(1, sp["id"], args=args)
    return m, slen(args)


EPS = {}


def frames_job(job):
    """serialized payloads for given messages with the REAL serializer (used to build peer streams / corruptions)"""
    ser = serializer(job["ser"])
    out = []
    for sp in job["msgs"]:
        m, n = build_msg(ser, sp)
        data, is_binary = ser.serialize(m)
        out.append({"payload": data.hex(), "binary": bool(is_binary), "id": sp["id"]})
    return {"frames": out}


def hs_sweep(job):
    role, maxv = job["role"], job.get("max")
    sers = [serializer(n) for n in job["sers"]]
    log = []
    fac = lambda: StubSession(log, None)
    if role == "server":
        f = R.WampRawSocketServerFactory(fac, serializers=sers)
    else:
        f = R.WampRawSocketClientFactory(fac, serializer=sers[0])
    if FW == "tx" and maxv is not None:
        f.setProtocolOptions(maxMessagePayloadSize=maxv)
    o1s = job.get("o1") or list(range(256))
    o2s = job.get("o2") or list(range(256))
    outcomes, index, runs, n = [], {}, {}, 0
    tr = Transport(log)
    for (o3, o4) in job["reserved"]:
        for seg in job["segs"]:
            rl = []
            for o1 in o1s:
                for o2 in o2s:
                    del log[:]
                    tr.closed = False
                    p = f.buildProtocol(None) if FW == "tx" else f()
                    (p.makeConnection if FW == "tx" else p.connection_made)(tr)
                    made = len(log)
                    hs = bytes((o1, o2, o3, o4))
                    chunks = ([hs], [hs[:1], hs[1:]], [hs[:2], hs[2:]], [hs[:1], hs[1:2], hs[2:3], hs[3:]])[seg]
                    esc = None
                    for c in chunks:
                        if tr.closed or esc:
                            break
                        try:
                            (p.dataReceived if FW == "tx" else p.data_received)(c)
                        except BaseException as e:
                            esc = exc_name(e)
                    ev = log[made:]
                    writes = "".join(e[1] for e in ev if e[0] == "write")
                    opened = sum(1 for e in ev if e[0] == "sess_open")
                    aborts = sum(1 for e in ev if e[0] == "abort")
                    loses = sum(1 for e in ev if e[0] == "lose")
                    s = getattr(p, "_serializer", None) if opened else None
                    ms = (p._max_len_send if FW == "tx" else p.max_length_send) if opened else None
                    req = "".join(e[1] for e in log[:made] if e[0] == "write")
                    oc = (opened, aborts, loses, esc, writes, s.RAWSOCKET_SERIALIZER_ID if s is not None else None, ms, req,
                          bool(getattr(p, "_session", None) is not None))
                    k = index.get(oc)
                    if k is None:
                        k = index[oc] = len(outcomes)
                        outcomes.append(list(oc))
                    idx = o1 * 256 + o2
                    if rl and rl[-1][2] == k and rl[-1][0] + rl[-1][1] == idx:
                        rl[-1][1] += 1
                    else:
                        rl.append([idx, 1, k])
                    n += 1
            runs[f"{o3},{o4},{seg}"] = rl
    return {"outcomes": outcomes, "runs": runs, "n": n}


def frame_sweep(job):
    """the framing receivers in isolation: real class, only stringReceived replaced by a recorder"""
    maxlen = job["maxlen"]
    events = []
    if FW == "tx":
        base = R.WampRawSocketServerProtocol

        class Rx(base):
            def stringReceived(self, payload): events.append(["frame", bytes(payload).hex()])
        f = R.WampRawSocketServerFactory(lambda: None)
    else:
        base = R.WampRawSocketServerProtocol

        class Rx(base):
            def stringReceived(self, payload): events.append(["frame", bytes(payload).hex()])
        f = R.WampRawSocketServerFactory(lambda: None)
    out = []
    for st in job["streams"]:
        del events[:]
        tr = Transport(events)
        p = Rx(); p.factory = f
        if FW == "tx":
            p.makeConnection(tr)
            p.MAX_LENGTH = maxlen
            p._handshake_complete = True         # enter the frame phase directly (the handshake is swept separately)
        else:
            p.connection_made(tr)
            p.max_length = maxlen
            p._handshake_done = True
        dead = False
        for c in st["chunks"]:
            if dead:
                break
            try:
                (p.dataReceived if FW == "tx" else p.data_received)(bytes.fromhex(c))
            except BaseException as e:
                events.append(["escaped", exc_name(e)])
            dead = tr.closed or any(e[0] == "escaped" for e in events)
        buf = (p._unprocessed if FW == "tx" else p._buffer)
        hdr = None if FW == "tx" else p._header
        out.append({"events": [list(e) for e in events], "dead": dead, "buf": bytes(buf).hex(),
                    "hdr": list(hdr) if hdr else None})
    return {"results": out}


def ceil_log_check(job):
    """the float expression of the Twisted handshake against exact integer ceil(log2)"""
    import math
    bad = []
    for n in job["values"]:
        if int(math.ceil(math.log(n, 2))) != (n - 1).bit_length():
            bad.append(n)
    if job.get("full"):
        for n in range(512, 2 ** 24 + 1):
            if int(math.ceil(math.log(n, 2))) != (n - 1).bit_length():
                bad.append(n)
                if len(bad) > 10: break
    return {"bad": bad}


def run_job(job):
    op = job["op"]
    if op == "hs_sweep": return hs_sweep(job)
    if op == "frame_sweep": return frame_sweep(job)
    if op == "frames": return frames_job(job)
    if op == "ceil_log": return ceil_log_check(job)
    if op == "new":
        EPS[job["ep"]] = Endpoint(job)
        ep = EPS[job["ep"]]
        return {"log": ep.delta(), "state": ep.state()}
    if op == "drop":
        ep = EPS.pop(job["ep"], None)
        if ep is not None and ep.kind == "ws" and not ep.gone:
            ep.lost(True)                 # lets the engine cancel its timers (the virtual clock would otherwise fill up)
        return {}
    if op == "script":          # a whole scenario on fresh endpoints, in one round trip
        res = []
        for j in job["jobs"]:
            res.append(run_job(j))
        for j in job["jobs"]:
            if j["op"] == "new": EPS.pop(j["ep"], None)
        return {"results": res}
    ep = EPS[job["ep"]]
    if op == "feed": ep.feed([bytes.fromhex(c) for c in job["chunks"]], job.get("env_stop", True), job.get("burst", False))
    elif op == "lost": ep.lost(job.get("clean", False))
    elif op == "send": ep.send(job["msgs"])
    elif op == "api": ep.api(job["name"])
    elif op == "ws_raw": ep.ws_raw(bytes.fromhex(job["payload"]), job["binary"])
    elif op == "advance":
        ENV.advance(job["dt"]); ep._loop_exc() if FW == "aio" else None
    elif op == "state": pass
    else:
        raise ValueError(op)
    return {"log": ep.delta(), "state": ep.state()}


def main():
    if len(sys.argv) >= 3 and sys.argv[1] == "--serve":
        setup(sys.argv[2])
        out = os.fdopen(os.dup(1), "w")
        os.dup2(2, 1)                       # anything the code under test prints goes to stderr
        for line in sys.stdin:
            line = line.strip()
            if not line:
                continue
            try:
                ans = run_job(json.loads(line))
            except BaseException as e:
                import traceback
                ans = {"driver_error": f"{type(e).__name__}: {e}", "tb": traceback.format_exc()[-1500:]}
            out.write(json.dumps(ans) + "\n"); out.flush()
        return
    inp = json.load(open(sys.argv[1]))
    setup(inp["fw"])
    results = [run_job(j) for j in inp["jobs"]]
    json.dump({"results": results}, open(sys.argv[2], "w"))


if __name__ == "__main__":
    main()
