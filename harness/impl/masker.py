"""C15 implementation driver: runs the REAL masker implementations over a sweep and compares each
result with the naive byte-wise XOR oracle; returns counts, mismatches and a sample of executed
cases (with the implementation's outputs) for the Coq-side model comparison.

mode "py"  : AUTOBAHN_USE_NVX=0 -> xormasker.XorMaskerSimple / XorMaskerShifted1 / create_xor_masker
mode "nvx" : freshly compiled _nvx_xormasker: lib called directly with a chosen buffer alignment
             (impl 1 scalar, impl 2 SSE2) and the XorMaskerNvx wrapper / factory.
"""
import json, os, random, sys

inp = json.load(open(sys.argv[1]))
mode = inp["mode"]
if mode == "nvx":
    import nvxbuild
    nvxbuild.ensure()
import autobahn.websocket as aw
from autobahn.websocket import xormasker as xm

assert aw.USES_NVX == (mode == "nvx"), (aw.USES_NVX, mode)


def naive(key, off, data):
    return bytes(b ^ key[(off + i) & 3] for i, b in enumerate(data))


if mode == "nvx":
    from _nvx_xormasker import ffi, lib
    from autobahn.nvx import _xormasker as nx
    assert xm.create_xor_masker is nx.create_xor_masker
    assert os.path.dirname(sys.modules["_nvx_xormasker"].__file__).startswith(os.path.join(os.path.dirname(os.path.dirname(os.path.dirname(os.path.abspath(__file__)))), "build", "nvx"))

    class Direct:
        """lib called directly; every chunk is placed at address === align (mod 16)."""
        def __init__(self, key, impl, align):
            self.kb = ffi.new("uint8_t[4]", key)
            self.m = ffi.gc(lib.nvx_xormask_new(self.kb), lib.nvx_xormask_free)
            got = lib.nvx_xormask_set_impl(self.m, impl)
            assert got == impl, (got, impl)
            self.align = align

        def process(self, data):
            n = len(data)
            raw = ffi.new("uint8_t[]", n + 32)
            base = int(ffi.cast("uintptr_t", raw))
            k = (self.align - base) % 16
            buf = raw + k
            assert int(ffi.cast("uintptr_t", buf)) % 16 == self.align
            ffi.memmove(buf, data, n)
            # canaries around the payload
            lib.nvx_xormask_process(self.m, buf, n)
            return bytes(ffi.buffer(buf, n))

        def pointer(self):
            return lib.nvx_xormask_pointer(self.m)


def make(impl, key, align, hint):
    if mode == "py":
        if impl == "py_simple": return xm.XorMaskerSimple(key)
        if impl == "py_shifted": return xm.XorMaskerShifted1(key)
        if impl == "py_factory": return xm.create_xor_masker(key, hint)
    else:
        if impl == "nvx_simple": return Direct(key, 1, align)
        if impl == "nvx_sse2": return Direct(key, 2, align)
        if impl == "nvx_wrap_simple": return nx.XorMaskerSimple(key)
        if impl == "nvx_wrap_simd": return nx.XorMaskerShifted1(key)
        if impl == "nvx_factory": return xm.create_xor_masker(key, hint)
    raise ValueError(impl)


def run_case(impl, key, off, align, chunks):
    total = sum(len(c) for c in chunks)
    m = make(impl, key, align, total)
    if off:
        m.process(b"\x00" * off)
    out = b"".join(m.process(c) for c in chunks)
    return out, m.pointer()


impls = inp["impls"]
rng = random.Random(inp["seed"])
keys = [bytes.fromhex(k) for k in inp["keys"]]
evals = 0
mism = []
samples = []
hist = {}
want_samples = inp.get("samples", 0)
cases_total_est = max(1, inp.get("est", 1))
p_sample = min(1.0, 3.0 * want_samples / cases_total_est)


_pfd = os.open(os.environ["AV_PROGRESS"], os.O_WRONLY | os.O_CREAT | os.O_TRUNC) if os.environ.get("AV_PROGRESS") else None


def announce(impl, key, off, align, chunks):
    """record the case about to run, so that a crash of the native code still yields a replay"""
    if _pfd is not None and sum(len(c) for c in chunks) <= 4096:
        b = json.dumps({"impl": impl, "key": key.hex(), "off": off, "align": align,
                        "chunks": [c.hex() for c in chunks]}).encode()
        os.pwrite(_pfd, b + b" " * max(0, 9000 - len(b)), 0)


def do(impl, key, off, align, chunks):
    global evals
    data = b"".join(chunks)
    if impl.startswith("nvx"):
        announce(impl, key, off, align, chunks)
    out, ptr = run_case(impl, key, off, align, chunks)
    evals += 1
    hist[impl] = hist.get(impl, 0) + 1
    ok = (out == naive(key, off, data)) and ptr == off + len(data)
    # involution through a second masker of the same kind
    if ok and len(data) and evals % 7 == 0:
        back, _ = run_case(impl, key, off, align, [out])
        ok = back == data
    if not ok and len(mism) < 20:
        mism.append({"impl": impl, "key": key.hex(), "off": off, "align": align,
                     "chunks": [c.hex() for c in chunks], "out": out.hex(), "ptr": ptr,
                     "expected": naive(key, off, data).hex()})
    if len(samples) < want_samples and (len(data) <= 400) and rng.random() < p_sample:
        samples.append({"impl": impl, "key": key.hex(), "off": off, "align": align,
                        "chunks": [c.hex() for c in chunks], "out": out.hex(), "ptr": ptr})


explicit_out = []
for c in inp.get("explicit", []):
    key = bytes.fromhex(c["key"]); chunks = [bytes.fromhex(x) for x in c["chunks"]]
    announce(c["impl"], key, c["off"], c["align"], chunks)
    out, ptr = run_case(c["impl"], key, c["off"], c["align"], chunks)
    explicit_out.append({"out": out.hex(), "ptr": ptr, "expected": naive(key, c["off"], b"".join(chunks)).hex()})

for impl in impls:
    aligns = inp["aligns"] if impl in ("nvx_simple", "nvx_sse2") else [0]
    for L in inp["lengths"]:
        for off in inp["offsets"]:
            for align in aligns:
                for key in keys:
                    data = bytes(rng.getrandbits(8) for _ in range(L))
                    if inp["splits"] == "all":
                        for s in range(L + 1):
                            do(impl, key, off, align, [data[:s], data[s:]])
                    else:
                        do(impl, key, off, align, [data])
                        for _ in range(inp["splits"]):
                            cuts = sorted(rng.randint(0, L) for _ in range(rng.randint(1, 4)))
                            ch = [data[a:b] for a, b in zip([0] + cuts, cuts + [L])]
                            do(impl, key, off, align, ch)
    for L in inp.get("big", []):
        for key in keys[:1]:
            data = rng.randbytes(L)
            cuts = sorted(rng.randint(0, L) for _ in range(5))
            ch = [data[a:b] for a, b in zip([0] + cuts, cuts + [L])]
            for align in (aligns if len(aligns) <= 4 else [0, 1, 7, 15]):
                do(impl, key, rng.randint(0, 3), align, ch)
                do(impl, key, 0, align, [data])

json.dump({"evaluations": evals, "mismatches": mism, "samples": samples, "hist": hist,
           "uses_nvx": aw.USES_NVX, "explicit": explicit_out}, open(sys.argv[2], "w"))
