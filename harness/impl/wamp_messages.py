"""C03 / C08 implementation driver and shared helpers.

As a module (imported by harness/props/c03.py, c08.py; imports nothing from autobahn):
  enc/dec        tagged-JSON codec for deserialized WAMP structures (bytes, big ints, non-str keys, floats)
  to_coq         the same structure as a term of Model/WampValue.v (case-file syntax of Model/WampMsgRun.v)
  SPEC           per message class: positional fields and options with their kinds, WRITTEN FROM THE WAMP SPEC
                 AND THE PROPERTY TEXT (not from the Coq model): used to generate valid messages and as the
                 independent strictness oracle ("never accepts ids outside 0..2^53, non-string URIs, wrongly
                 typed options ...")
As a script (run by vlib.Check.run_impl in /venv/bin/python against $AV_REPO/src):
  ops  "parse"      Cls.parse(wmsg) directly and through each real serializer (object-serialize the raw list,
                    Serializer.unserialize the octets): outcome class, public attributes, re-marshal
       "roundtrip"  construct Cls(**attrs), Serializer.serialize -> unserialize (batched / unbatched, batch sizes),
                    attributes before and after, BINARY flag vs type of the data, cache behaviour
       "octets"     arbitrary / mutated octet strings into Serializer.unserialize
"""
import json
import os
import sys

ID_MAX = 2 ** 53

# ------------------------------------------------------------------ codec
def enc(v):
    if v is None or v is True or v is False:
        return v
    t = type(v)
    if t is int:
        return {"i": str(v)}
    if t is float:
        return {"f": repr(v)}
    if t is str:
        return {"s": [ord(c) for c in v]}
    if t is bytes:
        return {"b": v.hex()}
    if t in (list, tuple):
        return {"l": [enc(x) for x in v]}
    if t is dict:
        return {"d": [[enc(k), enc(x)] for k, x in v.items()]}
    # anything else a decoder may produce (Decimal, datetime, CBORTag, set, undefined ...): opaque
    try:
        tr = bool(v)
    except Exception:
        tr = True
    try:
        eq_t, eq_f = bool(v == True), bool(v == False)  # noqa: E712
    except Exception:
        eq_t = eq_f = False
    return {"o": [tr, eq_t, eq_f, t.__name__]}


class Opaque:
    def __init__(self, tr, eq_t, eq_f, name):
        self.tr, self.eq_t, self.eq_f, self.name = tr, eq_t, eq_f, name

    def __repr__(self):
        return f"<opaque {self.name}>"


def dec(j):
    if j is None or j is True or j is False:
        return j
    (k, x), = j.items()
    if k == "i":
        return int(x)
    if k == "f":
        return float(x)
    if k == "s":
        return "".join(chr(c) for c in x)
    if k == "b":
        return bytes.fromhex(x)
    if k == "l":
        return [dec(e) for e in x]
    if k == "d":
        return {_hashable(dec(a)): dec(b) for a, b in x}
    if k == "o":
        return Opaque(*x)
    raise ValueError(j)


def _hashable(k):
    if type(k) is list:
        return tuple(_hashable(x) for x in k)
    if type(k) is dict:
        return tuple(sorted((repr(a), repr(b)) for a, b in k.items()))
    return k


def float_tag(tr, eq_t, eq_f):
    if not tr:
        return 0 if eq_f else 2
    return 1 if eq_t else 3


def to_coq(v):
    """term of type value in a case file (Open Scope Z_scope; helpers vs vb ks vf of WampMsgRun.v)"""
    if v is None:
        return "VNull"
    if v is True:
        return "(VBool true)"
    if v is False:
        return "(VBool false)"
    t = type(v)
    if t is int:
        return f"(VInt ({v}))"
    if t is float:
        return "(vf %d)" % float_tag(bool(v), v == 1.0, v == 0.0)
    if t is Opaque:
        return "(vf %d)" % float_tag(v.tr, v.eq_t, v.eq_f)
    if t is str:
        if all(32 <= ord(c) < 127 for c in v):
            return '(vq "' + v.replace('"', '""') + '")'
        return "(vs [" + ";".join(str(ord(c)) for c in v) + "])"
    if t is bytes:
        return "(vb [" + ";".join(str(b) for b in v) + "])"
    if t in (list, tuple):
        return "(VList [" + ";".join(to_coq(x) for x in v) + "])"
    if t is dict:
        return "(VDict [" + ";".join("(%s,%s)" % (coq_key(k), to_coq(x)) for k, x in v.items()) + "])"
    raise TypeError(t)


def coq_key(k):
    if type(k) is str:
        if all(32 <= ord(c) < 127 for c in k):
            return '(kq "' + k.replace('"', '""') + '")'
        return "(ks [" + ";".join(str(ord(c)) for c in k) + "])"
    return "KBad"


def coq_list(vs):
    return "[" + ";".join(to_coq(x) for x in vs) + "]"


def coq_string(s):
    assert '"' not in s
    return '"' + s + '"%string'


def coq_attrs(attrs):
    return "[" + ";".join("(%s,%s)" % (coq_string(n), to_coq(v)) for n, v in attrs) + "]"


EXN = {"ProtocolError": "ProtocolError", "InvalidUriError": "InvalidUriError",
       "AssertionError": "AssertionError", "TypeError": "TypeError"}


def coq_expect(out):
    """out: driver outcome dict {"k": "ok", "attrs": [[name, enc]], "rem": enc} | {"k": "exc", "cls": name}"""
    if out["k"] == "ok":
        return "(XOk %s %s)" % (coq_attrs([(n, dec(v)) for n, v in out["attrs"]]), coq_list(dec(out["rem"])))
    if out["cls"] in EXN:
        return f"(XRaise {EXN[out['cls']]})"
    return "XOther"


# ------------------------------------------------------------------ SPEC (from the WAMP spec / property text)
# kinds: id (0..2^53), uri, uri_pattern (empty components allowed), str, bool, nat (int >= 0), pos (int >= 1),
#        dict, list_id, list_str, enum:<a>|<b>.., ff (forward_for chain), extra (dict with str keys), reqtype
FF1 = [{"session": 1, "authid": "alice", "authrole": "user"}]
FF3 = [{"session": 0, "authid": "a", "authrole": "r"}, {"session": ID_MAX, "authid": None, "authrole": "rr"},
       {"session": 7, "authid": "c", "authrole": "r3"}]
PAYLOAD_OPTS = [("enc_algo", "enc_algo", "enc_algo"), ("enc_key", "enc_key", "str"), ("enc_serializer", "enc_serializer", "enc_ser")]


def C(code, pos, opts=(), payload=None, optional_dict=False):
    return {"code": code, "pos": list(pos), "opts": list(opts), "payload": payload, "optional_dict": optional_dict}


SPEC = {
    "Hello": C(1, [("realm", "uri"), ("DICT", None)],
               [("authmethods", "authmethods", "list_str"), ("authid", "authid", "str"), ("authrole", "authrole", "str"),
                ("authextra", "authextra", "dict"), ("resumable", "resumable", "bool"),
                ("resume-session", "resume_session", "id"), ("resume-token", "resume_token", "str")]),
    "Welcome": C(2, [("session", "id"), ("DICT", None)],
                 [("realm", "realm", "str"), ("authid", "authid", "str"), ("authrole", "authrole", "str"),
                  ("authmethod", "authmethod", "str"), ("authprovider", "authprovider", "str"),
                  ("authextra", "authextra", "dict"), ("resumed", "resumed", "bool"), ("resumable", "resumable", "bool"),
                  ("resume_token", "resume_token", "str")]),
    "Abort": C(3, [("DICT", None), ("reason", "uri")], [("message", "message", "str")]),
    "Challenge": C(4, [("method", "str"), ("extra", "extra")]),
    "Authenticate": C(5, [("signature", "str"), ("extra", "extra")]),
    "Goodbye": C(6, [("DICT", None), ("reason", "uri")], [("message", "message", "str"), ("resumable", "resumable", "bool")]),
    "Error": C(8, [("request_type", "reqtype"), ("request", "id"), ("DICT", None), ("error", "uri")],
               [("callee", "callee", "id"), ("callee_authid", "callee_authid", "str"),
                ("callee_authrole", "callee_authrole", "str"), ("forward_for", "forward_for", "ff")], payload="bytes"),
    "Publish": C(16, [("request", "id"), ("DICT", None), ("topic", "uri")],
                 [("acknowledge", "acknowledge", "bool"), ("exclude_me", "exclude_me", "bool"),
                  ("exclude", "exclude", "list_id"), ("exclude_authid", "exclude_authid", "list_str"),
                  ("exclude_authrole", "exclude_authrole", "list_str"), ("eligible", "eligible", "list_id"),
                  ("eligible_authid", "eligible_authid", "list_str"), ("eligible_authrole", "eligible_authrole", "list_str"),
                  ("retain", "retain", "bool"), ("transaction_hash", "transaction_hash", "str"),
                  ("forward_for", "forward_for", "ff")], payload="bytes"),
    "Published": C(17, [("request", "id"), ("publication", "id")]),
    "Subscribe": C(32, [("request", "id"), ("DICT", None), ("topic", "uri_pattern")],
                   [("match", "match", "enum:exact|prefix|wildcard"), ("get_retained", "get_retained", "bool"),
                    ("forward_for", "forward_for", "ff")]),
    "Subscribed": C(33, [("request", "id"), ("subscription", "id")]),
    "Unsubscribe": C(34, [("request", "id"), ("subscription", "id"), ("DICT", None)],
                     [("forward_for", "forward_for", "ff")], optional_dict=True),
    "Unsubscribed": C(35, [("request", "id"), ("DICT", None)],
                      [("subscription", "subscription", "id"), ("reason", "reason", "uri")], optional_dict=True),
    "Event": C(36, [("subscription", "id"), ("publication", "id"), ("DICT", None)],
               [("publisher", "publisher", "id"), ("publisher_authid", "publisher_authid", "str"),
                ("publisher_authrole", "publisher_authrole", "str"), ("topic", "topic", "str"),
                ("retained", "retained", "bool"), ("transaction_hash", "transaction_hash", "str"),
                ("x_acknowledged_delivery", "x_acknowledged_delivery", "bool"), ("forward_for", "forward_for", "ff")],
               payload="bytes"),
    "EventReceived": C(337, [("publication", "id")]),
    "Call": C(48, [("request", "id"), ("DICT", None), ("procedure", "uri")],
              [("timeout", "timeout", "nat"), ("receive_progress", "receive_progress", "bool"),
               ("transaction_hash", "transaction_hash", "str"), ("caller", "caller", "id"),
               ("caller_authid", "caller_authid", "str"), ("caller_authrole", "caller_authrole", "str"),
               ("forward_for", "forward_for", "ff")], payload="bytes"),
    "Cancel": C(49, [("request", "id"), ("DICT", None)],
                [("mode", "mode", "enum:skip|killnowait|kill"), ("forward_for", "forward_for", "ff")]),
    "Result": C(50, [("request", "id"), ("DICT", None)],
                [("progress", "progress", "bool"), ("callee", "callee", "id"), ("callee_authid", "callee_authid", "str"),
                 ("callee_authrole", "callee_authrole", "str"), ("forward_for", "forward_for", "ff")], payload="bytes"),
    "Register": C(64, [("request", "id"), ("DICT", None), ("procedure", "uri_pattern")],
                  [("match", "match", "enum:exact|prefix|wildcard"),
                   ("invoke", "invoke", "enum:single|first|last|roundrobin|random"),
                   ("concurrency", "concurrency", "pos"), ("force_reregister", "force_reregister", "bool"),
                   ("forward_for", "forward_for", "ff")]),
    "Registered": C(65, [("request", "id"), ("registration", "id")]),
    "Unregister": C(66, [("request", "id"), ("registration", "id"), ("DICT", None)],
                    [("forward_for", "forward_for", "ff")], optional_dict=True),
    "Unregistered": C(67, [("request", "id"), ("DICT", None)],
                      [("registration", "registration", "id"), ("reason", "reason", "uri")], optional_dict=True),
    "Invocation": C(68, [("request", "id"), ("registration", "id"), ("DICT", None)],
                    [("timeout", "timeout", "nat"), ("receive_progress", "receive_progress", "bool"),
                     ("caller", "caller", "id"), ("caller_authid", "caller_authid", "str"),
                     ("caller_authrole", "caller_authrole", "str"), ("procedure", "procedure", "str"),
                     ("transaction_hash", "transaction_hash", "str"), ("forward_for", "forward_for", "ff")],
                    payload="bytes"),
    "Interrupt": C(69, [("request", "id"), ("DICT", None)],
                   [("mode", "mode", "enum:kill|killnowait"), ("reason", "reason", "uri"),
                    ("forward_for", "forward_for", "ff")]),
    "Yield": C(70, [("request", "id"), ("DICT", None)],
               [("progress", "progress", "bool"), ("callee", "callee", "id"), ("callee_authid", "callee_authid", "str"),
                ("callee_authrole", "callee_authrole", "str"), ("forward_for", "forward_for", "ff")], payload="bytes"),
}
CLASSES = list(SPEC)
CODE2CLS = {s["code"]: n for n, s in SPEC.items()}
HELLO_ROLES = {
    "subscriber": ["publisher_identification", "publication_trustlevels", "pattern_based_subscription",
                   "subscription_revocation", "event_history", "payload_transparency", "payload_encryption_cryptobox"],
    "publisher": ["publisher_identification", "subscriber_blackwhite_listing", "publisher_exclusion",
                  "payload_transparency", "x_acknowledged_event_delivery", "payload_encryption_cryptobox"],
    "caller": ["caller_identification", "call_timeout", "call_canceling", "progressive_call_results",
               "payload_transparency", "payload_encryption_cryptobox"],
    "callee": ["caller_identification", "call_trustlevels", "pattern_based_registration", "shared_registration",
               "call_timeout", "call_canceling", "progressive_call_results", "registration_revocation",
               "payload_transparency", "payload_encryption_cryptobox"]}
WELCOME_ROLES = {
    "broker": ["publisher_identification", "publication_trustlevels", "pattern_based_subscription", "session_meta_api",
               "subscription_meta_api", "subscriber_blackwhite_listing", "publisher_exclusion",
               "subscription_revocation", "event_history", "payload_transparency", "x_acknowledged_event_delivery",
               "payload_encryption_cryptobox", "event_retention"],
    "dealer": ["caller_identification", "call_trustlevels", "pattern_based_registration", "session_meta_api",
               "registration_meta_api", "shared_registration", "call_timeout", "call_canceling",
               "progressive_call_results", "registration_revocation", "payload_transparency", "testament_meta_api",
               "payload_encryption_cryptobox"]}
ENC_ALGOS = ["cryptobox", "mqtt", "xbr"]
ENC_SERS = ["json", "msgpack", "cbor", "ubjson", "flatbuffers"]
REQ_TYPES = [32, 34, 16, 64, 66, 48, 68]


# ------------------------------------------------------------------ independent conformance oracle
def _ascii_loose_uri(s, pattern=False):
    """conservative reading of the WAMP loose URI rule; returns True / False / None (= outside the ASCII core,
    left to C08Uri)"""
    if type(s) is not str:
        return False
    if any(ord(c) in (9, 10, 11, 12, 13, 28, 29, 30, 31, 32) or c == "#" for c in s):
        return False                 # whitespace (Python `\\s` on the ASCII range) and '#' are never part of a loose URI
    if any(ord(c) > 126 for c in s):
        return None                  # outside the ASCII core: judged by the URI part (C08Uri)
    comps = s.split(".")
    if pattern:
        return True
    return all(len(c) > 0 for c in comps)


def kind_ok(kind, v):
    """does v conform to kind? True / False / None (undecided here)"""
    if kind == "id":
        return type(v) is int and 0 <= v <= ID_MAX
    if kind == "uri":
        return _ascii_loose_uri(v)
    if kind == "uri_pattern":
        return _ascii_loose_uri(v, True)
    if kind == "str":
        return type(v) is str
    if kind == "bool":
        return type(v) is bool
    if kind == "nat":
        return type(v) is int and v >= 0
    if kind == "pos":
        return type(v) is int and v >= 1
    if kind == "dict":
        return type(v) is dict
    if kind == "extra":
        return type(v) is dict and all(type(k) is str for k in v)
    if kind == "list_id":
        return type(v) is list and all(type(x) is int and 0 <= x <= ID_MAX for x in v)
    if kind == "list_str" or kind == "authmethods":
        return type(v) is list and all(type(x) is str for x in v)
    if kind.startswith("enum:"):
        return type(v) is str and v in kind[5:].split("|")
    if kind == "reqtype":
        return type(v) is int and v in REQ_TYPES
    if kind == "ff":
        return type(v) is list and all(
            type(f) is dict and kind_ok("id", f.get("session")) and (f.get("authid") is None or type(f.get("authid")) is str)
            and "authid" in f and type(f.get("authrole")) is str for f in v)
    if kind == "enc_algo":
        return type(v) is str and (v in ENC_ALGOS or v.startswith("x_"))
    if kind == "enc_ser":
        return type(v) is str and (v in ENC_SERS or v.startswith("x_"))
    raise ValueError(kind)


def conformance_violations(cls, w):
    """Independent strictness oracle on an ACCEPTED wire list w of class cls: list of
    (what, where) for every element that the property text says must never be accepted."""
    sp = SPEC[cls]
    bad = []
    npos = len(sp["pos"])
    lens = ([npos + 1, npos + 2, npos + 3] if sp["payload"] else [npos, npos + 1] if sp["optional_dict"] else [npos + 1])
    if len(w) not in lens:
        bad.append(("length", str(len(w))))
        return bad
    d = None
    for i, (attr, kind) in enumerate(sp["pos"]):
        if i + 1 >= len(w):
            break
        v = w[i + 1]
        if attr == "DICT":
            if kind_ok("extra", v) is False:
                bad.append(("details", "dict"))
            d = v if type(v) is dict else None
        elif attr == "realm" and v is None:
            continue
        elif kind_ok(kind, v) is False:
            bad.append((attr, kind))
    tail = w[npos + 1:]
    payload_mode = sp["payload"] and len(tail) == 1 and type(tail[0]) is bytes
    if sp["payload"] and not payload_mode:
        if len(tail) >= 1 and not (tail[0] is None or type(tail[0]) is list):
            bad.append(("payload|args", "list"))
        if len(tail) >= 2 and not kind_ok("extra", tail[1]):
            bad.append(("kwargs", "dict"))
    if d:
        opts = list(sp["opts"]) + (PAYLOAD_OPTS if payload_mode else [])
        for key, _attr, kind in opts:
            if key in d and d[key] is None:
                continue        # JSON null for an option: the code treats it as absent or rejects it; not judged here
            if key in d and kind_ok(kind, d[key]) is False:
                if kind == "id" and type(d[key]) is int:
                    bad.append((key, "id-range"))
                elif kind == "list_id" and type(d[key]) is list and all(type(x) is int for x in d[key]):
                    bad.append((key, "id-range"))
                elif kind == "ff" and type(d[key]) is list:
                    bad.append((key, "ff-entries"))
                else:
                    bad.append((key, kind))
        if cls in ("Hello", "Welcome") and type(d.get("roles")) is dict:
            table = HELLO_ROLES if cls == "Hello" else WELCOME_ROLES
            for role, rv in d["roles"].items():
                feats = rv.get("features") if type(rv) is dict else None
                if role in table and type(feats) is dict:
                    for f in table[role]:
                        if f in feats and feats[f] is not None and type(feats[f]) is not bool:
                            bad.append((f"roles.{role}.features", "bool"))      # a feature flag is a bool (or absent)
                            break
        if cls in ("Unsubscribed", "Unregistered"):
            sub = "subscription" if cls == "Unsubscribed" else "registration"
            if type(d.get(sub)) is int and type(w[1]) is int and not (w[1] == 0 and d[sub] != 0):
                bad.append((sub, "combination"))      # constructor: request == 0 and subscription != 0
        if payload_mode and d.get("enc_algo") is None and (d.get("enc_key") is not None or d.get("enc_serializer") is not None):
            bad.append(("enc_algo", "missing"))       # enc_key / enc_serializer without enc_algo
    return bad


ENUM_DEFAULT = {("Subscribe", "match"): "exact", ("Register", "match"): "exact", ("Register", "invoke"): "single"}


def expected_roles(cls, d):
    """what the roles attribute of an accepted HELLO / WELCOME must be, role by role, in announced order: the known
    feature flags that role carries itself (unknown names and None are dropped) -- nothing of any other role"""
    table = HELLO_ROLES if cls == "Hello" else WELCOME_ROLES
    out = {}
    for role, rv in d["roles"].items():
        feats = rv.get("features", {}) if type(rv) is dict else {}
        out[role] = {f: feats[f] for f in table.get(role, []) if type(feats) is dict and f in feats and feats[f] is not None}
    return out


def reflect_violations(cls, w, attrs):
    """Independent oracle on an ACCEPTED wire list: every public attribute of the object is the corresponding element
    of the input (positional element, option value or its default, payload tail, roles entry by entry).
    attrs: {name: value}.  Returns [(attribute, expected, got)]."""
    sp = SPEC[cls]
    bad = []
    npos = len(sp["pos"])
    d = {}
    for i, (attr, kind) in enumerate(sp["pos"]):
        if i + 1 >= len(w):
            break
        if attr == "DICT":
            d = w[i + 1] if type(w[i + 1]) is dict else {}
        elif attr in attrs and enc(attrs[attr]) != enc(w[i + 1]):
            bad.append((attr, w[i + 1], attrs[attr]))
    tail = w[npos + 1:]
    payload_mode = bool(sp["payload"]) and len(tail) == 1 and type(tail[0]) in (bytes, str) and "payload" in attrs and attrs["payload"] is not None
    opts = list(sp["opts"])
    if sp["payload"]:
        exp = {"payload": tail[0] if payload_mode else None,
               "args": None if payload_mode or len(tail) < 1 else tail[0],
               "kwargs": None if payload_mode or len(tail) < 2 else tail[1]}
        for k, v in exp.items():
            if k in attrs and enc(attrs[k]) != enc(v):
                bad.append((k, v, attrs[k]))
        for key, attr, kind in PAYLOAD_OPTS:
            v = d.get(key) if payload_mode else None
            if attr in attrs and enc(attrs[attr]) != enc(v):
                bad.append((attr, v, attrs[attr]))
    for key, attr, kind in opts:
        v = d.get(key)
        if v is None:
            v = ENUM_DEFAULT.get((cls, key))
        if attr in attrs and enc(attrs[attr]) != enc(v):
            bad.append((attr, v, attrs[attr]))
    if cls in ("Hello", "Welcome") and type(d.get("roles")) is dict and "roles" in attrs:
        exp = expected_roles(cls, d)
        got = attrs["roles"]
        for r in list(exp) + [r for r in got if r not in exp]:
            if enc(exp.get(r)) != enc(got.get(r)):
                bad.append((f"roles.{r}", exp.get(r), got.get(r)))
        if not bad and list(exp) != list(got):
            bad.append(("roles", list(exp), list(got)))
    return bad


# ------------------------------------------------------------------ grammar instances (valid, every option present)
ENC_OPTS = {"enc_algo": "cryptobox", "enc_key": "key1", "enc_serializer": "json"}
EXEMPLAR = {
    "Hello": [1, "realm1", {"roles": {"caller": {"features": {"call_timeout": True, "progressive_call_results": False}},
                                      "subscriber": {}},
                            "authmethods": ["anonymous", "ticket"], "authid": "joe", "authrole": "user",
                            "authextra": {"k": 1}, "resumable": True, "resume-session": 5, "resume-token": "tok"}],
    "Welcome": [2, 7, {"roles": {"broker": {"features": {"event_history": True}}, "dealer": {}},
                       "realm": "realm1", "authid": "joe", "authrole": "user", "authmethod": "ticket",
                       "authprovider": "static", "authextra": {"k": 1}, "resumed": True, "resumable": True,
                       "resume_token": "tok", "x_cb_node": "n1"}],
    "Abort": [3, {"message": "bye"}, "wamp.error.no_such_realm"],
    "Challenge": [4, "ticket", {"challenge": "abc"}],
    "Authenticate": [5, "sig", {"k": "v"}],
    "Goodbye": [6, {"message": "bye", "resumable": True}, "wamp.close.normal"],
    "Error": [8, 48, 9, {"callee": 3, "callee_authid": "c", "callee_authrole": "r", "forward_for": FF1}, "wamp.error.x"],
    "Publish": [16, 5, {"acknowledge": True, "exclude_me": False, "exclude": [1, 2], "exclude_authid": ["a"],
                        "exclude_authrole": ["r"], "eligible": [3], "eligible_authid": ["b"], "eligible_authrole": ["s"],
                        "retain": True, "transaction_hash": "0xabc", "forward_for": FF1}, "com.myapp.topic1"],
    "Published": [17, 5, 9],
    "Subscribe": [32, 5, {"match": "wildcard", "get_retained": True, "forward_for": FF1}, "com..topic"],
    "Subscribed": [33, 5, 9],
    "Unsubscribe": [34, 5, 9, {"forward_for": FF1}],
    "Unsubscribed": [35, 0, {"subscription": 9, "reason": "wamp.x"}],
    "Event": [36, 5, 9, {"publisher": 3, "publisher_authid": "a", "publisher_authrole": "r", "topic": "com.t",
                         "retained": True, "transaction_hash": "h", "x_acknowledged_delivery": True, "forward_for": FF1}],
    "EventReceived": [337, 9],
    "Call": [48, 5, {"timeout": 10, "receive_progress": True, "transaction_hash": "h", "caller": 3,
                     "caller_authid": "a", "caller_authrole": "r", "forward_for": FF1}, "com.proc"],
    "Cancel": [49, 5, {"mode": "kill", "forward_for": FF1}],
    "Result": [50, 5, {"progress": True, "callee": 3, "callee_authid": "a", "callee_authrole": "r", "forward_for": FF1}],
    "Register": [64, 5, {"match": "prefix", "invoke": "roundrobin", "concurrency": 4, "force_reregister": True,
                         "forward_for": FF1}, "com.proc."],
    "Registered": [65, 5, 9],
    "Unregister": [66, 5, 9, {"forward_for": FF1}],
    "Unregistered": [67, 0, {"registration": 9, "reason": "wamp.x"}],
    "Invocation": [68, 5, 9, {"timeout": 10, "receive_progress": True, "caller": 3, "caller_authid": "a",
                              "caller_authrole": "r", "procedure": "com.p", "transaction_hash": "h", "forward_for": FF1}],
    "Interrupt": [69, 5, {"mode": "killnowait", "reason": "wamp.x", "forward_for": FF1}],
    "Yield": [70, 5, {"progress": True, "callee": 3, "callee_authid": "a", "callee_authrole": "r", "forward_for": FF1}],
}
TAILS = {"none": [], "args": [[1, "a"]], "args_kwargs": [[1], {"k": 2}], "kwargs_only": [None, {"k": 1}],
         "payload": [b"\x01\x02"]}


def deep(v):
    if type(v) is list:
        return [deep(x) for x in v]
    if type(v) is dict:
        return {k: deep(x) for k, x in v.items()}
    return v


def exemplars(cls):
    """[(variant name, wire list)]: the grammar instance(s) of a class"""
    base = deep(EXEMPLAR[cls])
    if SPEC[cls]["payload"]:
        out = []
        for tn, tail in TAILS.items():
            w = deep(base) + deep(tail)
            if tn == "payload":
                d = w[[i for i, (a, _) in enumerate(SPEC[cls]["pos"]) if a == "DICT"][0] + 1]
                d.update(ENC_OPTS)
            out.append((tn, w))
        return out
    if SPEC[cls]["optional_dict"]:
        return [("full", base), ("short", base[:-1])]
    return [("full", base)]


BOUNDARY = [None, True, False, -1, 0, 1, ID_MAX, ID_MAX + 1, 1.5, 0.0, 1.0, "", "x", b"x", b"", [], {}, [1], {"a": 1}]


def paths(v, prefix=()):
    """every node of a structure as a path of list indices / dict keys"""
    yield prefix
    if type(v) is list:
        for i, x in enumerate(v):
            yield from paths(x, prefix + (i,))
    elif type(v) is dict:
        for k, x in v.items():
            yield from paths(x, prefix + (k,))


def get_at(v, path):
    for p in path:
        v = v[p]
    return v


def replace_at(v, path, new):
    v = deep(v)
    if not path:
        return new
    parent = get_at(v, path[:-1])
    parent[path[-1]] = new
    return v


def delete_at(v, path):
    v = deep(v)
    parent = get_at(v, path[:-1])
    del parent[path[-1]]
    return v


def where_of(cls, w, path):
    """stable name of the mutated top-level element: positional attribute, option key, args/kwargs/payload"""
    if not path:
        return "toplevel"
    sp = SPEC[cls]
    i = path[0]
    npos = len(sp["pos"])
    if i == 0:
        return "type"
    if i - 1 < npos:
        attr = sp["pos"][i - 1][0]
        if attr == "DICT":
            if len(path) == 1:
                return "details"
            k = path[1]
            if k == "roles" and len(path) > 2:
                return "roles" + ("/features" if "features" in path[2:] else "")
            if str(k).startswith("enc_"):
                return "enc_*"
            return str(k)
        return attr
    if sp["payload"]:
        return ["payload|args", "kwargs", "extra"][min(i - 1 - npos, 2)]
    return "extra"


def max_len(cls):
    sp = SPEC[cls]
    return len(sp["pos"]) + 1 + (2 if sp["payload"] else 0)


def vrepr(v):
    r = repr(v)
    return r if len(r) < 40 else r[:37] + "..."


# ================================================================== driver (script mode)
def main():
    inp = json.load(open(sys.argv[1]))
    sys.modules["bjdata"] = None          # UBJSON backend broken in this sandbox (numpy ABI): "not installed"
    import txaio
    txaio.use_asyncio()
    import autobahn
    from autobahn.wamp import message as M, role as R
    from autobahn.wamp import serializer as S
    from autobahn.wamp.exception import ProtocolError, InvalidUriError
    repo = os.environ.get("AV_REPO", "/repo")
    assert os.path.realpath(autobahn.__file__).startswith(os.path.realpath(repo) + os.sep), (autobahn.__file__, repo)

    SER = {"json": S.JsonSerializer, "msgpack": S.MsgPackSerializer, "cbor": S.CBORSerializer}
    installed = {"ubjson": hasattr(S, "UBJSONSerializer"), "json": True, "msgpack": hasattr(S, "MsgPackSerializer"),
                 "cbor": hasattr(S, "CBORSerializer")}

    def public_attrs(obj):
        out = []
        for sl in obj.__class__.__slots__:
            name = sl.lstrip("_")
            v = getattr(obj, name)
            if name == "roles":
                v = {rn: {f: getattr(ro, f) for f in ro.__dict__ if not f.startswith("_") and f != "ROLE"
                          and getattr(ro, f) is not None} for rn, ro in v.items()}
            out.append([name, enc(v)])
        return out

    def outcome(fn):
        try:
            r = fn()
        except Exception as e:     # noqa
            return {"k": "exc", "cls": type(e).__name__, "msg": str(e)[:120]}
        return r

    def parsed(obj, reparse=True):
        rem = obj.marshal()
        out = {"k": "ok", "cls": obj.__class__.__name__, "attrs": public_attrs(obj), "rem": enc(rem)}
        if reparse:
            # independent idempotence oracle: parse(marshal(obj)) must give the same public attributes
            try:
                out["re"] = public_attrs(obj.__class__.parse(rem))
            except Exception as e:  # noqa
                out["re_exc"] = type(e).__name__
        return out

    def build(clsname, attrs):
        kw = {k: dec(v) for k, v in attrs}
        if "roles" in kw:
            kw["roles"] = {rn: R.ROLE_NAME_TO_CLASS[rn](**fs) for rn, fs in kw["roles"].items()}
        return getattr(M, clsname)(**kw)

    res = {"installed": installed, "results": []}
    op = inp["op"]

    if op == "parse":
        sers = {n: c() for n, c in SER.items()}
        for case in inp["cases"]:
            w = dec(case["w"])
            r = {}
            if case.get("cls"):
                cls = getattr(M, case["cls"])
                r["direct"] = outcome(lambda: parsed(cls.parse(w)))
            for sn in case.get("via", []):
                ser = sers[sn]
                try:
                    data = ser._serializer.serialize(w)
                except Exception as e:     # noqa: value not expressible in this format
                    r[sn] = {"k": "skip", "why": type(e).__name__}
                    continue
                def go():
                    ms = ser.unserialize(data)
                    assert len(ms) == 1
                    return parsed(ms[0])
                r[sn] = outcome(go)
                # what the object decoder hands to the dispatch (to feed the model with the same structure)
                try:
                    r[sn]["raw"] = enc(ser._serializer.unserialize(data)[0])
                except Exception:
                    pass
            res["results"].append(r)

    elif op == "roundtrip":
        for case in inp["cases"]:
            r = {}
            try:
                obj = build(case["cls"], case["attrs"])
            except Exception as e:  # noqa
                res["results"].append({"build": type(e).__name__ + ": " + str(e)[:100]})
                continue
            r["orig"] = public_attrs(obj)
            r["w"] = enc(obj.marshal())
            for sn in case["via"]:
                for batched in (False, True):
                    ser = SER[sn](batched=batched)
                    def go():
                        data, is_binary = ser.serialize(obj)
                        flags = {"is_binary": is_binary, "BINARY": ser._serializer.BINARY, "type": type(data).__name__}
                        if sn == "json":
                            try:
                                data.decode("utf8"); flags["utf8"] = True
                            except UnicodeDecodeError:
                                flags["utf8"] = False
                        ms = ser.unserialize(data, is_binary)
                        assert len(ms) == 1, len(ms)
                        out = parsed(ms[0])
                        out["flags"] = flags
                        # the opposite flag must be rejected with ProtocolError
                        try:
                            ser.unserialize(data, not is_binary)
                            out["wrongflag"] = "accepted"
                        except ProtocolError:
                            out["wrongflag"] = "ProtocolError"
                        except Exception as e:  # noqa
                            out["wrongflag"] = type(e).__name__
                        # cache: same bytes on second call; another serializer gets its own bytes
                        out["cache_same"] = ser.serialize(obj)[0] == data
                        return out
                    r[sn + (".batched" if batched else "")] = outcome(go)
            res["results"].append(r)

    elif op == "batch":
        # batches of N messages through one batched serializer: concatenated octets come back as the same N in order
        for case in inp["cases"]:
            r = {}
            objs = [build(c, a) for c, a in case["msgs"]]
            for sn in case["via"]:
                ser = SER[sn](batched=True)
                def go():
                    chunks = [ser.serialize(o)[0] for o in objs]
                    data = b"".join(chunks)
                    ms = ser.unserialize(data, ser._serializer.BINARY)
                    return {"k": "ok", "n": len(ms), "msgs": [parsed(m) for m in ms], "octets": data.hex() if len(data) < 4000 else None,
                            "chunks": [c.hex() for c in chunks] if len(data) < 4000 else None}
                r[sn] = outcome(go)
            r["orig"] = [public_attrs(o) for o in objs]
            res["results"].append(r)

    elif op == "serialize":
        # octets of each message under each serializer configuration (real Serializer.serialize)
        for case in inp["cases"]:
            obj = build(case["cls"], case["attrs"])
            r = {"orig": public_attrs(obj), "cls": case["cls"]}
            for sn in case["via"]:
                for batched in (False, True):
                    r[sn + (".batched" if batched else "")] = SER[sn](batched=batched).serialize(obj)[0].hex()
            res["results"].append(r)

    elif op == "history":
        # call sequences on LONG-LIVED serializer objects: two objects per (serializer, batched); every step is
        # one Serializer.unserialize(octets) call; nothing is reset between steps
        objs = {}
        for hist in inp["cases"]:
            outs = []
            for cfg, inst, hx in hist["steps"]:
                sn, batched = cfg.split(".")[0], cfg.endswith(".batched")
                key = (hist.get("fresh", 0), cfg, inst) if hist.get("fresh") else (0, cfg, inst)
                if key not in objs:
                    objs[key] = SER[sn](batched=batched)
                ser = objs[key]
                data = bytes.fromhex(hx)
                def go():
                    ms = ser.unserialize(data, ser._serializer.BINARY)
                    return {"k": "ok", "n": len(ms), "msgs": [parsed(m, reparse=False) for m in ms]}
                outs.append(outcome(go))
            res["results"].append(outs)

    elif op == "octets":
        class OneRaw:      # object serializer stub handing one already decoded structure to Serializer.unserialize
            NAME, BINARY = "stub", True
            def __init__(self):
                self.raw = None
            def unserialize(self, payload):
                return [self.raw]
        stub = OneRaw()
        stub_ser = S.Serializer(stub)
        def one_raw(x):
            stub.raw = x
            ms = stub_ser.unserialize(b"")
            return ms[0]
        sers = {(n, b): c(batched=b) for n, c in SER.items() for b in (False, True)}
        for case in inp["cases"]:
            data = bytes.fromhex(case["hex"])
            ser = sers[(case["ser"], case["batched"])]
            def go():
                ms = ser.unserialize(data)
                return {"k": "ok", "n": len(ms), "msgs": [parsed(m) for m in ms]}
            r = outcome(go)
            try:
                raws = ser._serializer.unserialize(data)
                r["raws"] = [enc(x) for x in raws]
                # outcome of the REAL envelope dispatch + parse on each decoded raw message separately
                r["per_raw"] = [outcome(lambda x=x: parsed(one_raw(x))) for x in raws]
            except Exception as e:  # noqa
                r["decode_error"] = type(e).__name__
            res["results"].append(r)
    else:
        raise ValueError(op)

    json.dump(res, open(sys.argv[2], "w"))


if __name__ == "__main__":
    main()
