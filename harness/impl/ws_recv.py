"""C02 / C16 implementation driver: feeds octet streams to REAL WebSocket protocol objects (via wsdrv: real opening
handshake, fake transport, virtual clock) and reports the canonical observable behaviour.

Also home of the independent property oracle `rfc_judge` (a direct transcription of RFC 6455 section 5 -- written from
the RFC, not from the Gallina model and not from protocol.py) and of the canonicalisation shared with harness/props.

Run as a driver:   ws_recv.py in.json out.json      (one txaio framework per process: payload["fw"] = "tx" | "aio")

payload:
  {"fw": .., "cases": [case, ...]}                              -> {"results": [result, ...]}
  {"fw": .., "sweep": {"contexts": [ctx, ...], "headers": [h, ...] | null (= all 65536), "procs": n}}
                                                                 -> {"sweep": [per-context result]}
case   = {"role","fbd","utf8","mask_opt","apply_mask","max_frame","max_msg","pmc","pmc_max","echo","closing",
          "chunks": [hex, ...], optional "send": {"len": n, "binary": bool}, optional "nolost": bool,
          optional "burst": bool (all reads before the event loop gets a turn), optional "observe_retained": bool}
result = {"events": [...], "state": "OPEN|CLOSING|CLOSED", "close": [wasClean, code, reason|None] | None, "tape": [hex, ...]}
events = ["msg", hex, isBinary] ["ping", hex] ["pong", hex] ["sendpong", hex] ["sendclose", code|None, reasonhex|None]
         ["drop", abort] ["escaped", ExcClass] ["raised", ExcClass] ["sendframe", opcode, fin, rsv, length]
"""
import codecs
import json
import os
import sys
import zlib

# ======================================================================================================
# Independent oracle: RFC 6455 section 5 (+ 7.4 close codes, 8.1 UTF-8, RFC 7692 RSV1), judged on the whole stream.
# ======================================================================================================

RFC_CLOSE_CODES = set(range(1000, 1004)) | set(range(1007, 1014)) | set(range(3000, 5000))
# 1000-1003, 1007-1011 are defined by RFC 6455 7.4.1; 1012, 1013 are IANA-registered; 3000-4999 libraries / private.
# 1004 reserved, 1005 / 1006 / 1015 MUST NOT appear on the wire, 1014 and 1016-2999 unassigned, 0-999 unused.


def utf8_prefix_ok(dec, chunk):
    """feed an incremental strict decoder; False as soon as the octets cannot be continued to valid UTF-8"""
    try:
        dec.decode(chunk, False)
        return True
    except UnicodeDecodeError:
        return False


def utf8_complete(dec):
    try:
        dec.decode(b"", True)
        return True
    except UnicodeDecodeError:
        return False


def rfc_judge(ctx, stream):
    """ctx: dict(server, mask_opt, apply_mask, pmc, utf8, max_frame, max_msg[, pmc_max]).
    Returns (deliveries, verdict, offset): offset = first octet not judged (after a Close frame: what follows it);
    deliveries = [("msg", bytes, isBinary) | ("ping", bytes) | ("pong", bytes)] of the
    well-formed prefix; verdict = ("more",) | ("fail", "protocol"|"payload"|"toobig") | ("close", code|None, reason|None).
    A compressed message whose inflated size exceeds pmc_max must not be delivered: ("fail", "toobig")."""
    out = []
    i, n = 0, len(stream)
    frag = None          # dict(binary, text_checked, compressed, parts, dec, total, inflater)
    inflater = None      # context takeover: one inflater for the connection
    while True:
        if n - i < 2:
            return out, ("more",), i
        b0, b1 = stream[i], stream[i + 1]
        fin, rsv1, rsv2, rsv3, opcode = b0 >> 7, (b0 >> 6) & 1, (b0 >> 5) & 1, (b0 >> 4) & 1, b0 & 15
        masked, len7 = b1 >> 7, b1 & 127
        control = opcode >= 8
        # 5.2 RSV bits: MUST be 0 unless an extension defining them was negotiated (RFC 7692: RSV1 on the first
        # fragment of a data message only)
        if rsv2 or rsv3:
            return out, ("fail", "protocol"), i
        if rsv1 and not (ctx["pmc"] and not control and frag is None):
            return out, ("fail", "protocol"), i
        # 5.1 masking
        if ctx["server"] and ctx["mask_opt"] and not masked:       # requireMaskedClientFrames
            return out, ("fail", "protocol"), i
        if not ctx["server"] and not ctx["mask_opt"] and masked:   # not acceptMaskedServerFrames
            return out, ("fail", "protocol"), i
        # 5.2 opcodes
        if opcode in (3, 4, 5, 6, 7, 11, 12, 13, 14, 15):
            return out, ("fail", "protocol"), i
        # 5.5 control frames
        if control and (not fin or len7 > 125):
            return out, ("fail", "protocol"), i
        if opcode == 8 and len7 == 1:
            return out, ("fail", "protocol"), i
        # 5.4 fragmentation
        if not control:
            if opcode == 0 and frag is None:
                return out, ("fail", "protocol"), i
            if opcode != 0 and frag is not None:
                return out, ("fail", "protocol"), i
        # extended length + masking key: judged when the base header is complete
        ext = 0 if len7 <= 125 else (2 if len7 == 126 else 8)
        hl = 2 + ext + (4 if masked else 0)
        if n - i < hl:
            return out, ("more",), i
        if ext == 0:
            ln = len7
        else:
            ln = int.from_bytes(stream[i + 2:i + 2 + ext], "big")
            if (ext == 2 and ln < 126) or (ext == 8 and (ln < 65536 or ln >= 1 << 63)):
                return out, ("fail", "protocol"), i
        key = stream[i + 2 + ext:i + hl] if masked else None
        avail = stream[i + hl:i + hl + ln]
        complete = len(avail) == ln
        if masked and ctx["apply_mask"]:
            avail = bytes(b ^ key[k & 3] for k, b in enumerate(avail))
        if control:
            if not complete:
                return out, ("more",), i
            if opcode == 9:
                out.append(("ping", avail))
            elif opcode == 10:
                out.append(("pong", avail))
            else:
                if ln == 0:
                    return out, ("close", None, None), i + hl + ln
                code = int.from_bytes(avail[:2], "big")
                if code not in RFC_CLOSE_CODES:
                    return out, ("fail", "protocol"), i
                reason = avail[2:]
                if reason:
                    try:
                        reason.decode("utf-8")
                    except UnicodeDecodeError:
                        return out, ("fail", "payload"), i
                    return out, ("close", code, reason), i + hl + ln
                return out, ("close", code, None), i + hl + ln
            i += hl + ln
            continue
        # data frame
        if frag is None:
            cur = dict(binary=(opcode == 2), text=(opcode == 1 and ctx["utf8"]), compressed=bool(ctx["pmc"] and rsv1),
                       parts=[], dec=codecs.getincrementaldecoder("utf-8")("strict"), total=0, raw=[])
        else:
            cur = frag
        cur["total"] += ln
        if (0 < ctx["max_msg"] < cur["total"]) or (0 < ctx["max_frame"] < ln):
            return out, ("fail", "toobig"), i
        if cur["compressed"]:
            cur["raw"].append(avail)
            app = None
            if ctx.get("pmc_max") is None:
                # a prefix of the compressed message that the inflater already rejects (or that already inflates to invalid
                # UTF-8 in a text message) can never become valid: the violation is at this frame, whether or not the frame
                # or the message is complete (the probe works on a copy of the connection's inflater)
                if "z" not in cur:
                    cur["z"] = inflater.copy() if inflater is not None else zlib.decompressobj(-15)
                try:
                    probe = cur["z"].decompress(avail)
                except zlib.error:
                    return out, ("fail", "zlib"), i
                if cur["text"] and not utf8_prefix_ok(cur["dec"], probe):
                    return out, ("fail", "payload"), i
        else:
            app = avail
            if cur["text"] and not utf8_prefix_ok(cur["dec"], app):
                return out, ("fail", "payload"), i
            cur["parts"].append(app)
        if not complete:
            return out, ("more",), i
        if fin:
            if cur["compressed"]:
                if inflater is None:
                    inflater = zlib.decompressobj(-15)
                try:
                    payload = inflater.decompress(b"".join(cur["raw"]) + b"\x00\x00\xff\xff")
                except zlib.error:
                    return out, ("fail", "zlib"), i
                if ctx.get("pmc_max") is not None and len(payload) > ctx["pmc_max"]:
                    return out, ("fail", "toobig"), i
                if cur["text"]:
                    try:
                        payload.decode("utf-8")
                    except UnicodeDecodeError:
                        return out, ("fail", "payload"), i
            else:
                if cur["text"] and not utf8_complete(cur["dec"]):
                    return out, ("fail", "payload"), i
                payload = b"".join(cur["parts"])
            out.append(("msg", payload, cur["binary"]))
            frag = None
        else:
            frag = cur
        i += hl + ln


FAIL_CODE = {"protocol": 1002, "payload": 1007, "toobig": 1009}


CODEC_ERROR_KEY = "pmc/invalid-compressed-data/codec-error-escapes-dataReceived"
CODEC_ERROR_WHAT = ("permessage-deflate: a data frame flagged compressed whose payload the inflater rejects raises zlib.error out of "
                    "dataReceived instead of failing the connection (1007/1002); the connection stays OPEN, the framework then drops "
                    "it uncleanly")


def codec_error_escaped(case, result):
    """compression negotiated and the REAL decompressor raised out of the receive loop (["escaped", "error"] = zlib.error)"""
    return bool(case.get("pmc")) and any(e[0] == "escaped" and e[1] == "error" for e in result["events"])


def codec_raised(case, result):
    """compression negotiated and the REAL decompressor raised (seen by the driver's wrapper around decompress_message_data /
    end_decompress_message), whether the receive path caught it or let it escape"""
    return bool(case.get("pmc")) and bool(result.get("codec_raised") or codec_error_escaped(case, result))


def codec_rejected(case, result):
    """the real codec raised AND the stream really carries invalid compressed data (the oracle's inflater rejects it as
    well): such a run has no model answer (the decompressor is a TOTAL oracle of the Gallina model: no error branch); it is
    judged by the RFC oracle alone (1007 / drop, nothing delivered afterwards)"""
    if not codec_raised(case, result):
        return False
    ctx = dict(server=case["role"] == "server", mask_opt=case["mask_opt"], apply_mask=case["apply_mask"], pmc=case["pmc"],
               utf8=case["utf8"], max_frame=case["max_frame"], max_msg=case["max_msg"], pmc_max=case.get("pmc_max"))
    return rfc_judge(ctx, b"".join(bytes.fromhex(c) for c in case["chunks"]))[1] == ("fail", "zlib")


def check_against_rfc(case, result):
    """Independent verdict on one implementation run.  Returns a list of (key, what) problems (empty = conforms).
    Only facts the property names are judged: deliveries of the well-formed prefix, pong echo, failure policy
    (announced code / drop + unclean), nothing delivered after a violation, nothing after a Close frame."""
    ctx = dict(server=case["role"] == "server", mask_opt=case["mask_opt"], apply_mask=case["apply_mask"], pmc=case["pmc"],
               utf8=case["utf8"], max_frame=case["max_frame"], max_msg=case["max_msg"], pmc_max=case.get("pmc_max"))
    stream = b"".join(bytes.fromhex(c) for c in case["chunks"])
    dels, verdict, off = rfc_judge(ctx, stream)
    after_close = verdict[0] == "close" and off < len(stream)      # octets follow the peer's Close frame
    if verdict == ("fail", "zlib"):
        # a frame flagged "compressed" whose payload is not deflate data (the oracle's own inflater rejects it too)
        if codec_error_escaped(case, result):
            return [(CODEC_ERROR_KEY, CODEC_ERROR_WHAT)]
        if case.get("pmc_max") is not None:
            return []      # with a decompression cap the inflater is fed piecewise (C16): outside this oracle
        verdict = ("fail", "payload")     # invalid compressed data is invalid payload: 1007 / drop, nothing delivered after it
    ev = result["events"]
    role = case["role"]
    probs = []
    for k, (want_v, got_v) in sorted((result.get("config_mismatch") or {}).items()):
        # the verdicts below would be relative to a configuration the protocol does not have
        return [(f"config/{role}/{k}", f"setProtocolOptions({k}={want_v!r}) ({case.get('config_style') or 'one call for all options'}): "
                                       f"after the handshake the protocol works with {k}={got_v!r}")]
    if verdict[0] == "fail" and result.get("hooks_after_failure"):
        hk = result["hooks_after_failure"]
        probs.append((f"{role}/app-hooks-called-after-failure",
                      f"after the connection was failed for a {verdict[1]} violation (close frame sent / transport dropped) the application's "
                      f"receive hooks were still called: {[h[0] for h in hk][:8]}{' ...' if len(hk) > 8 else ''}, {sum(h[1] for h in hk)} payload octets handed over"))
    if any(e[0] == "escaped" for e in ev):
        return [(f"{role}/escaped/{[e[1] for e in ev if e[0] == 'escaped'][0]}", "an exception left dataReceived")]
    # the point where the implementation reacted to a close / violation: first close frame written or TCP drop
    cut = next((k for k, e in enumerate(ev) if e[0] in ("sendclose", "drop")), len(ev))
    got = [tuple(e) for e in ev if e[0] in ("msg", "ping", "pong")]
    got_before = [tuple(e) for e in ev[:cut] if e[0] in ("msg", "ping", "pong")]
    want = [(d[0], d[1].hex()) + ((d[2],) if d[0] == "msg" else ()) for d in dels]
    if verdict[0] == "more":
        if got != want:
            probs.append((f"{role}/deliveries-differ/wellformed", f"well-formed stream: delivered {got[:6]} expected {want[:6]}"))
        if cut != len(ev) and not case["closing"]:
            probs.append((f"{role}/spurious-failure", f"well-formed stream was answered by {ev[cut]}"))
    else:
        if got[:len(want)] != want or (got_before != want and not case["closing"]):
            probs.append((f"{role}/deliveries-differ/{verdict[0]}", f"delivered {got[:6]} (before reaction {got_before[:6]}) expected {want[:6]}"))
        extra = got[len(want):]
        if verdict[0] == "fail":
            if any(e[0] == "msg" for e in extra):
                probs.append((f"{role}/msg-after-violation", f"message delivered after a {verdict[1]} violation: {extra[:3]}"))
            elif extra:
                probs.append((f"{role}/fbd={case['fbd']}/control-callback-after-violation",
                              f"onPing/onPong fired after the connection was failed ({verdict[1]}): {extra[:3]}"))
        elif extra:
            probs.append((f"{role}/processing-after-close-frame", f"delivered after the peer's Close frame: {extra[:3]}"))
        # policy
        if verdict[0] == "fail":
            cls = verdict[1]
            if case["fbd"]:
                if ["drop", True] not in ev or any(e[0] == "sendclose" for e in ev) and not case["closing"]:
                    probs.append((f"{role}/policy/drop", f"{cls} violation with failByDrop: expected abort, got {ev[cut:cut + 3]}"))
                if result["close"] is not None and result["close"][0] is not False:
                    probs.append((f"{role}/policy/unclean", f"{cls} violation with failByDrop reported wasClean={result['close'][0]}"))
            elif not case["closing"]:
                closes = [e for e in ev if e[0] == "sendclose"]
                if not closes or closes[0][1] != FAIL_CODE[cls]:
                    probs.append((f"{role}/policy/close-code/{cls}", f"{cls} violation: expected close {FAIL_CODE[cls]}, wrote {closes[:1]}"))
        else:
            # valid Close frame: reply (when we had not sent one) and a clean report with the peer's code
            if not case["closing"]:
                closes = [e for e in ev if e[0] == "sendclose"]
                want_code = verdict[1] if case["echo"] else 1000
                if not closes or closes[0][1] != want_code:
                    probs.append((f"{role}/close-reply", f"valid close {verdict[1]}: reply {closes[:1]}"))
            if result["close"] is not None and (result["close"][0] is not True or result["close"][1] != verdict[1]):
                if after_close and role == "client":
                    probs.append((f"{role}/processing-after-close-frame",
                                  f"frames after the peer's Close frame changed the report: close {verdict[1]} then onClose{tuple(result['close'])}"))
                else:
                    probs.append((f"{role}/close-report", f"valid close {verdict[1]}: onClose{tuple(result['close'])}"))
    # pong echo: while OPEN (before any reaction) every ping is answered by a pong with the same payload, in order
    if not case["closing"]:
        pings = [e[1] for e in ev[:cut] if e[0] == "ping"]
        pongs = [e[1] for e in ev[:cut] if e[0] == "sendpong"]
        if pings != pongs:
            probs.append((f"{role}/pong-echo", f"pings {pings[:4]} answered by pongs {pongs[:4]}"))
        # each pong directly follows its ping
        for k, e in enumerate(ev[:cut]):
            if e[0] == "ping" and (k + 1 >= len(ev) or ev[k + 1] != ["sendpong", e[1]]):
                probs.append((f"{role}/pong-echo/order", f"ping {e[1]} not directly answered"))
                break
    # C16: no delivered message above the configured limit
    if case["max_msg"] > 0 and any(e[0] == "msg" and len(e[1]) // 2 > case["max_msg"] for e in ev):
        probs.append((f"{role}/oversize-delivery", "message above maxMessagePayloadSize delivered"))
    return probs


# ======================================================================================================
# Driving the real code
# ======================================================================================================

def canon_log(log, wsdrv):
    """the octets written are ONE stream: frames are parsed across write() calls (chopped / queued writes put a frame on
    the wire in pieces), each frame is reported at the write that completes it"""
    ev = []
    buf = b""
    for e in log:
        k = e[0]
        if k == "write":
            buf += bytes.fromhex(e[1])
            try:
                frames, buf = wsdrv.parse_frames(buf)
            except ValueError:
                frames = []
                ev.append(["sendraw", buf.hex()[:64]])
                buf = b""
            for f in frames:
                if f["opcode"] == 10 and f["fin"] and f["rsv"] == 0:
                    ev.append(["sendpong", f["payload"].hex()])
                elif f["opcode"] == 8 and f["fin"] and f["rsv"] == 0:
                    p = f["payload"]
                    ev.append(["sendclose", int.from_bytes(p[:2], "big") if len(p) >= 2 else None,
                               p[2:].hex() if len(p) > 2 else None])
                else:
                    ev.append(["sendframe", f["opcode"], f["fin"], f["rsv"], f["length"]])
        elif k in ("msg",):
            ev.append(["msg", e[1], bool(e[2])])
        elif k in ("ping", "pong"):
            ev.append([k, e[1]])
        elif k == "lose":
            ev.append(["drop", False])
        elif k == "abort":
            ev.append(["drop", True])
        elif k == "escaped":
            ev.append(["escaped", e[1]])
        elif k == "raised":
            ev.append(["raised", e[1]])
        elif k == "close":
            pass
    if buf:
        ev.append(["sendraw", buf.hex()[:64]])
    return ev


_ENV = None


def env_for(fw):
    global _ENV
    if _ENV is None:
        import wsdrv
        _ENV = (wsdrv, wsdrv.Env(fw))
    return _ENV


# ---------- the three receive APIs ----------
#
# "message":   the application overrides onMessage only (what every other case of this driver does)
# "frame":     the application overrides onMessageBegin / onMessageFrame / onMessageEnd
# "streaming": the application overrides onMessageBegin / onMessageFrameBegin / onMessageFrameData /
#              onMessageFrameEnd / onMessageEnd
# The overrides are shaped like the shipped examples (examples/*/websocket/streaming/frame_based_server.py and
# streaming_server.py): onMessageBegin and onMessageFrameBegin chain to the base class, the other hooks do NOT.
# What the application has seen when its onMessageEnd runs is reported through the observer's onMessage, so that
# the event log has the same form under the three APIs.

def _hook(self, name, n=0):
    """every application hook call is recorded in the connection's log, in order with the octets written"""
    lg = getattr(self, "_app_log", None)
    if lg is not None:
        lg.append(["hook", name, n])


class FrameApi:
    def onMessageBegin(self, isBinary):
        _hook(self, "onMessageBegin")
        super().onMessageBegin(isBinary)
        self._app_bin, self._app_parts = isBinary, []

    def onMessageFrame(self, payload):
        _hook(self, "onMessageFrame", sum(len(d) for d in payload))
        for data in payload:
            self._app_parts.append(bytes(data))

    def onMessageEnd(self):
        _hook(self, "onMessageEnd")
        self.onMessage(b"".join(self._app_parts), self._app_bin)
        self._app_parts = None


class StreamingApi:
    def onMessageBegin(self, isBinary):
        _hook(self, "onMessageBegin")
        super().onMessageBegin(isBinary)
        self._app_bin, self._app_parts = isBinary, []

    def onMessageFrameBegin(self, length):
        _hook(self, "onMessageFrameBegin")
        super().onMessageFrameBegin(length)

    def onMessageFrameData(self, payload):
        _hook(self, "onMessageFrameData", len(payload))
        self._app_parts.append(bytes(payload))

    def onMessageFrameEnd(self):
        _hook(self, "onMessageFrameEnd")

    def onMessageEnd(self):
        _hook(self, "onMessageEnd")
        self.onMessage(b"".join(self._app_parts), self._app_bin)
        self._app_parts = None


API_MIXINS = {None: None, "message": None, "frame": FrameApi, "streaming": StreamingApi}

# every scalar option of the two factories; the effective value is read from the PROTOCOL after the handshake
OPTION_VECTOR = {
    "common": ["utf8validateIncoming", "applyMask", "maxFramePayloadSize", "maxMessagePayloadSize",
               "autoFragmentSize", "failByDrop", "echoCloseCodeReason", "openHandshakeTimeout",
               "closeHandshakeTimeout", "tcpNoDelay", "autoPingInterval", "autoPingTimeout", "autoPingSize",
               "autoPingRestartOnAnyTraffic"],
    "server": ["requireMaskedClientFrames", "maskServerFrames", "webStatus", "serveFlashSocketPolicy",
               "allowNullOrigin", "maxConnections", "trustXForwardedFor"],
    "client": ["acceptMaskedServerFrames", "maskClientFrames", "serverConnectionDropTimeout"],
}


def run_config(fw, case):
    """configuration plumbing: apply the given setProtocolOptions() calls one after the other to a fresh factory,
    connect, complete the opening handshake, and report the options the protocol object works with"""
    wsdrv, env = env_for(fw)
    role = case["role"]
    conn = env.connect(role, options=None)
    for kw in case["config_calls"]:
        conn.factory.setProtocolOptions(**kw)
    conn.handshake()
    assert conn.state() == "OPEN", conn.state()
    vec = {}
    for k in case.get("config_vector") or (OPTION_VECTOR["common"] + OPTION_VECTOR[role]):
        v = getattr(conn.proto, k, "<missing>")
        vec[k] = v if isinstance(v, (bool, int, float, str)) or v is None else repr(v)
    conn.lost(clean=True)
    return {"options": vec}


def make_conn(fw, case):
    wsdrv, env = env_for(fw)
    role = case["role"]
    opts = dict(failByDrop=case["fbd"], utf8validateIncoming=case["utf8"], applyMask=case["apply_mask"],
                maxFramePayloadSize=case["max_frame"], maxMessagePayloadSize=case["max_msg"],
                echoCloseCodeReason=case["echo"], openHandshakeTimeout=0, closeHandshakeTimeout=0)
    extra = b""
    if role == "server":
        opts["requireMaskedClientFrames"] = case["mask_opt"]
    else:
        opts["acceptMaskedServerFrames"] = case["mask_opt"]
        opts["serverConnectionDropTimeout"] = 0
    if case["pmc"]:
        from autobahn.websocket.compress import (PerMessageDeflateOffer, PerMessageDeflateOfferAccept,
                                                 PerMessageDeflateResponse, PerMessageDeflateResponseAccept)
        mx = case.get("pmc_max")
        # negotiated parameters (RFC 7692 section 7.1): {"server_nct", "client_nct": bool, "server_mwb", "client_mwb": 0 | 9..15}
        pp = dict(dict(server_nct=False, client_nct=False, server_mwb=0, client_mwb=0), **(case.get("pmc_params") or {}))
        if role == "server":
            # the peer (client) offers everything; we accept with the parameters of the case
            def accept(offers):
                for o in offers:
                    if isinstance(o, PerMessageDeflateOffer):
                        return PerMessageDeflateOfferAccept(o, request_no_context_takeover=pp["client_nct"],
                                                            request_max_window_bits=pp["client_mwb"],
                                                            no_context_takeover=pp["server_nct"] or None,
                                                            window_bits=pp["server_mwb"] or None, max_message_size=mx)
            opts["perMessageCompressionAccept"] = accept
            hdr = "permessage-deflate; client_max_window_bits"
            if pp["server_nct"]:
                hdr += "; server_no_context_takeover"
            if pp["server_mwb"]:
                hdr += "; server_max_window_bits=%d" % pp["server_mwb"]
        else:
            def accept(response):
                if isinstance(response, PerMessageDeflateResponse):
                    return PerMessageDeflateResponseAccept(response, max_message_size=mx)
            opts["perMessageCompressionOffers"] = [PerMessageDeflateOffer(accept_no_context_takeover=True, accept_max_window_bits=True,
                                                                          request_no_context_takeover=pp["server_nct"],
                                                                          request_max_window_bits=pp["server_mwb"])]
            opts["perMessageCompressionAccept"] = accept
            # the peer's (server's) response carries the parameters of the case
            hdr = "permessage-deflate"
            if pp["client_nct"]:
                hdr += "; client_no_context_takeover"
            if pp["server_nct"]:
                hdr += "; server_no_context_takeover"
            if pp["client_mwb"]:
                hdr += "; client_max_window_bits=%d" % pp["client_mwb"]
            if pp["server_mwb"]:
                hdr += "; server_max_window_bits=%d" % pp["server_mwb"]
        extra = b"Sec-WebSocket-Extensions: " + hdr.encode() + b"\r\n"
    style = case.get("config_style")
    if style in ("each", "each-rev"):
        # one setProtocolOptions() call per option, in the order written above or reversed
        conn = env.connect(role, options=None, protocol_mixin=API_MIXINS[case.get("api")])
        for k in (list(opts) if style == "each" else list(reversed(list(opts)))):
            conn.factory.setProtocolOptions(**{k: opts[k]})
    else:
        conn = env.connect(role, options=opts, protocol_mixin=API_MIXINS[case.get("api")])
    conn.proto._app_log = conn.log
    conn.handshake(extra_headers=extra)
    conn.config_mismatch = {k: [v, getattr(conn.proto, k, "<missing>")] for k, v in opts.items()
                            if isinstance(v, (bool, int)) and getattr(conn.proto, k, "<missing>") != v}
    assert (conn.proto._perMessageCompress is not None) == bool(case["pmc"]), "compression negotiation failed"
    if case["pmc"] and case.get("pmc_params"):
        z = conn.proto._perMessageCompress
        got = dict(server_nct=bool(z.server_no_context_takeover), client_nct=bool(z.client_no_context_takeover),
                   server_mwb=z.server_max_window_bits, client_mwb=z.client_max_window_bits)
        want = dict(pp, server_mwb=pp["server_mwb"] or 15, client_mwb=pp["client_mwb"] or 15)
        assert got == want, "negotiated %r, wanted %r" % (got, want)
    if case.get("factory_after"):
        # the application reconfigures the FACTORY while this connection is up: that is for connections made later; this one
        # keeps the options it was made with (they were copied to the protocol when the connection was made)
        conn.factory.setProtocolOptions(**case["factory_after"])
    if case["closing"]:
        conn.call("sendClose", 1000)
        assert conn.state() == "CLOSING"
    return wsdrv, conn


def retained_octets(proto):
    """octets the protocol object holds on to: the receive buffer and the frame / message / control-frame payload
    collected so far (read defensively: the attributes come and go with the receive state)"""
    def size(x):
        if x is None:
            return 0
        if isinstance(x, (bytes, bytearray, memoryview)):
            return len(x)
        try:
            return sum(size(y) for y in x)
        except TypeError:
            return 0
    return {k: size(getattr(proto, k, None)) for k in ("data", "frame_data", "message_data", "control_frame_data")}


# ---------- the send APIs ----------

def send_payload(op):
    """deterministic payload of a send operation: "flat" compresses to a few octets, "noise" does not compress"""
    n = op["len"]
    if op["kind"] == "noise":
        import random
        return random.Random(1000003 * n + op.get("seed", 0)).randbytes(n)
    return bytes(0x41 + ((i // 7 + op.get("seed", 0)) % 3) for i in range(n))


def run_sends(wsdrv, conn, ops):
    """perform the send operations one after the other; per operation: what it raised (class name or None) and the
    octets it wrote.  Then read ALL octets written the way a peer does: an independent frame parser, and, for
    messages with RSV1, ONE raw-deflate inflater for the whole connection (context takeover is on by default)."""
    import zlib
    out, wire = [], b""
    pmce = conn.proto._perMessageCompress
    produced = [0]
    if pmce is not None:
        # how many octets the real compressor produces per operation (also for a refused one)
        for name in ("compress_message_data", "end_compress_message"):
            def rec(*a, _orig=getattr(pmce, name)):
                r = _orig(*a)
                produced[0] += len(r)
                return r
            setattr(pmce, name, rec)
    for op in ops:
        payload = send_payload(op)
        binary = bool(op.get("binary", True))
        n0 = len(conn.log)
        produced[0] = 0
        api = op["api"]
        if api == "message":
            kw = {}
            if op.get("fragment"):
                kw["fragmentSize"] = op["fragment"]
            if op.get("dnc"):
                kw["doNotCompress"] = True
            conn.call("sendMessage", payload, binary, **kw)
        elif api == "prepared":
            try:
                pm = conn.factory.prepareMessage(payload, binary, doNotCompress=bool(op.get("dnc")))
            except BaseException as e:
                conn.log.append(["raised", "prepare:" + type(e).__name__, str(e)[:200]])
                pm = None
            if pm is not None:
                conn.call("sendPreparedMessage", pm)
        elif api == "frames":
            # frame-wise sending: beginMessage / sendMessageFrame ... / endMessage
            conn.call("beginMessage", binary)
            k = max(1, op.get("fragment") or len(payload) or 1)
            for i in range(0, max(1, len(payload)), k):
                conn.call("sendMessageFrame", payload[i:i + k])
            conn.call("endMessage")
        elif api == "framedata":
            # frame-wise sending, streamed frame payload: beginMessage / beginMessageFrame(n) / sendMessageFrameData ... / endMessage
            conn.call("beginMessage", binary)
            conn.call("beginMessageFrame", len(payload))
            k = max(1, op.get("fragment") or len(payload) or 1)
            for i in range(0, max(1, len(payload)), k):
                conn.call("sendMessageFrameData", payload[i:i + k])
            conn.call("endMessage")
        else:
            raise ValueError(api)
        raised = [e[1] for e in conn.log[n0:] if e[0] in ("raised", "escaped")]
        written = b"".join(bytes.fromhex(e[1]) for e in conn.log[n0:] if e[0] == "write")
        wire += written
        try:
            wf = [f for f in wsdrv.parse_frames(written)[0] if f["opcode"] < 8]
        except ValueError:
            wf = []
        out.append({"raised": raised[0] if raised else None, "wrote": len(written), "payload": payload.hex(),
                    "comp_len": produced[0], "rsv1": bool(wf and wf[0]["rsv"] & 4), "wire_len": sum(f["length"] for f in wf),
                    "compressor_none": pmce is None or getattr(pmce, "_compressor", None) is None})
    peer, err = [], None
    try:
        frames, rest = wsdrv.parse_frames(wire)
        if rest:
            err = "incomplete frame at the end of the octets written"
    except ValueError as e:
        frames, err = [], "unparsable frame: %s" % e
    inflater = zlib.decompressobj(-15)
    cur = None
    for f in frames:
        if err:
            break
        if f["opcode"] in (1, 2):
            if cur is not None:
                err = "new data frame inside a fragmented message"
                break
            cur = {"bin": f["opcode"] == 2, "rsv1": bool(f["rsv"] & 4), "data": b""}
            if f["rsv"] & 3:
                err = "RSV2/RSV3 set"
                break
        elif f["opcode"] == 0:
            if cur is None:
                err = "continuation frame outside a message"
                break
            if f["rsv"]:
                err = "RSV set on a continuation frame"
                break
        else:
            continue                   # control frames are not the subject here
        cur["data"] += f["payload"]
        if f["fin"]:
            data = cur["data"]
            if cur["rsv1"]:
                try:
                    data = inflater.decompress(data + b"\x00\x00\xff\xff")
                except zlib.error as e:
                    err = "the peer's inflater fails: %s" % e
                    break
            peer.append([data.hex(), cur["bin"]])
            cur = None
    if cur is not None and not err:
        err = "unfinished message at the end of the octets written"
    return {"ops": out, "peer": peer, "peer_error": err}


class Run:
    """one connection of a case: opened (handshake done, options set, optional pending writes), fed, finished"""
    def __init__(self, fw, case):
        self.case = case
        self.wsdrv, self.conn = make_conn(fw, case)
        conn = self.conn
        self.env = env_for(fw)[1]
        self.n_pre = len(conn.log)
        pw = case.get("pending_writes")
        self.pending = 0
        if pw:
            # the application has writes in the queue for synchronous / chopped sending (protocol.py sendData / _send): the
            # first goes out at once, the others wait for the reactor
            for i in range(pw["count"]):
                payload = bytes((i + 65,)) * pw["size"]
                if pw["mode"] == "sync":
                    conn.call("sendMessage", payload, True, sync=True)
                else:
                    conn.call("sendFrame", 2, payload, chopsize=pw.get("chop", 3))
            self.pending = pw["count"]
        self.n0 = len(conn.log)
        self.tape = []
        pmce = conn.proto._perMessageCompress
        if pmce is not None:
            orig = pmce.decompress_message_data

            self.codec_raised = []

            def rec(data, _orig=orig):
                try:
                    out = _orig(data)
                except Exception as e:
                    self.codec_raised.append(type(e).__name__)
                    raise
                self.tape.append(bytes(out).hex())
                return out
            pmce.decompress_message_data = rec
            orig_end = pmce.end_decompress_message

            def rec_end(_orig=orig_end):
                try:
                    return _orig()
                except Exception as e:
                    self.codec_raised.append(type(e).__name__)
                    raise
            pmce.end_decompress_message = rec_end

    def drain(self):
        """the reactor gets its turns: the write queue (one entry per turn, _QUEUED_WRITE_DELAY apart) drains"""
        for _ in range(400):
            if not len(self.conn.proto.send_queue) and not self.conn.proto.triggered:
                break
            self.env.advance(0.001)

    def finish(self):
        case, conn, wsdrv, n0 = self.case, self.conn, self.wsdrv, self.n0
        if case.get("pending_writes"):
            self.drain()
        retained = retained_octets(conn.proto) if case.get("observe_retained") else None
        if "send" in case:
            conn.call("sendMessage", b"x" * case["send"]["len"], bool(case["send"]["binary"]))
        ev = canon_log(conn.log[self.n_pre:], wsdrv)      # from before the queued writes: the octets written are one stream
        pending_written = None
        if case.get("pending_writes"):
            # the application's own queued data frames are not the receiver's reaction: taken out of the event list and
            # reported on their own (how many complete ones reached the wire, and whether any came after our close frame)
            size = case["pending_writes"]["size"]
            closed, nw, after = False, 0, 0
            keep = []
            for e in ev:
                if e[0] == "sendclose":
                    closed = True
                if e[0] == "sendframe" and e[1] == 2 and e[4] == size:
                    nw += 1
                    after += closed
                else:
                    keep.append(e)
            ev = keep
            pending_written = {"written": nw, "after_close": after, "queued": self.pending}
        # application hooks (frame-based / streaming receive API) called after WE ended the conversation: after the first
        # close frame written or the transport dropped
        hooks_after, ended = [], False
        for e in conn.log[n0:]:
            if e[0] in ("lose", "abort"):
                ended = True
            elif e[0] == "write" and not ended:
                try:
                    ended = any(f["opcode"] == 8 for f in wsdrv.parse_frames(bytes.fromhex(e[1]))[0])
                except ValueError:
                    pass
            elif e[0] == "hook" and ended:
                hooks_after.append([e[1], e[2]])
        sends = run_sends(wsdrv, conn, case["sends"]) if "sends" in case else None
        state = conn.state()
        close = None
        if not case.get("nolost"):
            n1 = len(conn.log)
            conn.lost(clean=True)
            for e in conn.log[n1:]:
                if e[0] == "close":
                    close = [e[1], e[2], e[3] if e[3] is None or e[1] else "-"]
                elif e[0] == "escaped":
                    ev.append(["escaped", e[1]])
        res = {"events": ev, "state": state, "close": close, "tape": self.tape}
        if getattr(self, "codec_raised", None):
            res["codec_raised"] = self.codec_raised
        if retained is not None:
            res["retained"] = retained
        if sends is not None:
            res["sends"] = sends
        if conn.config_mismatch:
            res["config_mismatch"] = conn.config_mismatch
        if hooks_after:
            res["hooks_after_failure"] = hooks_after
        if pending_written is not None:
            res["pending_written"] = pending_written
        return res


def run_case(fw, case):
    if "config_calls" in case:
        return run_config(fw, case)
    if "xconn" in case:
        return run_xconn(fw, case)
    r = Run(fw, case)
    chunks = [bytes.fromhex(c) for c in case["chunks"]]
    if case.get("burst"):
        r.conn.feed_burst(chunks)        # asyncio: all data_received() calls first, then ONE loop turn
    else:
        for c in chunks:
            r.conn.feed(c)
            if case.get("pending_writes"):
                r.drain()
    return r.finish()


class CaseTimeout(BaseException):
    pass


_TIMEOUTS = [0]


def guarded_case(fw, case):
    """run_case under a watchdog: a receive loop that never returns (e.g. receive state gone wrong) is interrupted; the
    interruption shows up as ["escaped", "CaseTimeout"] on the connection that was being fed.  First hang of a process:
    20 s, later ones 4 s; after 3 hangs the remaining multi-connection cases of the process are skipped."""
    import signal
    if _TIMEOUTS[0] >= 3 and "xconn" in case:
        return {"skipped": True}

    def on_alarm(signum, frame):
        _TIMEOUTS[0] += 1
        raise CaseTimeout("the case did not finish in time")
    signal.signal(signal.SIGALRM, on_alarm)
    t = 20.0 if _TIMEOUTS[0] == 0 else 4.0
    signal.setitimer(signal.ITIMER_REAL, t, 4.0)
    try:
        return run_case(fw, case)
    except CaseTimeout:
        hung = {"events": [["escaped", "CaseTimeout"]], "state": "?", "close": None, "tape": []}
        return {"xconn": [hung for _ in case["xconn"]]} if "xconn" in case else hung
    finally:
        signal.setitimer(signal.ITIMER_REAL, 0)


def run_xconn(fw, case):
    """several connections in ONE process (one reactor / event loop, one set of classes): case["xconn"] = the
    connections' cases (their "chunks" are the reads of each), case["schedule"] = the order in which the reads happen, as
    connection indices.  Result: one ordinary result per connection."""
    runs = [Run(fw, c) for c in case["xconn"]]
    nxt = [0] * len(runs)
    for i in case["schedule"]:
        c = runs[i].case["chunks"][nxt[i]]
        nxt[i] += 1
        runs[i].conn.feed(bytes.fromhex(c))
    assert all(n == len(r.case["chunks"]) for n, r in zip(nxt, runs)), "schedule does not cover all reads"
    return {"xconn": [r.finish() for r in runs]}


# ---------- header sweep ----------

def header_stream(h, role_masks_expected=None):
    b0, b1 = h >> 8, h & 255
    len7 = b1 & 127
    ext = 0 if len7 <= 125 else (2 if len7 == 126 else 8)
    return bytes([b0, b1]) + b"\x00" * (ext + (4 if b1 & 128 else 0))


def sweep_context(args):
    fw, ctx, headers = args
    table, index, runs, problems = [], {}, [], []
    prev = None
    for h in headers:
        pre = []
        if ctx["inside"]:
            # a non-final text frame 'a' (masked with a zero key when the receiver is a server that requires masks,
            # unmasked for a client)
            pre = ["018100000000" + "61"] if ctx["role"] == "server" else ["010161"]
        case = dict(ctx, chunks=pre + [header_stream(h).hex()])
        res = run_case(fw, case)
        for key, what in check_against_rfc(case, res):
            if len(problems) < 50:
                problems.append({"key": key, "what": what, "case": case, "result": res})
        sig = json.dumps([res["events"], res["state"], res["close"]])
        k = index.get(sig)
        if k is None:
            k = index[sig] = len(table)
            table.append({"events": res["events"], "state": res["state"], "close": res["close"]})
        if prev is not None and prev[2] == k and prev[1] + 1 == h:
            prev[1] = h
        else:
            prev = [h, h, k]
            runs.append(prev)
    return {"ctx": ctx, "table": table, "runs": runs, "problems": problems, "n": len(headers)}


def main():
    inp = json.load(open(sys.argv[1]))
    fw = inp["fw"]
    if os.environ.get("AUTOBAHN_USE_NVX") == "1":
        import nvxbuild                # freshly compiled NVX (UTF-8 validator, masker) from the tree under test
        nvxbuild.ensure()
        import autobahn.websocket as aw
        assert aw.USES_NVX, "NVX requested but not in use"
    out = {}
    env_for(fw)                       # select the framework before any fork
    if "cases" in inp:
        out["results"] = [guarded_case(fw, c) for c in inp["cases"]]
    if "sweep" in inp:
        sw = inp["sweep"]
        headers = sw["headers"] if sw.get("headers") is not None else list(range(65536))
        jobs = []
        # split every context into slices so that 16 workers stay busy
        nsl = max(1, int(sw.get("slices", 4)))
        for ctx in sw["contexts"]:
            step = (len(headers) + nsl - 1) // nsl
            for a in range(0, len(headers), step):
                jobs.append((fw, ctx, headers[a:a + step]))
        procs = int(sw.get("procs", 16))
        if procs > 1:
            import multiprocessing
            with multiprocessing.get_context("fork").Pool(min(procs, 16)) as pool:
                parts = pool.map(sweep_context, jobs, chunksize=1)
        else:
            parts = [sweep_context(j) for j in jobs]
        out["sweep"] = parts
    json.dump(out, open(sys.argv[2], "w"))


if __name__ == "__main__":
    main()
