"""C04 / C06 implementation driver: runs op histories against the REAL autobahn ApplicationSession
(tree under test = $AV_REPO, default /repo; ck.run_impl puts $AV_REPO/src first on PYTHONPATH) on a virtual
clock / loop, one framework per process, and returns for every op the ordered list of observable events in a
canonical form that mirrors the constructors of coq/Model/Session.v ([out]).

input  : {"fw": "tx"|"aio", "cases": [{"cfg": {...}, "ops": [[name, ...], ...]}, ...]}
output : {"results": [{"trace": [[event, ...] per op], "futures": {label: state}, "tables": {...}} ...], "hist": {...}}

ops: ["inline", api_op, router_msg] = the router message is delivered re-entrantly from inside transport.send() of
the request (loopback / in-process router link); transport events (open / lost / turn), user API (call / publish / subscribe / register /
unsubscribe j / unregister j / cancel j / leave / disconnect; j = index of the j-th future an API call RETURNED),
router messages as wire-level lists parsed by the real message classes.

Nothing here changes the code under test: user behaviour comes from a mixin class (overridable callbacks), the
transport is a fake ITransport defined below, time is wampdrv's virtual clock / loop.
"""
import gc
import json
import os
import sys

sys.path.insert(0, os.path.dirname(os.path.abspath(__file__)))
import wampdrv            # noqa: E402  (silences bjdata, provides Env / Sess / canon / parse)
import txaio              # noqa: E402

inp = json.load(open(sys.argv[1]))
FW = inp["fw"]
env = wampdrv.Env(FW)

import autobahn                                           # noqa: E402
_want = os.path.realpath(os.path.join(os.environ.get("AV_REPO", "/repo"), "src", "autobahn"))
_got = os.path.realpath(os.path.dirname(autobahn.__file__))
assert _got == _want, f"autobahn imported from {_got}, expected {_want}"

from autobahn.wamp import message, types, exception, request as wreq     # noqa: E402
from autobahn.wamp.exception import TransportLost                        # noqa: E402

REASONS = {"normal": "wamp.close.normal", "lost": "wamp.close.transport_lost",
           "noauth": "wamp.error.cannot_authenticate"}
REASONS_INV = {v: k for k, v in REASONS.items()}
# free text the router may put into GOODBYE / ABORT details["message"] (optional third element of the op: an index).
# The session must treat it as data: none of the checked behaviour depends on it (the model has no such field).
MESSAGES = [None, "going down for maintenance", 'bad request {"x": 1}', "{", "}", "{0} {reason} {message!r} {nope}",
            "100% %s %(x)d", "{log_time} {log_level}", "\u00e4\u20ac {} {{}}"]


def close_details(o):
    return {} if len(o) < 3 or o[2] is None else {"message": MESSAGES[o[2] % len(MESSAGES)]}
MATCH = {0: "exact", 1: "prefix", 2: "wildcard"}
INVOKE = {0: "single", 1: "first", 2: "last", 3: "roundrobin", 4: "random"}


def uri(n):
    return f"com.u{n}"


def uri_inv(s):
    assert isinstance(s, str) and s.startswith("com.u"), s
    return int(s[5:])


def reason(r):
    return REASONS[r] if isinstance(r, str) else f"wamp.r{r}"


def reason_inv(s):
    if s in REASONS_INV:
        return REASONS_INV[s]
    assert isinstance(s, str) and s.startswith("wamp.r"), s
    return int(s[6:])


def kw_dict(kw):
    return {f"k{k}": v for k, v in kw}


def kw_inv(d):
    d = d or {}
    for k in d:
        assert k.startswith("k"), k
    return sorted([int(k[1:]), v] for k, v in d.items())


def exn_name(e):
    n = type(e).__name__
    return n if n in ("ProtocolError", "TransportLost", "TypeError", "AttributeError", "Exception", "KeyError",
                      "SerializationError", "PayloadExceededError") else "Other:" + n


class UserRaise(Exception):
    pass


# ---- messages handed to ITransport.send(): attributes of the message OBJECT ------------------------------------------
def _only(msg, allowed):
    """fail closed: every slot outside `allowed` must be None/False/empty"""
    for cls in type(msg).__mro__:
        for sl in getattr(cls, "__slots__", ()):
            name = sl.lstrip("_")
            if name in allowed or name in ("from_fbs", "serialized", "correlation_id", "correlation_uri",
                                           "correlation_is_anchor", "correlation_is_last"):
                continue
            v = getattr(msg, name, None)
            if v not in (None, False) and v != {} and v != [] and v != ():
                raise AssertionError(f"unexpected attribute {name}={v!r} on {type(msg).__name__}")


def canon_msg(msg):
    if isinstance(msg, message.Hello):
        return ["hello"]
    if isinstance(msg, message.Authenticate):
        return ["authenticate"]
    if isinstance(msg, message.Abort):
        return ["abort", reason_inv(msg.reason)]
    if isinstance(msg, message.Goodbye):
        _only(msg, {"reason", "message"})
        return ["goodbye", reason_inv(msg.reason)]
    if isinstance(msg, message.Publish):
        _only(msg, {"request", "topic", "args", "kwargs", "acknowledge", "exclude_me"})
        return ["publish", msg.request, uri_inv(msg.topic), list(msg.args or ()), kw_inv(msg.kwargs), msg.acknowledge,
                msg.exclude_me]
    if isinstance(msg, message.Subscribe):
        _only(msg, {"request", "topic", "match", "get_retained"})
        return ["subscribe", msg.request, uri_inv(msg.topic), msg.match, msg.get_retained]
    if isinstance(msg, message.Unsubscribe):
        _only(msg, {"request", "subscription"})
        return ["unsubscribe", msg.request, msg.subscription]
    if isinstance(msg, message.Call):
        _only(msg, {"request", "procedure", "args", "kwargs", "timeout", "receive_progress"})
        return ["call", msg.request, uri_inv(msg.procedure), list(msg.args or ()), kw_inv(msg.kwargs), msg.timeout,
                bool(msg.receive_progress)]
    if isinstance(msg, message.Cancel):
        _only(msg, {"request"})
        return ["cancel", msg.request]
    if isinstance(msg, message.Register):
        _only(msg, {"request", "procedure", "match", "invoke"})
        return ["register", msg.request, uri_inv(msg.procedure), msg.match, msg.invoke]
    if isinstance(msg, message.Unregister):
        _only(msg, {"request", "registration"})
        return ["unregister", msg.request, msg.registration]
    if isinstance(msg, message.Yield):
        return ["yield", msg.request]
    return ["othermsg", type(msg).__name__]


class Transport:
    """fake ITransport.  lenient=False: send() raises TransportLost once close() was called (like wampdrv.FakeTransport;
    the WebSocket transport raises Disconnected from sendMessage() in CLOSING state); lenient=True: like the RawSocket
    transports: isOpen() stays true until the connection is lost and a send() after close() is accepted (the octets
    go to a closing socket)."""
    def __init__(self, log, lenient):
        self.log, self.lenient = log, lenient
        self.closed = False      # close() called
        self.lost = False
        self.inline = None       # one-shot: router reply delivered re-entrantly from inside send() (loopback link)
        self.fail_next = None    # one-shot: send() of the next request message raises this exception
        self.transport_details = types.TransportDetails()
        self.is_closed = txaio.create_future()
        from autobahn.wamp.serializer import JsonSerializer
        self._serializer = JsonSerializer()

    def send(self, msg):
        m = canon_msg(msg)
        if self.fail_next is not None and m[0] in ("publish", "subscribe", "unsubscribe", "call", "register", "unregister"):
            e, self.fail_next = self.fail_next, None
            self.log.append(["sendfailed", m])
            raise e
        if not self.closed and not self.lost:
            self.log.append(["sent", m])
            if self.inline is not None and m[0] in ("publish", "subscribe", "unsubscribe", "call", "register", "unregister"):
                deliver, self.inline = self.inline, None
                deliver()          # the reply is processed by session.onMessage while the API call is still in send()
        elif self.lenient and not self.lost:
            self.log.append(["dropped", m])
        else:
            self.log.append(["sendfailed", m])
            raise TransportLost()

    def isOpen(self):
        return not self.lost and (self.lenient or not self.closed)

    def close(self):
        self.log.append(["tclose"])
        self.closed = True

    def abort(self):
        self.log.append(["tabort"])
        self.closed = True

    def get_channel_id(self, t="tls-unique"):
        return None


def make_mixin(cfg, log):
    class Mixin:
        def onConnect(self):
            if cfg["connect"] == "raise":
                raise UserRaise("onConnect")
            return super().onConnect()

        def onWelcome(self, msg):
            log.append(["called", ["welcome"]])
            if cfg["welcome"] == "raise":
                raise UserRaise("onWelcome")
            if cfg["welcome"] == "deny":
                return "denied by user"
            return super().onWelcome(msg)

        def onChallenge(self, challenge):
            log.append(["called", ["challenge"]])
            if cfg["challenge"] == "sig":
                return "signature"
            if cfg["challenge"] == "none":
                return None
            return super().onChallenge(challenge)     # default: raises RuntimeError

        def onJoin(self, details):
            if cfg["join_raises"]:
                raise UserRaise("onJoin")
            return super().onJoin(details)

        def onLeave(self, details):
            log.append(["called", ["leave", reason_inv(details.reason), self._session_id]])
            if cfg["leave_super"]:
                r = super().onLeave(details)
                if cfg["leave_raises"]:
                    raise UserRaise("onLeave")
                return r
            if cfg["leave_raises"]:
                raise UserRaise("onLeave")

        def onDisconnect(self):
            if cfg["disc_super"]:
                r = super().onDisconnect()
                if cfg["disc_raises"]:
                    raise UserRaise("onDisconnect")
                return r
            if cfg["disc_raises"]:
                raise UserRaise("onDisconnect")
    return Mixin


def canon_result(kind, ok, v):
    """result of a request future -> constructors of Model/Session.v [result]"""
    if ok:
        if isinstance(v, types.CallResult):
            return ["ok", ["callresult", list(v.results), kw_inv(v.kwresults)]]
        if isinstance(v, wreq.Publication):
            return ["ok", ["publication", v.id]]
        if isinstance(v, wreq.Subscription):
            return ["ok", ["subscription", v.id]]
        if isinstance(v, wreq.Registration):
            return ["ok", ["registration", v.id]]
        if v is None:
            return ["ok", ["none"]]
        if isinstance(v, int) and not isinstance(v, bool):
            if kind == "unsubscribe":
                return ["ok", ["zero"] if v == 0 else ["count", v]]
            return ["ok", ["single", v]]
        return ["ok", ["othervalue", type(v).__name__]]
    e = v.value if hasattr(v, "value") and isinstance(v.value, BaseException) else v
    if isinstance(e, TransportLost):
        return ["err", ["transportlost"]]
    if type(e).__name__ == "CancelledError":
        return ["err", ["cancelled"]]
    if isinstance(e, exception.ApplicationError):
        u = e.error
        if isinstance(u, str) and u.startswith("com.u"):
            return ["err", ["app", uri_inv(u), list(e.args), kw_inv(e.kwargs)]]
        return ["err", ["leave", reason_inv(u)]]
    return ["err", ["othererror", type(e).__name__]]


class _LazyLog:
    """the mixin is built before wampdrv.Sess creates its log list; appends are forwarded to that list"""
    def __init__(self):
        self.target = None

    def append(self, x):
        self.target.append(x)


BY_CFG = {"connect": "join", "welcome": "none", "challenge": "raise", "join_raises": False, "leave_super": True,
          "leave_raises": False, "disc_super": True, "disc_raises": False, "lenient": False}


class Bystander:
    """a SECOND session object in the same process (cfg["bystander"]: 1 = joined, 2 = connected, onConnect does not
    join): it has one pending request of four kinds before the history under test starts and gets no event during it.
    Afterwards nothing about it may have changed (session objects share no state): check() lists what did."""
    def __init__(self, mode):
        from autobahn.wamp.types import PublishOptions
        self.b = env.session(mixin=make_mixin(dict(BY_CFG, connect="join" if mode == 1 else "raise"), []), auto_turn=False)
        s = self.b.s
        s.onOpen(self.b.t)
        self.settle()
        if mode == 1:
            s.onMessage(wampdrv.parse([2, 777, {"roles": {"broker": {"features": {}}, "dealer": {"features": {}}}}]))
            self.settle()
        self.sid = s._session_id
        self.futs = [s.call("com.by.proc", 1), s.subscribe(lambda *a, **k: None, "com.by.topic"),
                     s.publish("com.by.topic", 1, options=PublishOptions(acknowledge=True)),
                     s.register(lambda *a, **k: None, "com.by.proc2")]
        self.settle()
        self.nlog = len(self.b.log)

    @staticmethod
    def settle():
        for _ in range(3):
            env.turn()

    def check(self):
        s, out = self.b.s, []
        done = [i for i, f in enumerate(self.futs) if (txaio.is_called(f) if FW == "tx" else f.done())]
        if done:
            out.append(["future-completed", f"pending futures {done} of the other session object have a result"])
        sizes = [len(s._call_reqs), len(s._subscribe_reqs), len(s._publish_reqs), len(s._register_reqs),
                 len(s._unsubscribe_reqs), len(s._unregister_reqs)]
        if sizes != [1, 1, 1, 1, 0, 0]:
            out.append(["tables", f"request tables of the other session object: {sizes} (call, subscribe, publish, register, "
                                  f"unsubscribe, unregister), expected [1, 1, 1, 1, 0, 0]"])
        if len(self.b.log) != self.nlog:
            out.append(["events", f"the other session object saw {self.b.log[self.nlog:][:4]}"])
        if s._transport is not self.b.t or s._session_id != self.sid:
            out.append(["state", f"transport / session id of the other session object changed ({s._session_id})"])
        try:
            s.call("com.by.proc", 2)
            last = self.b.log[-1]
            if last[0] != "send" or last[1][0] != 48 or last[1][1] != 5:
                out.append(["request-id", f"the fifth request of the other session object went out as {last}"])
        except BaseException as e:       # noqa
            out.append(["request-id", f"the other session object cannot call any more: {exn_name(e)}"])
        return out or None


class Runner:
    def __init__(self, cfg):
        self.cfg = cfg
        lazy = _LazyLog()
        self.sess = env.session(mixin=make_mixin(cfg, lazy), auto_turn=False)
        self.log = lazy.target = self.sess.log       # one ordered log shared by S (wampdrv), the mixin, the transport
        self.t = Transport(self.log, cfg.get("lenient", False))
        self.s = self.sess.s
        self.returned = []           # futures returned by API calls, in order: (future, kind)
        self.objs = {}               # j -> Subscription / Registration object
        self.reacted = set()         # futures that got a re-entering callback
        self._opened = False
        if FW == "aio":
            env.loop.call_exception_handler = self._loop_exc
            del env.loop.exceptions[:]
            del env.loop._ready[:]   # nothing may leak from the previous case
        self.by = Bystander(cfg["bystander"]) if cfg.get("bystander") else None

    def _loop_exc(self, ctx):
        e = ctx.get("exception")
        msg = ctx.get("message", "")
        if "never retrieved" in msg:
            return                     # GC-time report of an unobserved failed future: not an event of the run
        self.log.append(["looperror", exn_name(e) if e is not None else "None"])

    # ---- running one op ----
    def guard(self, where, fn, *a, **kw):
        try:
            return True, fn(*a, **kw)
        except BaseException as e:       # noqa
            self.log.append([where, exn_name(e)])
            return False, None

    def track(self, fut, kind):
        j = len(self.returned)
        self.returned.append((fut, kind))
        self.log.append(["apiret", j])

        def ok(r):
            self.objs[j] = r
            self.log.append(["completed", j, canon_result(kind, True, r)])

        def err(f):
            self.log.append(["completed", j, canon_result(kind, False, f)])
        txaio.add_callbacks(fut, ok, err)
        return j

    def api(self, kind, fn, *a, **kw):
        ok, r = self.guard("apiraised", fn, *a, **kw)
        if ok:
            if r is not None and txaio.is_future(r):
                self.track(r, kind)
            else:
                self.log.append(["apiret", None])

    def obj(self, j):
        """the Subscription/Registration a user holds once future j has its result"""
        if j >= len(self.returned):
            return None
        fut, kind = self.returned[j]
        if j in self.objs:
            return self.objs[j]
        if FW == "aio" and fut.done() and not fut.cancelled() and fut.exception() is None:
            return fut.result()
        return None

    def recv(self, wire):
        msg = wampdrv.parse(wire)
        self.guard("raised", self.s.onMessage, msg)

    def op(self, o):
        name = o[0]
        s = self.s
        if name == "open":
            if s._transport is None:
                if self.t.lost:        # a new connection for the same session object
                    self.t = Transport(self.log, self.cfg.get("lenient", False))
                self._opened = True
                self.guard("raised", s.onOpen, self.t)
        elif name == "lost":
            if s._transport is not None:
                self.t.lost = True
                self.guard("raised", s.onClose, bool(o[1]))
        elif name == "turn":
            if FW == "aio":
                loop = env.loop
                n = len(loop._ready)
                for _ in range(n):
                    h = loop._ready.pop(0)
                    if not h._cancelled:
                        n0 = len(loop.exceptions)
                        h._run(loop)           # VLoop records an exception of the callback in loop.exceptions
                        for ctx in loop.exceptions[n0:]:
                            self._loop_exc(ctx)
            else:
                env.turn()
        elif name == "failsend":
            # ["failsend", exc, api_op]: transport.send() raises exc for the request message of this API call
            # (unserializable payload / payload over the transport limit / transport gone); the session stays up
            from autobahn.wamp.exception import SerializationError
            from autobahn.exception import PayloadExceededError
            self.t.fail_next = {"SerializationError": SerializationError("cannot serialize"),
                                "PayloadExceededError": PayloadExceededError("too big"),
                                "TransportLost": TransportLost()}[o[1]]
            try:
                self.op(o[2])
            finally:
                self.t.fail_next = None
        elif name == "react":
            # ["react", j, api_op]: user code attaches to future j a callback/errback that issues api_op when it fires
            # (the "try again" idiom); api_op: call / publish / subscribe / register / unregister
            j, a = o[1], o[2]
            ok_obj = j < len(self.returned) and (a[0] != "unregister" or a[1] < len(self.returned))
            if not ok_obj:
                self.log.append(["apiraised", "NoObject"])
            else:
                fut = self.returned[j][0]
                done = bool(txaio.is_called(fut)) if FW == "tx" else fut.done()
                if not done and j not in self.reacted:
                    self.reacted.add(j)

                    def cb(_x, a=a, j=j):
                        self.log.append(["reenter", j])
                        self.op(a)
                        return None
                    txaio.add_callbacks(fut, cb, cb)
        elif name == "inline":
            # ["inline", api_op, router_msg]: the router message is fed into onMessage from inside transport.send()
            self.t.inline = lambda r=o[2]: self.op(r)
            try:
                self.op(o[1])
            finally:
                self.t.inline = None
        elif name == "call":
            _, u, a, kw, opt = o
            kwargs = kw_dict(kw)
            if opt is not None:
                j_next = len(self.returned)

                def on_progress(*pa, **pk):
                    if len(pa) == 1 and isinstance(pa[0], types.CallResult) and opt["details"]:
                        self.log.append(["progress", j_next, True, list(pa[0].results), kw_inv(pa[0].kwresults)])
                    else:
                        self.log.append(["progress", j_next, False, list(pa), kw_inv(pk)])
                kwargs["options"] = types.CallOptions(timeout=opt["timeout"], details=True if opt["details"] else None,
                                                      on_progress=on_progress if opt["progress"] else None)
            self.api("call", s.call, uri(u), *a, **kwargs)
        elif name == "publish":
            _, u, a, kw, opt = o
            kwargs = kw_dict(kw)
            if opt is not None:
                kwargs["options"] = types.PublishOptions(acknowledge=opt["ack"], exclude_me=opt["excl"])
            self.api("publish", s.publish, uri(u), *a, **kwargs)
        elif name == "subscribe":
            _, u, opt = o
            so = None
            if opt is not None:
                so = types.SubscribeOptions(match=MATCH[opt["match"]] if opt["match"] is not None else None,
                                            get_retained=opt["retained"])
            self.api("subscribe", s.subscribe, lambda *a, **k: None, uri(u), so)
        elif name == "register":
            _, u, opt = o
            ro = None
            if opt is not None:
                ro = types.RegisterOptions(match=MATCH[opt["match"]] if opt["match"] is not None else None,
                                           invoke=INVOKE[opt["invoke"]] if opt["invoke"] is not None else None)
            self.api("register", s.register, lambda *a, **k: None, uri(u), ro)
        elif name == "unsubscribe":
            ob = self.obj(o[1])
            if not isinstance(ob, wreq.Subscription):
                self.log.append(["apiraised", "NoObject"])
            else:
                self.api("unsubscribe", ob.unsubscribe)
        elif name == "unregister":
            ob = self.obj(o[1])
            if not isinstance(ob, wreq.Registration):
                self.log.append(["apiraised", "NoObject"])
            else:
                self.api("unregister", ob.unregister)
        elif name == "cancel":
            if o[1] >= len(self.returned):
                self.log.append(["apiraised", "NoObject"])
            else:
                ok, _ = self.guard("apiraised", txaio.cancel, self.returned[o[1]][0])
                if ok:
                    self.log.append(["apiret", None])
        elif name == "leave":
            r = o[1]
            ok, _ = self.guard("apiraised", s.leave, *(() if r is None else (reason(r),)))
            if ok:
                self.log.append(["apiret", None])
        elif name == "disconnect":
            ok, _ = self.guard("apiraised", s.disconnect)
            if ok:
                self.log.append(["apiret", None])
        elif s._transport is None:
            pass            # transports deliver nothing once detached
        elif name == "welcome":
            self.recv([2, o[1], {"roles": {"broker": {"features": {}}, "dealer": {"features": {
                "progressive_call_results": True, "call_canceling": True}}}}])
        elif name == "abort":
            self.recv([3, close_details(o), reason(o[1])])
        elif name == "challenge":
            self.recv([4, "ticket", {}])
        elif name == "goodbye":
            self.recv([6, close_details(o), reason(o[1])])
        elif name == "published":
            self.recv([17, o[1], o[2]])
        elif name == "subscribed":
            self.recv([33, o[1], o[2]])
        elif name == "unsubscribed":
            self.recv([35, o[1]])
        elif name == "result":
            _, rq, prog, a, kw = o
            w = [50, rq, {"progress": True} if prog else {}]
            if a is not None:
                w.append(list(a))
                if kw is not None:
                    w.append(kw_dict(kw))
            else:
                assert kw is None
            self.recv(w)
        elif name == "registered":
            self.recv([65, o[1], o[2]])
        elif name == "unregistered":
            self.recv([67, o[1]] if o[2] is None else [67, o[1], {"registration": o[2]}])
        elif name == "error":
            _, rt, rq, u, a, kw = o
            w = [8, rt, rq, {}, uri(u)]
            if a is not None:
                w.append(list(a))
                if kw is not None:
                    w.append(kw_dict(kw))
            self.recv(w)
        elif name == "event":
            self.recv([36, o[1], 4242, {}])
        elif name == "invocation":
            self.recv([68, o[1], o[2], {}])
        elif name == "interrupt":
            self.recv([69, o[1], {}])
        elif name == "other":
            self.recv([70, 1, {}])
        else:
            raise ValueError(name)

    def filtered(self, events):
        out = []
        for e in events:
            if e[0] == "cb":
                if e[1] == "onConnect":
                    out.append(["called", ["connect"]])
                elif e[1] == "onJoin":
                    out.append(["called", ["join", e[2]]])
                elif e[1] == "onDisconnect":
                    out.append(["called", ["disconnect"]])
                # onLeave is logged by the mixin (with the session id it sees)
            elif e[0] == "usererror":
                out.append(["usererror"])
            else:
                out.append(e)
        return out

    def run(self, ops):
        trace = []
        for o in ops:
            n0 = len(self.log)
            self.op(o)
            trace.append(self.filtered(self.log[n0:]))
        s = self.s
        futs = {}
        for j, (f, k) in enumerate(self.returned):
            futs[str(j)] = bool(txaio.is_called(f)) if FW == "tx" else bool(f.done())
        tables = {"publish": len(s._publish_reqs), "subscribe": len(s._subscribe_reqs),
                  "unsubscribe": len(s._unsubscribe_reqs), "call": len(s._call_reqs),
                  "register": len(s._register_reqs), "unregister": len(s._unregister_reqs)}
        return {"trace": trace, "futures": futs, "tables": tables, "bystander": self.by.check() if self.by else None,
                "session_id": s._session_id, "transport": s._transport is not None,
                "goodbye_sent": bool(s._goodbye_sent), "next_id": s._request_id_gen._next}


def main():
    results, hist = [], {}
    prog = os.environ.get("AV_PROGRESS")
    for i, c in enumerate(inp["cases"]):
        if prog and i % 50 == 0:
            try:
                open(prog, "w").write(json.dumps({"case": i}))
            except OSError:
                pass
        r = Runner(c["cfg"])
        res = r.run(c["ops"])
        results.append(res)
        for o in c["ops"]:
            hist["op:" + o[0]] = hist.get("op:" + o[0], 0) + 1
        for evs in res["trace"]:
            for e in evs:
                hist["ev:" + e[0]] = hist.get("ev:" + e[0], 0) + 1
        if i % 200 == 0:
            gc.collect()
    json.dump({"results": results, "hist": hist, "fw": FW}, open(sys.argv[2], "w"))


main()
