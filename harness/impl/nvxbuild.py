"""Rebuild the two NVX cffi modules from /repo/src/autobahn/nvx/*.c into /verif/build/nvx/<hash>
and put that directory first on sys.path (the .so files in /venv and in the source tree are stale
artefacts).  Usage (inside an implementation driver, BEFORE importing autobahn):
    import nvxbuild; nvxbuild.ensure()
"""
import hashlib, importlib.util, os, sys, fcntl, shutil

NVX = os.environ.get("AV_REPO", "/repo") + "/src/autobahn/nvx"
_TREE = hashlib.sha256(os.path.realpath(os.environ.get("AV_REPO", "/repo")).encode()).hexdigest()[:8]
# one output directory per tree under test, so concurrent runs on different trees cannot evict each other's build
OUT = os.path.join(os.path.dirname(os.path.dirname(os.path.dirname(os.path.abspath(__file__)))), "build", "nvx",
                   "repo" if os.environ.get("AV_REPO", "/repo") == "/repo" else "alt-" + _TREE)


def _hash():
    h = hashlib.sha256()
    for f in sorted(os.listdir(NVX)):
        if f.endswith((".c", ".py")) and not f.startswith("_nvx_"):
            h.update(f.encode()); h.update(open(os.path.join(NVX, f), "rb").read())
    return h.hexdigest()[:16]


def ensure(verbose=False):
    d = os.path.join(OUT, _hash())
    os.makedirs(OUT, exist_ok=True)
    with open(os.path.join(OUT, ".lock"), "w") as lk:
        fcntl.flock(lk, fcntl.LOCK_EX)
        if not os.path.exists(os.path.join(d, ".done")):
            # drop older builds (disk hygiene), then compile
            for old in os.listdir(OUT):
                if old != ".lock" and os.path.isdir(os.path.join(OUT, old)):
                    shutil.rmtree(os.path.join(OUT, old), ignore_errors=True)
            os.makedirs(d, exist_ok=True)
            for name in ("_xormasker", "_utf8validator"):
                spec = importlib.util.spec_from_file_location("av_nvx_builder" + name, os.path.join(NVX, name + ".py"))
                mod = importlib.util.module_from_spec(spec)
                spec.loader.exec_module(mod)
                mod.ffi.compile(tmpdir=d, verbose=verbose)
            open(os.path.join(d, ".done"), "w").write("ok")
        fcntl.flock(lk, fcntl.LOCK_UN)
    if d in sys.path:
        sys.path.remove(d)
    sys.path.insert(0, d)
    for m in ("_nvx_xormasker", "_nvx_utf8validator"):
        sys.modules.pop(m, None)
    return d


if __name__ == "__main__":
    print(ensure(verbose=False))
