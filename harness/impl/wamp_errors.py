"""C18 implementation driver: remote exceptions through two REAL ApplicationSessions.

A "callee" session and a "caller" session (wampdrv, virtual time) are wired back to back; this driver plays the
router (dealer): CALL -> INVOCATION -> (endpoint raises) -> ERROR(INVOCATION) -> ERROR(CALL).  Every hop goes
through a real serializer:  msg -> Serializer.serialize -> bytes -> Serializer.unserialize -> msg'.

input : {"fw": "tx"|"aio", "values": [json values], "trials": [spec, ...]}
  spec = {"ser": "json"|"msgpack"|"cbor",
          "classes": {cid: {"uris": [..]|null, "ctor": kind|null}},      # python classes, named C<cid>
          "callee_ops": [[cid] | [cid, uri], ...], "caller_ops": [...],  # session.define(C) / session.define(C, uri)
          "exc": {"cls": cid | "app", "error": uri, "args": [vi...], "kwargs": [[key, vi]...] | null},
          "tb": bool, "router_callee": int|null}
  values are referred to by their index vi in "values" ({"$b": hex} = bytes).
output: per trial the observations listed in observe() below (values mapped back to indices; -1 = unknown value,
        TB = a string under the key "traceback" that is not one of the values = the forwarded traceback).
"""
import json, os, sys

import wampdrv

inp = json.load(open(sys.argv[1]))
env = wampdrv.Env(inp["fw"])

import txaio
from autobahn import wamp
from autobahn.wamp import message, exception
from autobahn.wamp.exception import ApplicationError
from autobahn.wamp import serializer as wser

assert os.path.realpath(wamp.__file__).startswith(os.path.realpath(os.environ.get("AV_REPO", "/repo"))), wamp.__file__

TB = 999999
RESERVED = ["enc_algo", "callee", "callee_authid", "callee_authrole", "forward_for"]


def dec(v):
    if isinstance(v, dict):
        if set(v) == {"$b"}:
            return bytes.fromhex(v["$b"])
        return {k: dec(x) for k, x in v.items()}
    if isinstance(v, list):
        return [dec(x) for x in v]
    return v


def canon(v):
    if isinstance(v, bytes):
        return {"$b": v.hex()}
    if isinstance(v, (list, tuple)):
        return [canon(x) for x in v]
    if isinstance(v, dict):
        return {str(k): canon(x) for k, x in v.items()}
    if isinstance(v, float) and v == int(v):
        return {"$f": int(v)}
    return v


VALUES = [dec(v) for v in inp["values"]]
VINDEX = {json.dumps(canon(v), sort_keys=True): i for i, v in enumerate(VALUES)}


def vid(v, key=None):
    k = json.dumps(canon(v), sort_keys=True, default=lambda o: "<%s>" % type(o).__name__)
    if k in VINDEX:
        return VINDEX[k]
    if key == "traceback" and isinstance(v, str) and v:
        return TB
    return -1


def make_class(cid, ctor, uris, base=None):
    name = "C%d" % cid
    if base == "app":
        # a subclass of ApplicationError (constructor inherited: (error, /, *args, **kwargs))
        C = type(name, (ApplicationError,), {})
        for u in uris or []:
            C = wamp.error(u)(C)
        return C
    if ctor in (None, "plain"):
        ns = {}
    elif ctor in ("kw", "falsy", "withcallee", "readonly"):
        def __init__(self, *a, **k):
            Exception.__init__(self, *a)
            self.kwargs = k
            if ctor == "withcallee":
                self.callee = "ctor-value"
        ns = {"__init__": __init__}
        if ctor == "falsy":
            ns["__len__"] = lambda self: 0
        if ctor == "readonly":
            ns["callee_authid"] = property(lambda self: "fixed")      # no setter
    elif ctor == "noarg":
        def __init__(self):
            Exception.__init__(self)
        ns = {"__init__": __init__}
    elif ctor == "kwonly":
        def __init__(self, **k):
            Exception.__init__(self)
            self.kwargs = k
        ns = {"__init__": __init__}
    elif ctor in ("raiseT", "raiseV", "raiseK"):
        exc = {"raiseT": TypeError, "raiseV": ValueError, "raiseK": KeyError}[ctor]
        def __init__(self, *a, **k):
            raise exc("constructor refuses")
        ns = {"__init__": __init__}
    else:
        raise ValueError(ctor)
    C = type(name, (Exception,), ns)
    for u in uris or []:
        C = wamp.error(u)(C)
    return C


def make_hook(sess, kind):
    """the application's onUserError override: records the call, then returns or raises (a logging / metrics hook
    that fails).  kind: None|"returns"|"raises"|"raises_base" """
    def hook(fail, msg):
        sess.log.append(["usererror", None, msg[:60]])
        if kind == "raises":
            raise RuntimeError("onUserError override failed")
        if kind == "raises_key":
            raise KeyError("metrics")
    return hook


def make_serializer(name):
    if name == "json":
        return wser.JsonSerializer()
    if name == "msgpack":
        return wser.MsgPackSerializer()
    if name == "cbor":
        return wser.CBORSerializer()
    raise ValueError(name)


class Wire:
    """fake transport hook: keeps the message OBJECTS a session sends"""
    def __init__(self):
        self.sent = []

    def __call__(self, msg):
        self.sent.append(msg)


def hop(ser, msg):
    """real serializer round trip of one message"""
    data, is_binary = ser.serialize(msg)
    out = ser.unserialize(data, is_binary)
    assert len(out) == 1, out
    return out[0], data


def apply_ops(sess, classes, ops):
    res = []
    for op in ops:
        C = classes[op[0]]
        try:
            if len(op) == 1:
                sess.s.define(C)
            else:
                sess.s.define(C, op[1])
            res.append(None)
        except Exception as e:
            res.append(type(e).__name__)
    return res


def build_exception(classes, x):
    args = [VALUES[i] for i in x["args"]]
    kwargs = None if x["kwargs"] is None else {k: VALUES[i] for k, i in x["kwargs"]}
    if x["cls"] == "app":
        e = ApplicationError(x["error"], *args)
        assert e.kwargs == {}
        if kwargs is not None:
            e.kwargs = kwargs          # kwargs as the instance carries them when raised
    elif issubclass(classes[x["cls"]], ApplicationError):
        e = classes[x["cls"]](x["error"], *args)       # the instance carries its OWN error URI
        e.kwargs = kwargs if kwargs is not None else {}
    else:
        e = Exception.__new__(classes[x["cls"]])
        Exception.__init__(e, *args)
        if kwargs is not None:
            e.kwargs = kwargs
    return e


def cid_of(obj):
    n = type(obj).__name__
    if n.startswith("C") and n[1:].isdigit():
        return int(n[1:])
    return {"ApplicationError": 0, "SerializationError": 1, "PayloadExceededError": 2}.get(n, n)


def turn(n=4):
    for _ in range(n):
        env.turn()


def run_trial(spec):
    ser = make_serializer(spec["ser"])
    classes = {int(c): make_class(int(c), d.get("ctor"), d.get("uris"), d.get("base")) for c, d in spec["classes"].items()}
    obs = {}
    # ---- callee
    cw = Wire()
    callee = env.session(transport_mode=cw)
    callee.s.onUserError = make_hook(callee, spec.get("callee_hook"))
    callee.join(session_id=1001)
    callee.s.traceback_app = bool(spec["tb"])
    obs["callee_define"] = apply_ops(callee, classes, spec["callee_ops"])
    the_exc = build_exception(classes, spec["exc"])

    gate = {}
    mode = spec.get("endpoint", "sync")          # sync | async_cleanup
    interrupt = spec.get("interrupt", "none")    # none | during | after
    if mode == "sync":
        def endpoint(*a, **k):
            raise the_exc
    elif inp["fw"] == "tx":
        from twisted.internet.defer import inlineCallbacks, Deferred, CancelledError

        @inlineCallbacks
        def endpoint(*a, **k):
            gate["d1"], gate["d2"] = Deferred(), Deferred()
            try:
                yield gate["d1"]
            except CancelledError:
                yield gate["d2"]                  # asynchronous clean-up after the cancellation
            raise the_exc
    else:
        import asyncio

        async def endpoint(*a, **k):
            gate["d1"], gate["d2"] = txaio.create_future(), txaio.create_future()
            try:
                await gate["d1"]
            except asyncio.CancelledError:
                await gate["d2"]
            raise the_exc

    callee.s.register(endpoint, "com.verif.proc")
    reg_req = [m for m in cw.sent if isinstance(m, message.Register)][-1].request
    callee.recv_msg(hop(ser, message.Registered(reg_req, 555))[0])
    turn()
    # ---- caller
    rw = Wire()
    caller = env.session(transport_mode=rw)
    caller.s.onUserError = make_hook(caller, spec.get("caller_hook"))
    caller.join(session_id=1002)
    obs["caller_define"] = apply_ops(caller, classes, spec["caller_ops"])
    outcome = {}

    def track(label):
        def ok(r):
            outcome[label] = ("ok", r)
        def err(f):
            outcome[label] = ("err", f.value if hasattr(f, "value") else f)
        return ok, err

    f1 = caller.s.call("com.verif.proc", 1, 2)
    txaio.add_callbacks(f1, *track("c1"))
    f2 = caller.s.call("com.verif.other")
    txaio.add_callbacks(f2, *track("c2"))
    calls = [m for m in rw.sent if isinstance(m, message.Call)]
    ids = {calls[0].request: 1, calls[1].request: 2}
    call1, _ = hop(ser, calls[0])
    # ---- router: CALL -> INVOCATION
    inv = message.Invocation(7001, 555, args=call1.args, kwargs=call1.kwargs)
    n_sent = len(cw.sent)
    callee.recv_msg(hop(ser, inv)[0])
    turn()
    if mode != "sync":
        if interrupt == "during":
            callee.recv_msg(hop(ser, message.Interrupt(7001))[0])      # dealer cancels the call: txaio.cancel(on_reply)
            turn()
            txaio.resolve(gate["d2"], None)                            # the clean-up finishes, then the endpoint raises
        else:
            txaio.resolve(gate["d1"], None)
        turn(6)
    if interrupt == "after":
        callee.recv_msg(hop(ser, message.Interrupt(7001))[0])          # INTERRUPT for an invocation that already failed
        turn()
    obs["invocations_left"] = sorted(callee.s._invocations)
    errs = [m for m in cw.sent[n_sent:] if isinstance(m, message.Error)]
    obs["callee_raised"] = [e for e in callee.log if e[0] == "raised"]
    if len(errs) != 1:
        obs["wire"] = None
        obs["n_errors_sent"] = len(errs)
        obs["others_sent"] = [type(m).__name__ for m in cw.sent[n_sent:]]
        return obs
    e0 = errs[0]
    w = e0.marshal()
    obs["wire"] = {
        "rtype": w[1], "request": w[2], "details": canon(w[3]), "uri": w[4], "len": len(w),
        "args": None if len(w) < 6 or w[5] is None else [vid(v) for v in w[5]],
        "args_null": len(w) >= 6 and w[5] is None,
        "kwargs": None if len(w) < 7 else [[k, vid(v, k)] for k, v in w[6].items()],
        "kw_nonstr": len(w) >= 7 and any(not isinstance(k, str) for k in w[6]),
    }
    # ---- callee -> router (real bytes), router -> caller (real bytes)
    try:
        e1, data1 = hop(ser, e0)
    except Exception as ex:
        obs["serialize_failed"] = type(ex).__name__
        return obs
    e2 = message.Error(message.Call.MESSAGE_TYPE, calls[0].request, e1.error, args=e1.args, kwargs=e1.kwargs,
                       callee=spec.get("router_callee"))
    e3, data2 = hop(ser, e2)
    n_log = len(caller.log)
    caller.recv_msg(e3)
    turn()
    new = caller.log[n_log:]
    obs["caller_raised"] = [[e[1], e[2]] for e in new if e[0] == "raised"]
    obs["reported"] = any(e[0] == "usererror" and e[2].startswith("While re-constructing") for e in new)
    obs["pending_after"] = sorted(ids.get(r, r) for r in caller.s._call_reqs)
    if "c1" in outcome:
        kind, v = outcome["c1"]
        if kind == "err" and isinstance(v, BaseException):
            kwargs = getattr(v, "kwargs", None)
            obs["delivered"] = {
                "cls": cid_of(v), "error": getattr(v, "error", None) if type(v) is ApplicationError else None,
                "args": [vid(a) for a in v.args],
                "kwargs": None if not isinstance(kwargs, dict) else [[k, vid(x, k)] for k, x in kwargs.items()],
                "meta": [[n, None if getattr(v, n) is None else (getattr(v, n) if isinstance(getattr(v, n), int) else -1)]
                         for n in RESERVED if hasattr(v, n)],
                "truthy": bool(v),
            }
            # property oracle helper: what the registered class's own constructor makes of the payload
        else:
            obs["delivered"] = {"unexpected": kind, "value": repr(v)[:80]}
    else:
        obs["delivered"] = None
    obs["c2_done"] = "c2" in outcome
    # reference construction (for the property oracle in c18.py, independent of the session code)
    reg_cls = caller.s._uri_to_ecls.get(e3.error)
    ref = None
    if reg_cls is not None:
        try:
            r = reg_cls(*(e3.args or []), **(e3.kwargs or {}))
            rk = getattr(r, "kwargs", None)
            ref = {"cls": cid_of(r), "args": [vid(a) for a in r.args], "truthy": bool(r),
                   "readonly_meta": [n for n in RESERVED if isinstance(getattr(type(r), n, None), property)
                                     and getattr(type(r), n).fset is None],
                   "kwargs": None if not isinstance(rk, dict) else [[k, vid(x, k)] for k, x in rk.items()]}
        except Exception as ex:
            ref = {"raises": type(ex).__name__}
    obs["ref_ctor"] = ref
    obs["registered_at_caller"] = None if reg_cls is None else cid_of(Exception.__new__(reg_cls)) if isinstance(reg_cls, type) else None
    return obs


_pfd = os.open(os.environ["AV_PROGRESS"], os.O_WRONLY | os.O_CREAT | os.O_TRUNC) if os.environ.get("AV_PROGRESS") else None

out = []
for i, spec in enumerate(inp["trials"]):
    if _pfd is not None:
        b = json.dumps(spec).encode()
        os.pwrite(_pfd, b + b" " * max(0, 6000 - len(b)), 0)
    try:
        out.append(run_trial(spec))
    except Exception as e:
        import traceback
        out.append({"driver_error": type(e).__name__ + ": " + str(e)[:300], "tb": traceback.format_exc()[-1500:]})

json.dump({"results": out, "fw": inp["fw"]}, open(sys.argv[2], "w"))
