"""C12 implementation driver: REAL permessage-compression classes and REAL WebSocket protocol objects.

One framework per process ("tx" | "aio").  A real client protocol and a real server protocol (wsdrv, fake transports,
virtual clock) are wired back to back through their real opening handshake; the application callbacks
perMessageCompressionOffers / perMessageCompressionAccept are installed on both.  Nothing in the tree under test is
changed; the only instrumentation is a pair of recording wrappers put on the *instance* of the negotiated PMCE object
(lengths of what compress_message_data / end_compress_message return).

input  : {"fw": "tx"|"aio", "seed": str, "jobs": [job, ...]}
output : {"results": [result, ...], "hist": {...}, "installed": [...], "tree": path}

jobs (ints encode options: -1 = None, 0/1 = bool):
  {"t":"ctor","ext":e,"kind":0|1|2,"base":[..],"args":[..]}          constructor alone -> {"ok": bool}
  {"t":"neg","ext":e,"off":[..],"acc":[..],"racc":[..]}              one lattice point through the real handshake
  {"t":"client","offers":[[e,off]..],"header":str,"policy":0|1}       a (possibly malformed) response to the real client
  {"t":"server","header":str,"policy":0|1}                            a (possibly malformed) offer to the real server
  {"t":"traffic","ext":e,"off","acc","racc","msgs":[m..],"fbd":bool}  messages both ways through a negotiated pair
        m = {"api":"whole"|"stream"|"rawframe","kind":"comp"|"rand"|"rep"|"empty","n"|"pieces","bin","frag","dnc","cut"}
  {"t":"rsv","ext":e|None,"fbd":bool,"shape":name}                    RSV-bit rejections
"""
import json, os, random, struct, sys, hashlib, base64

inp = json.load(open(sys.argv[1]))
import wsdrv

env = wsdrv.Env(inp["fw"])
import autobahn
from autobahn.websocket import compress as C

TREE = os.environ.get("AV_REPO", "/repo")
assert os.path.realpath(autobahn.__file__).startswith(os.path.realpath(TREE) + os.sep), (autobahn.__file__, TREE)

P = env.P
REG = C.PERMESSAGE_COMPRESSION_EXTENSION

# Observation of library object creation (this process only, nothing in the tree changes): the names `zlib`, `bz2`,
# `brotli` inside the compress_* modules are replaced by pass-through proxies that log constructor calls.
LIBLOG = []


class LibProxy:
    def __init__(self, real, ctors):
        self.__dict__["_real"] = real
        self.__dict__["_ctors"] = ctors

    def __getattr__(self, n):
        v = getattr(self._real, n)
        if n in self._ctors:
            kind = self._ctors[n]
            def wrap(*a, **k):
                LIBLOG.append([kind, [x for x in a if isinstance(x, int)]])
                return v(*a, **k)
            return wrap
        return v


import autobahn.websocket.compress_deflate as _CD
import autobahn.websocket.compress_bzip2 as _CB
_CD.zlib = LibProxy(_CD.zlib, {"compressobj": "c", "decompressobj": "d"})
_CB.bz2 = LibProxy(_CB.bz2, {"BZ2Compressor": "c", "BZ2Decompressor": "d"})
try:
    import autobahn.websocket.compress_brotli as _CR
    _CR.brotli = LibProxy(_CR.brotli, {"Compressor": "c", "Decompressor": "d"})
except ImportError:
    _CR = None
NAME = {"deflate": "permessage-deflate", "bzip2": "permessage-bzip2", "brotli": "permessage-brotli",
        "snappy": "permessage-snappy"}
hist = {}


def bump(k, n=1):
    hist[k] = hist.get(k, 0) + n


_pfd = os.open(os.environ["AV_PROGRESS"], os.O_WRONLY | os.O_CREAT | os.O_TRUNC) if os.environ.get("AV_PROGRESS") else None


def announce(job):
    if _pfd is not None:
        b = json.dumps(job)[:8000].encode()
        os.pwrite(_pfd, b + b" " * max(0, 8200 - len(b)), 0)


def opt(v):
    return None if v == -1 else v


def optb(v):
    return None if v == -1 else bool(v)


def cls(ext, role):
    return REG[NAME[ext]][role]


def mk_offer(ext, a):
    K = cls(ext, "Offer")
    if ext == "deflate":
        return K(bool(a[0]), bool(a[1]), bool(a[2]), a[3])
    if ext == "bzip2":
        return K(bool(a[0]), a[1])
    return K(bool(a[0]), bool(a[1]))


def mk_accept(ext, offer, a):
    K = cls(ext, "OfferAccept")
    if ext == "deflate":
        return K(offer, bool(a[0]), a[1], optb(a[2]), opt(a[3]), opt(a[4]))
    if ext == "bzip2":
        return K(offer, a[0], opt(a[1]))
    return K(offer, bool(a[0]), optb(a[1]))


def mk_response(ext, a):
    K = cls(ext, "Response")
    if ext == "deflate":
        return K(a[0], bool(a[1]), a[2], bool(a[3]))
    if ext == "bzip2":
        return K(a[0], a[1])
    return K(bool(a[0]), bool(a[1]))


def mk_raccept(ext, resp, a):
    K = cls(ext, "ResponseAccept")
    if ext == "deflate":
        return K(resp, optb(a[0]), opt(a[1]), opt(a[2]))
    if ext == "bzip2":
        return K(resp, opt(a[0]))
    return K(resp, optb(a[0]))


def settings(pm):
    if pm is None:
        return None
    n = pm.EXTENSION_NAME
    if n == NAME["deflate"]:
        return [int(pm._is_server), int(pm.server_no_context_takeover), int(pm.client_no_context_takeover),
                pm.server_max_window_bits, pm.client_max_window_bits, pm.mem_level]
    if n == NAME["bzip2"]:
        return [int(pm._isServer), pm.server_max_compress_level, pm.client_max_compress_level]
    return [int(pm._is_server), int(pm.server_no_context_takeover), int(pm.client_no_context_takeover)]


def ext_header(raw):
    """the Sec-WebSocket-Extensions header of an HTTP head, split into [[name, [[key, value|None], ..]], ..]
    (plain splitting on , ; = : the strings the implementation WRITES contain no quoting or odd spacing)"""
    out = []
    for line in raw.split(b"\r\n"):
        if line.lower().startswith(b"sec-websocket-extensions:"):
            v = line.split(b":", 1)[1].decode("latin-1")
            for e in v.split(","):
                parts = [p.strip() for p in e.split(";")]
                toks = []
                for p in parts[1:]:
                    if "=" in p:
                        k, val = p.split("=", 1)
                        toks.append([k.strip(), val.strip()])
                    else:
                        toks.append([p, None])
                out.append([parts[0], toks])
    return out


def writes(conn, n0=0):
    return b"".join(bytes.fromhex(e[1]) for e in conn.log[n0:] if e[0] == "write")


def exc_name(e):
    return type(e).__name__


class Pair:
    """client + server, real opening handshake, octets carried by hand"""
    def __init__(self, offers, sacc, cacc, fbd=True, server_opts=None, client_opts=None):
        co = {"perMessageCompressionOffers": offers, "perMessageCompressionAccept": cacc, "failByDrop": fbd}
        so = {"perMessageCompressionAccept": sacc, "failByDrop": fbd}
        co.update(client_opts or {}); so.update(server_opts or {})
        self.c = env.connect("client", options=co)
        self.s = env.connect("server", options=so)
        self.s.make(); self.c.make(); env.turn()
        self.req = writes(self.c)
        n = len(self.s.log)
        self.s.feed(self.req); env.turn()
        self.resp = writes(self.s, n)
        n = len(self.c.log)
        self.c.feed(self.resp); env.turn()

    def open(self):
        return self.c.state() == "OPEN" and self.s.state() == "OPEN"


def run_ctor(j):
    ext = j["ext"]
    try:
        if j["kind"] == 0:
            mk_offer(ext, j["args"])
        elif j["kind"] == 1:
            mk_accept(ext, mk_offer(ext, j["base"]), j["args"])
        else:
            mk_raccept(ext, mk_response(ext, j["base"]), j["args"])
        return {"ok": True}
    except Exception as e:
        if type(e) is not Exception:
            return {"ok": False, "odd": exc_name(e)}
        return {"ok": False}


def negotiate(ext, off, acc, racc, fbd=True):
    """-> (code, pair|None, info)   codes as in Model/PmceRun.v neg_run"""
    info = {"s_called": 0, "c_called": 0, "s_raised": None, "c_raised": None}
    try:
        offer = mk_offer(ext, off)
    except Exception as e:
        return 0, None, info

    def sacc(offers):
        info["s_called"] += 1
        for o in offers:
            if isinstance(o, cls(ext, "Offer")):
                try:
                    return mk_accept(ext, o, acc)
                except Exception as e:
                    info["s_raised"] = exc_name(e)
                    return None
        return None

    def cacc(resp):
        info["c_called"] += 1
        try:
            return mk_raccept(ext, resp, racc)
        except Exception as e:
            info["c_raised"] = exc_name(e)
            return None

    p = Pair([offer], sacc, cacc, fbd)
    spm = getattr(p.s.proto, "_perMessageCompress", None)
    cpm = getattr(p.c.proto, "_perMessageCompress", None)
    if info["s_called"] == 0:
        code = 4                                   # server never reached the policy: offer did not parse
    elif info["s_raised"]:
        code = 1
    elif info["c_called"] == 0:
        code = 5
    elif info["c_raised"]:
        code = 2
    else:
        code = 3
    info.update(strs=ext_header(p.req) + ext_header(p.resp),
                sets=[x for x in (settings(spm), settings(cpm) if code == 3 else None) if x is not None],
                c_state=p.c.state(), s_state=p.s.state(),
                escaped=[e for e in p.c.log + p.s.log if e[0] == "escaped"])
    return code, p, info


def run_neg(j):
    code, p, info = negotiate(j["ext"], j["off"], j["acc"], j["racc"])
    r = {"code": code, "strs": info.get("strs", []), "sets": info.get("sets", [])}
    # independent sanity oracle on the real objects: which ends are open, who holds a PMCE
    if p is not None:
        want_open = {1: ("OPEN", "OPEN"), 2: ("CLOSED", "OPEN"), 3: ("OPEN", "OPEN")}.get(code)
        if want_open and (info["c_state"], info["s_state"]) != want_open:
            r["odd"] = f"states {info['c_state']}/{info['s_state']} at stage {code}"
        if info["escaped"]:
            r["odd"] = "escaped " + json.dumps(info["escaped"][:2])
        if code == 1 and (p.c.proto._perMessageCompress is not None or p.s.proto._perMessageCompress is not None):
            r["odd"] = "PMCE present although the server declined"
    bump(f"neg/{j['ext']}/stage{code}")
    return r


def default_policy(code):
    def pol(resp):
        if code == 1:
            return None
        for ext, nm in NAME.items():
            if nm in REG and isinstance(resp, REG[nm]["Response"]):
                return REG[nm]["ResponseAccept"](resp)
        return None
    return pol


def run_client(j):
    """feed a hand-written 101 response carrying the given Sec-WebSocket-Extensions header(s) to the real client"""
    offers = [mk_offer(e, a) for e, a in j["offers"]]
    c = env.connect("client", options={"perMessageCompressionOffers": offers,
                                       "perMessageCompressionAccept": default_policy(j["policy"])})
    c.make(); env.turn()
    req = writes(c)
    key = [l.split(b":", 1)[1].strip() for l in req.split(b"\r\n") if l.lower().startswith(b"sec-websocket-key:")][0]
    accv = base64.b64encode(hashlib.sha1(key + b"258EAFA5-E914-47DA-95CA-C5AB0DC85B11").digest())
    resp = (b"HTTP/1.1 101 Switching Protocols\r\nUpgrade: websocket\r\nConnection: Upgrade\r\n"
            b"Sec-WebSocket-Accept: " + accv + b"\r\n")
    for h in j["headers"]:
        resp += b"Sec-WebSocket-Extensions: " + h.encode("latin-1") + b"\r\n"
    resp += b"\r\n"
    n = len(c.log)
    c.feed(resp); env.turn()
    esc = [e for e in c.log[n:] if e[0] == "escaped"]
    pm = getattr(c.proto, "_perMessageCompress", None)
    # what the REAL header parser hands to Response.parse (model input; the parser itself is C07's subject)
    parsed = None
    if len(j["headers"]) == 1:
        parsed = [[name, [[k, [None if v is True else v for v in vs]] for k, vs in params.items()]]
                  for name, params in c.proto._parseExtensionsHeader(j["headers"][0])]
    if esc:
        code = 3
    elif c.state() == "OPEN":
        code = 1 if pm is not None else 0
    else:
        code = 2
    bump(f"client/outcome{code}")
    return {"code": code, "sets": settings(pm) if code == 1 else [], "parsed": parsed, "esc": esc[:1],
            "state": c.state()}


def run_server(j):
    def pol(offers):
        if j["policy"] == 1 or not offers:
            return None
        o = offers[0]
        for ext, nm in NAME.items():
            if nm in REG and isinstance(o, REG[nm]["Offer"]):
                try:
                    return REG[nm]["OfferAccept"](o)
                except Exception:
                    return None
        return None
    s = env.connect("server", options={"perMessageCompressionAccept": pol})
    s.make()
    req = (b"GET / HTTP/1.1\r\nHost: localhost:9000\r\nUpgrade: websocket\r\nConnection: Upgrade\r\n"
           b"Sec-WebSocket-Key: dGhlIHNhbXBsZSBub25jZQ==\r\nSec-WebSocket-Version: 13\r\n")
    for h in j["headers"]:
        req += b"Sec-WebSocket-Extensions: " + h.encode("latin-1") + b"\r\n"
    req += b"\r\n"
    n = len(s.log)
    s.feed(req); env.turn()
    resp = writes(s, n)
    esc = [e for e in s.log[n:] if e[0] == "escaped"]
    pm = getattr(s.proto, "_perMessageCompress", None)
    parsed = None
    if len(j["headers"]) == 1:
        parsed = [[name, [[k, [None if v is True else v for v in vs]] for k, vs in params.items()]]
                  for name, params in s.proto._parseExtensionsHeader(j["headers"][0])]
    if esc:
        code = 3
    elif s.state() == "OPEN":
        code = 1 if pm is not None else 0
    else:
        code = 2
    bump(f"server/outcome{code}")
    return {"code": code, "sets": settings(pm) if code == 1 else [], "strs": ext_header(resp) if code == 1 else [],
            "parsed": parsed, "esc": esc[:1], "status": resp.split(b"\r\n")[0].decode("latin-1")[:40]}


# ---------------------------------------------------------------------------------------------------------------
def gen_payload(rng, spec):
    kind, n = spec
    if kind == "empty":
        return b""
    if kind == "comp":        # compressible text
        words = [b"alpha", b"beta", b"gamma", b"delta", b"{\"key\": ", b"12345", b"}, ", b"wamp.error.", b"\n"]
        out = bytearray()
        while len(out) < n:
            out += rng.choice(words)
        return bytes(out[:n])
    if kind == "rand":
        return rng.randbytes(n)
    if kind == "far":         # incompressible block followed by its copy: the only match is n/2 octets back (window probe)
        r = rng.randbytes(n // 2)
        return r + r
    if kind == "rep":         # one printable octet repeated (valid UTF-8, so it can travel as a text message)
        return bytes([rng.randrange(0x20, 0x7f)]) * n
    raise ValueError(kind)


class Recorder:
    """records the lengths returned by the PMCE object's compress/end calls (instance-level wrappers)"""
    def __init__(self, pm):
        self.calls = []
        if pm is None:
            return
        oc, oe = pm.compress_message_data, pm.end_compress_message
        def c(data):
            r = oc(data); self.calls.append(["c", len(r)]); return r
        def e():
            r = oe(); self.calls.append(["e", len(r)]); return r
        pm.compress_message_data = c
        pm.end_compress_message = e


def cut(rng, data, mode):
    if mode == "all" or len(data) <= 1:
        return [data]
    if mode == "one":
        return [data[i:i + 1] for i in range(len(data))]
    k = {"two": 1, "few": 4, "many": 16}[mode]
    cuts = sorted(rng.randrange(0, len(data) + 1) for _ in range(k))
    return [data[a:b] for a, b in zip([0] + cuts, cuts + [len(data)])]


def send_one(conn, m, payload):
    """perform the API calls of message m on the real protocol; -> None or the exception"""
    pr = conn.proto
    try:
        if m["api"] == "whole":
            pr.sendMessage(payload, bool(m["bin"]), fragmentSize=m.get("frag"), doNotCompress=bool(m["dnc"]))
        elif m["api"] == "rawframe":      # frame-level streaming API: the caller announces the frame length, then sends its octets
            pr.beginMessage(isBinary=bool(m["bin"]), doNotCompress=bool(m["dnc"]))
            pr.beginMessageFrame(len(payload))
            pr.sendMessageFrameData(payload)
            pr.endMessage()
        else:
            pr.beginMessage(isBinary=bool(m["bin"]), doNotCompress=bool(m["dnc"]))
            i = 0
            for sz in m["pieces"]:
                pr.sendMessageFrame(payload[i:i + sz]); i += sz
            pr.endMessage()
        env.turn()
        return None
    except Exception as e:
        return e


def run_traffic(j):
    rng = random.Random(f"{inp['seed']}/{json.dumps(j, sort_keys=True)}")
    code, p, info = negotiate(j["ext"], j["off"], j["acc"], j["racc"], fbd=j.get("fbd", True))
    if code != 3:
        return {"code": code, "dirs": []}
    out = {"code": 3, "sets": info["sets"], "dirs": []}
    for dname in ("s2c", "c2s"):
        if dname == "c2s":      # a fresh pair per direction: a failure one way must not contaminate the other
            code, p, info2 = negotiate(j["ext"], j["off"], j["acc"], j["racc"], fbd=j.get("fbd", True))
            assert code == 3 and info2["sets"] == info["sets"], (code, info2.get("sets"))
        snd, rcv = (p.s, p.c) if dname == "s2c" else (p.c, p.s)
        rec = Recorder(snd.proto._perMessageCompress)
        dres = []
        dead = False
        lib0 = len(LIBLOG)
        for m in j["msgs"]:
            if dead:
                break
            payload = gen_payload(rng, (m["kind"], m["n"] if m["api"] != "stream" else sum(m["pieces"])))
            n0, r0, c0 = len(snd.log), len(rcv.log), len(rec.calls)
            e = send_one(snd, m, payload)
            wire = writes(snd, n0)
            r = {"sent": "ok" if e is None else exc_name(e), "plen": len(payload)}
            try:
                frames, rest = wsdrv.parse_frames(wire)
            except ValueError as ve:
                r["odd"] = "unparsable wire: " + str(ve); dres.append(r); dead = True; continue
            r["frames"] = [[int(f["fin"]), f["rsv"], f["opcode"], f["length"]] for f in frames]
            r["calls"] = rec.calls[c0:]
            if rest:
                r["odd"] = "trailing octets on the wire"
            if e is not None:
                r["where"] = str(e)[:80]
                dres.append(r); dead = True; continue
            masked = [f["masked"] for f in frames]
            if any(x != (dname == "c2s") for x in masked):
                r["odd"] = "mask bit does not match the role"
            for ch in cut(rng, wire, m.get("cut", "all")):
                rcv.feed(ch)
            env.turn()
            new = rcv.log[r0:]
            msgs = [x for x in new if x[0] == "msg"]
            bad = [x for x in new if x[0] in ("escaped", "close", "abort", "lose")]
            r["delivered"] = len(msgs)
            r["same"] = (len(msgs) == 1 and bytes.fromhex(msgs[0][1]) == payload and msgs[0][2] == bool(m["bin"]))
            if not r["same"] and msgs:
                got = bytes.fromhex(msgs[0][1])
                r["got_len"] = len(got)
                r["first_diff"] = next((i for i, (a, b) in enumerate(zip(got, payload)) if a != b), min(len(got), len(payload)))
            if bad:
                r["recv_bad"] = [[x[0]] + [str(y)[:60] for y in x[1:3]] for x in bad[:2]]
                dead = True
            # anything the receiver wrote back (a close / pong) is not expected for data messages
            back = writes(rcv, r0)
            if back:
                r["recv_wrote"] = back[:8].hex()
            dres.append(r)
            bump(f"traffic/{j['ext']}/{m['api']}/{'dnc' if m['dnc'] else 'z'}/{m['kind']}")
        lib = LIBLOG[lib0:]
        out["dirs"].append([dname, dres, {"comp_new": sum(1 for x in lib if x[0] == "c"), "decomp_new": sum(1 for x in lib if x[0] == "d"),
                                         "comp_args": next((x[1] for x in lib if x[0] == "c"), None),
                                         "decomp_args": next((x[1] for x in lib if x[0] == "d"), None)}])
    return out


def frame(fin, rsv, opcode, payload, mask):
    b0 = (0x80 if fin else 0) | (rsv << 4) | opcode
    n = len(payload)
    hdr = bytes([b0])
    mb = 0x80 if mask else 0
    if n <= 125:
        hdr += bytes([mb | n])
    elif n <= 0xFFFF:
        hdr += bytes([mb | 126]) + struct.pack("!H", n)
    else:
        hdr += bytes([mb | 127]) + struct.pack("!Q", n)
    if mask:
        hdr += mask
        payload = bytes(b ^ mask[i & 3] for i, b in enumerate(payload))
    return hdr + payload


def run_rsv(j):
    """crafted frames towards a receiver; the compressed payloads come from a REAL sender of the same pair"""
    ext = j["ext"]
    if ext is None:
        p = Pair([], lambda o: None, lambda r: None, j["fbd"])
    else:
        code, p, info = negotiate(ext, j["off"], j["acc"], j["racc"], fbd=j["fbd"])
        assert code == 3, code
    res = {"dirs": []}
    for dname, snd, rcv in (("s2c", p.s, p.c), ("c2s", p.c, p.s)):
        if j.get("only") and j["only"] != dname:
            continue
        # fresh pair per direction: the first one is consumed by a violation
        if dname == "c2s":
            if ext is None:
                p = Pair([], lambda o: None, lambda r: None, j["fbd"])
            else:
                code, p, info = negotiate(ext, j["off"], j["acc"], j["racc"], fbd=j["fbd"])
            snd, rcv = p.c, p.s
        mask = b"\x11\x22\x33\x44" if dname == "c2s" else None
        # a real 3-frame message from the real sender (compressed if a PMCE is on)
        n0 = len(snd.log)
        payload = b"the quick brown fox jumps over the lazy dog " * 6
        snd.proto.sendMessage(payload, False, fragmentSize=8)
        env.turn()
        fr, _ = wsdrv.parse_frames(writes(snd, n0))
        fr = [(f["fin"], f["rsv"], f["opcode"], f["payload"]) for f in fr]
        assert len(fr) >= 3, len(fr)
        shape = j["shape"]
        seq = None
        if shape == "valid":
            seq = fr
        elif shape == "ping_inside":
            seq = fr[:1] + [(True, 0, 9, b"p")] + fr[1:]
        elif shape == "compressed_ping":
            seq = [(True, 4, 9, b"p")]
        elif shape == "compressed_pong":
            seq = [(True, 4, 10, b"p")]
        elif shape == "compressed_close":
            seq = [(True, 4, 8, struct.pack("!H", 1000))]
        elif shape == "ping_rsv1_inside":
            seq = fr[:1] + [(True, 4, 9, b"p")]
        elif shape == "cont_rsv1":
            seq = fr[:1] + [(fr[1][0], 4, fr[1][2], fr[1][3])] + fr[2:]
        elif shape == "last_cont_rsv1":
            seq = fr[:-1] + [(fr[-1][0], 4, fr[-1][2], fr[-1][3])]
        elif shape == "rsv2_first":
            seq = [(fr[0][0], fr[0][1] | 2, fr[0][2], fr[0][3])] + fr[1:]
        elif shape == "rsv3_first":
            seq = [(fr[0][0], fr[0][1] | 1, fr[0][2], fr[0][3])] + fr[1:]
        elif shape == "rsv1_first_plain":       # RSV1 forced on (for a pair WITHOUT a PMCE this is the violation)
            seq = [(fr[0][0], 4, fr[0][2], fr[0][3])] + fr[1:]
        elif shape == "then_valid":             # a violation followed by a good message: nothing more is delivered
            seq = [(True, 4, 9, b"p")] + fr
        else:
            raise ValueError(shape)
        r0 = len(rcv.log)
        wire = b"".join(frame(f, r, o, pl, mask) for f, r, o, pl in seq)
        mode = j.get("cut", "all")
        rng = random.Random(f"{inp['seed']}/rsv/{shape}/{dname}")
        for ch in cut(rng, wire, mode):
            rcv.feed(ch)
        env.turn()
        new = rcv.log[r0:]
        evs = []
        for x in new:
            if x[0] == "msg":
                evs.append(["D", bytes.fromhex(x[1]) == payload, x[2]])
            elif x[0] == "escaped":
                evs.append(["X", x[1]])
            elif x[0] in ("abort", "lose"):
                evs.append(["DROP"])
            elif x[0] == "close":
                evs.append(["CLOSE", x[1], x[2]])
            elif x[0] == "ping":
                evs.append(["PING"])
        back, _ = wsdrv.parse_frames(writes(rcv, r0))
        closes = [int.from_bytes(f["payload"][:2], "big") for f in back if f["opcode"] == 8 and f["length"] >= 2]
        pongs = sum(1 for f in back if f["opcode"] == 10)
        res["dirs"].append([dname, {"sig": [[int(f), r, o, len(pl)] for f, r, o, pl in seq], "evs": evs,
                                    "close_codes": closes, "pongs": pongs, "state": rcv.state()}])
        bump(f"rsv/{shape}/{'pmce' if ext else 'plain'}")
    return res


RUN = {"ctor": run_ctor, "neg": run_neg, "client": run_client, "server": run_server, "traffic": run_traffic, "rsv": run_rsv}
results = []
for idx, j in enumerate(inp["jobs"]):
    if idx and idx % 1000 == 0:
        # a fresh virtual clock / loop: timers of finished connections pile up on the old one (time never advances here)
        # and make every further connection slower
        env = wsdrv.Env(inp["fw"])
    announce({"index": idx, "job": j})
    try:
        results.append(RUN[j["t"]](j))
    except Exception as e:            # a driver-level surprise is reported per job, never swallowed
        import traceback
        results.append({"driver_error": exc_name(e), "msg": str(e)[:300], "tb": traceback.format_exc()[-800:]})
        bump("driver_error")

json.dump({"results": results, "hist": hist, "installed": sorted(REG), "tree": TREE,
           "zlib": __import__("zlib").ZLIB_RUNTIME_VERSION}, open(sys.argv[2], "w"))
