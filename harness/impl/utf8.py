"""C09 implementation driver: runs the REAL Utf8Validator implementations of the tree under test ($AV_REPO) and
compares every validate() result with an oracle built on CPython's own strict UTF-8 codec.

mode "py"  : AUTOBAHN_USE_NVX=0 -> autobahn.websocket.utf8validator.Utf8Validator (pure Python)         impl code 0
mode "nvx" : freshly compiled _nvx_utf8validator -> autobahn.nvx._utf8validator.Utf8Validator, as constructed
             (impl code 5) and after nvx_utf8vld_set_impl(k), k = 1..4 where the build accepts k     impl codes 1..4

One validator object per implementation is reused for all cases with reset() in between (the property's
observation point is "validate(...) after reset()"), explicit cases use a fresh object.

Oracle (independent of the model and of the tables): bytes.decode('utf-8') (strict) decides accept / reject;
UnicodeDecodeError.start gives the start of the first ill-formed or incomplete sequence; the first offending
octet is the end of the shortest slice from there that no continuation makes decodable (again decided by strict
decoding of complete candidate strings - no use of the error's reason text, nor of the non-final incremental
decoder, which was observed to accept b"\xed\xa0" as "incomplete").  Expected result of the call that feeds chunk c after the
octets prev:   valid            -> (True, ends_on_boundary, len(c), len(prev)+len(c))
               offender p in c  -> (False, False, p-len(prev), p)
               offender p < len(prev) (an earlier call already had to report invalid) -> (False, False, 0, p)
"""
import codecs, hashlib, json, os, random, sys, time

inp = json.load(open(sys.argv[1]))
mode = inp["mode"]
REPO = os.environ.get("AV_REPO", "/repo")
if mode == "nvx":
    import nvxbuild
    if os.path.realpath(REPO) != "/repo":
        # a scratch tree gets its own build directory, so that its build does not evict /repo's
        nvxbuild.OUT = nvxbuild.OUT + "-c09alt"
    nvxbuild.ensure()
import autobahn.websocket as aw
from autobahn.websocket import utf8validator as uv

assert aw.USES_NVX == (mode == "nvx"), (aw.USES_NVX, mode)
assert os.path.realpath(uv.__file__).startswith(os.path.realpath(REPO) + "/"), uv.__file__
Utf8Validator = uv.Utf8Validator
if mode == "nvx":
    from autobahn.nvx import _utf8validator as nv
    assert Utf8Validator is nv.Utf8Validator
    assert os.path.realpath(sys.modules["_nvx_utf8validator"].__file__).startswith(os.path.join(os.path.dirname(os.path.dirname(os.path.dirname(os.path.realpath(__file__)))), "build", "nvx")), \
        sys.modules["_nvx_utf8validator"].__file__
else:
    assert Utf8Validator.__module__ == "autobahn.websocket.utf8validator"


# ------------------------------------------------------------------ implementations
def make(code):
    v = Utf8Validator()
    if mode == "nvx" and code != 5:
        got = v.lib.nvx_utf8vld_set_impl(v._vld, code)
        if got != code:
            return None
    return v


def family(code, v):
    if mode == "py":
        return "py"
    return "nvx.unrolled" if v.lib.nvx_utf8vld_get_impl(v._vld) == 2 else "nvx.table"


CODES = [0] if mode == "py" else [5, 1, 2, 3, 4]
IMPLS = {}          # code -> (validator, family)
UNAVAILABLE = []


def init_impls():
    IMPLS.clear()
    for c in CODES:
        v = make(c)
        if v is None:
            if c not in UNAVAILABLE:
                UNAVAILABLE.append(c)
        else:
            IMPLS[c] = (v, family(c, v))


init_impls()
if mode == "nvx":
    v5 = IMPLS[5][0]
    NVX_DEFAULT_IMPL = v5.lib.nvx_utf8vld_get_impl(v5._vld)
else:
    NVX_DEFAULT_IMPL = None


# ------------------------------------------------------------------ oracle
def _decodes(s):
    try:
        s.decode("utf-8")
        return True
    except UnicodeDecodeError:
        return False


_lead_viable = {}


def viable_partial(p):
    """can the 1..4 octets p (starting where strict decoding failed) be completed to well-formed UTF-8?
    Decided only by strict decoding of complete candidates: in RFC 3629 only the octet after the lead is
    range-restricted, so for a lone lead every second octet 80..BF is tried, later octets are filled with 0x80."""
    if len(p) == 1:
        r = _lead_viable.get(p)
        if r is None:
            r = any(_decodes(p + bytes([x]) + b"\x80" * k) for x in range(0x80, 0xC0) for k in range(3))
            _lead_viable[p] = r
        return r
    return any(_decodes(p + b"\x80" * k) for k in range(3))


def oracle(s):
    """(valid, ends_on_boundary, first_offender or None) for the whole octet string s"""
    try:
        s.decode("utf-8")
        return (True, True, None)
    except UnicodeDecodeError as e:
        st = e.start                      # s[:st] is well-formed and ends on a boundary
    n = len(s)
    for k in range(st, min(n, st + 4)):
        if not viable_partial(s[st:k + 1]):
            return (False, False, k)
    return (True, False, None)


def expected(chunks):
    out, prev, pos = [], 0, None
    acc = b""
    for c in chunks:
        acc += c
        if pos is None:
            v, e, p = oracle(acc)
            if v:
                out.append((True, e, len(c), len(acc)))
            else:
                pos = p
                out.append((False, False, p - prev, p))
        else:
            out.append((False, False, 0, pos))
        prev = len(acc)
    return out


def run_case(v, chunks, fresh=False):
    v.reset()
    return [tuple(v.validate(c)) for c in chunks]


COMP = ("valid", "ends", "cur", "tot")


def first_diff(got, exp):
    """(call index, component) of the first disagreement with the oracle, or None"""
    for k, (g, x) in enumerate(zip(got, exp)):
        for j in range(4):
            if x[j] is not None and g[j] != x[j]:
                return k, COMP[j]
    return None


# distinct-case accounting: the task "short" with maxlen >= 3 enumerates exactly the chunk lists [s] and
# [s[0:1], s[1:2], s[2:3]] for all 3-octet s (distinct by construction, only counted); every other executed
# non-trivial chunk list is digested (64 bit) and the digests are united over all tasks of this driver.
EXCLUDE3 = any(t["kind"] == "short" and t["maxlen"] >= 3 for t in inp["tasks"])
ALL_DIGESTS = set()


def is_short3_form(chunks):
    return sum(len(c) for c in chunks) == 3 and (len(chunks) == 1 or (len(chunks) == 3 and all(len(c) == 1 for c in chunks)))


class Acc:
    """per-process accumulator"""
    def __init__(self, seed, want_samples, sample_p, sample_maxlen=200, enum=False):
        self.evals = 0
        self.enum = enum          # cases of an enumeration are distinct by construction: only counted
        self.distinct_enum = 0    # non-trivial (some octet fed) distinct (impl, chunks) of enumerations
        self.digests = set()      # digests of the non-trivial chunk lists of generated (random) cases
        self.hist = {}
        self.mism = {}        # (fam, phase, comp, emptychunk) -> {"count": n, "examples": [smallest few]}
        self.samples = []
        self.rng = random.Random(seed)
        self.want, self.p, self.maxlen = want_samples, sample_p, sample_maxlen

    def bump(self, k, n=1):
        self.hist[k] = self.hist.get(k, 0) + n

    def record(self, code, fam, chunks, got, exp, d):
        k, comp = d
        after = any(not x[0] for x in exp[:k])     # an earlier call already had to report invalid
        key = (fam, "after-reject" if after else "first-verdict", comp, len(chunks[k]) == 0)
        m = self.mism.setdefault(key, {"count": 0, "examples": []})
        m["count"] += 1
        size = sum(len(c) for c in chunks) + len(chunks)
        ex = m["examples"]
        if len(ex) < 3 or size < ex[-1]["size"]:
            ex.append({"impl": code, "family": fam, "chunks": [c.hex() for c in chunks], "got": [list(g) for g in got],
                       "expected": [list(x) for x in exp], "call": k, "component": comp, "size": size})
            ex.sort(key=lambda e: e["size"])
            del ex[3:]

    def check(self, chunks, exp=None, codes=None, sample=True):
        if exp is None:
            exp = expected(chunks)
        if any(chunks):
            if self.enum:
                self.distinct_enum += len(IMPLS) if codes is None else len(codes)
            elif not (EXCLUDE3 and is_short3_form(chunks)):
                self.digests.add(int.from_bytes(hashlib.blake2b(b"|".join(c.hex().encode() for c in chunks),
                                                                digest_size=8).digest(), "big"))
        for code, (v, fam) in IMPLS.items():
            if codes is not None and code not in codes:
                continue
            v.reset()
            got = [v.validate(c) for c in chunks]
            self.evals += 1
            d = first_diff(got, exp)
            if d is not None:
                self.record(code, fam, chunks, got, exp, d)
            if sample and len(self.samples) < self.want and self.rng.random() < self.p:
                if sum(len(c) for c in chunks) <= self.maxlen:
                    self.samples.append({"impl": code, "chunks": [c.hex() for c in chunks], "got": [list(g) for g in got]})

    def dump(self):
        return {"evals": self.evals, "hist": self.hist, "samples": self.samples, "distinct_enum": self.distinct_enum,
                "digests": self.digests, "mism": [[list(k), v] for k, v in self.mism.items()]}


def merge(parts):
    out = {"evals": 0, "hist": {}, "samples": [], "mism": {}, "distinct_enum": 0, "digests": set()}
    for p in parts:
        out["evals"] += p["evals"]
        out["distinct_enum"] += p["distinct_enum"]
        out["digests"] |= p["digests"]
        for k, v in p["hist"].items():
            out["hist"][k] = out["hist"].get(k, 0) + v
        out["samples"] += p["samples"]
        for k, v in p["mism"]:
            k = tuple(k)
            m = out["mism"].setdefault(k, {"count": 0, "examples": []})
            m["count"] += v["count"]
            m["examples"] = sorted(m["examples"] + v["examples"], key=lambda e: e["size"])[:3]
    out["mism"] = [[list(k), v] for k, v in out["mism"].items()]
    return out


def pool_map(fn, jobs, procs):
    if procs <= 1 or len(jobs) <= 1:
        return [fn(j) for j in jobs]
    import multiprocessing as mp
    ctx = mp.get_context("fork")
    with ctx.Pool(min(procs, len(jobs))) as pool:
        return pool.map(fn, jobs, chunksize=1)


# ------------------------------------------------------------------ generators
# one fixed prefix per DFA state (reachable states are 0 and 2..8; 1 = reject is reached by 0xff)
STATE_PREFIX = {0: b"", 2: b"\xc3", 3: b"\xe1", 4: b"\xe0", 5: b"\xed", 6: b"\xf0", 7: b"\xf1", 8: b"\xf4",
                1: b"\xff", "3b": b"\xf1\x80", "2b": b"\xe1\x80", "2c": b"\xf1\x80\x80"}


def task_transitions(t):
    """every octet from every reachable state (each state by a fixed prefix; some states by two routes), fed as
    a second call, in the same call, and after an ASCII octet"""
    a = Acc(t["seed"], t.get("samples", 0), 0.05)
    for name, pre in STATE_PREFIX.items():
        for b in range(256):
            bb = bytes([b])
            for chunks in ([pre, bb], [pre + bb], [b"a" + pre, bb], [pre + bb, b"\x80"], [pre, bb, b"\x80", b"z"]):
                a.check(chunks)
            a.bump("transition_from_state_%s" % name)
    return a.dump()


def _short_job(job):
    b0s, maxlen, modes, seed, want, p = job
    a = Acc(seed, want, p, enum=(maxlen >= 3))
    for b0 in b0s:
        s1 = bytes([b0])
        if maxlen < 3:                      # lengths 1 and 2 belong to the maxlen=2 task
            _short_one(a, s1, modes)
        if maxlen >= 2:
            for b1 in range(256):
                s2 = s1 + bytes([b1])
                if maxlen < 3:
                    _short_one(a, s2, modes)
                if maxlen >= 3:
                    for b2 in range(256):
                        s3 = s2 + bytes([b2])
                        a.check([s3])
                        if "bytewise" in modes:
                            a.check([s1, s2[1:], s3[2:]])
                        a.bump("len3")
    return a.dump()


def _short_one(a, s, modes):
    a.check([s])
    a.bump("len%d" % len(s))
    if "bytewise" in modes and len(s) > 1:
        a.check([bytes([x]) for x in s])
    if "splits" in modes:
        for k in range(len(s) + 1):
            a.check([s[:k], s[k:]])
        if len(s) == 2:
            a.check([s[:1], b"", s[1:], b""])


def task_short(t):
    """ALL octet strings of length <= maxlen"""
    procs = t.get("procs", 1)
    b0s = list(range(256))
    n = 256 if t["maxlen"] >= 3 else 16
    groups = [b0s[i::n] for i in range(n)]
    total = 256 ** t["maxlen"]
    p = min(1.0, 4.0 * t.get("samples", 0) / max(1, total * len(IMPLS)))
    jobs = [(g, t["maxlen"], t["modes"], f"{t['seed']}/{i}", max(1, t.get("samples", 0) // n + 1), p) for i, g in enumerate(groups)]
    parts = pool_map(_short_job, jobs, procs)
    if t["maxlen"] < 3:
        a = Acc(t["seed"], 0, 0)
        a.check([b""]); a.check([b"", b""]); a.bump("len0")
        parts.append(a.dump())
    return merge(parts)


BOUNDARY_CPS = [0x0, 0x41, 0x7F, 0x80, 0xE9, 0x7FF, 0x800, 0xFFF, 0x1000, 0x20AC, 0xCFFF, 0xD000, 0xD7FF, 0xE000,
                0xFFFD, 0xFFFF, 0x10000, 0x10348, 0x3FFFF, 0x40000, 0xFFFFF, 0x100000, 0x10FFFF]
BAD_FRAGMENTS = [bytes.fromhex(h) for h in (
    "c080", "c1bf", "e08080", "e09fbf", "f0808080", "f08fbfbf",          # overlong forms
    "eda080", "edbfbf", "edae80edb080",                                  # surrogates
    "f4908080", "f5808080", "f7bfbfbf", "f888808080", "fc8480808080", "fe", "ff",   # above U+10FFFF / invalid leads
    "80", "bf", "8080",                                                   # stray continuation octets
    "c3", "e282", "f09f98", "e1", "f1", "f48f", "e0a0", "ed9f", "f090",   # truncated (invalid when followed by non-tail)
    "c328", "e28228", "f09f9828", "e2c3a9", "f0e282ac")]


def gen_valid_cp(rng):
    r = rng.random()
    if r < 0.25:
        return rng.choice(BOUNDARY_CPS)
    if r < 0.55:
        return rng.randrange(0x20, 0x7F)
    if r < 0.70:
        return rng.randrange(0x80, 0x800)
    if r < 0.88:
        cp = rng.randrange(0x800, 0x10000)
        return cp if not 0xD800 <= cp <= 0xDFFF else 0xFFFD
    return rng.randrange(0x10000, 0x110000)


LENGTHS = [0, 1, 2, 3, 4, 5, 7, 8, 15, 16, 17, 31, 32, 33, 63, 64, 65, 127, 128, 129, 255, 256, 257, 1023, 1024, 4095, 4096]


def gen_mixture(rng, maxlen):
    """(octets, kind): a mostly-valid stream, by kind: valid / truncated at the end / one or more ill-formed fragments / noise"""
    r = rng.random()
    target = rng.choice(LENGTHS) if rng.random() < 0.5 else min(maxlen, int(rng.expovariate(1 / 200.0)))
    target = min(target, maxlen)
    kind = "valid" if r < 0.35 else "truncated" if r < 0.45 else "one-bad" if r < 0.80 else "many-bad" if r < 0.92 else "noise"
    if kind == "noise":
        return rng.randbytes(target), kind
    segs, size = [], 0
    while size < target:
        e = chr(gen_valid_cp(rng)).encode("utf-8")
        segs.append(e)
        size += len(e)
    if kind == "valid":
        return b"".join(segs), kind
    if kind == "truncated":
        tail = chr(rng.choice([0xE9, 0x20AC, 0x10348, 0x10FFFF, 0xD7FF, 0x800, 0x10000])).encode("utf-8")
        return b"".join(segs) + tail[:rng.randrange(1, len(tail))], kind
    nbad = 1 if kind == "one-bad" else rng.randrange(2, 5)
    for _ in range(nbad):                          # ill-formed fragments inserted between code points
        frag = rng.choice(BAD_FRAGMENTS) if rng.random() < 0.8 else bytes([rng.randrange(0x80, 0x100)])
        segs.insert(rng.randrange(0, len(segs) + 1), frag)
    return b"".join(segs), kind


def gen_chunking(rng, s):
    n = len(s)
    r = rng.random()
    if r < 0.15:
        return [s]
    if r < 0.25 and n <= 256:
        return [s[i:i + 1] for i in range(n)]
    ncut = rng.randrange(1, 7)
    cuts = sorted(rng.randint(0, n) for _ in range(ncut))
    ch = [s[a:b] for a, b in zip([0] + cuts, cuts + [n])]
    if rng.random() < 0.7:
        ch = [c for c in ch if c] or [b""]
    return ch


def _mix_job(job):
    seed, count, maxlen, want, p = job
    rng = random.Random(seed)
    a = Acc(seed + "/s", want, p)
    for _ in range(count):
        s, kind = gen_mixture(rng, maxlen)
        chunks = gen_chunking(rng, s)
        a.check(chunks)
        a.bump("mixture_" + kind)
        a.bump("chunks_%s" % (len(chunks) if len(chunks) < 8 else "8+"))
        a.bump("size_%s" % ("0" if not s else "1-16" if len(s) <= 16 else "17-256" if len(s) <= 256 else "257-4096"))
    return a.dump()


def task_mixtures(t):
    procs = t.get("procs", 1)
    njobs = max(1, procs * 4)
    per = (t["count"] + njobs - 1) // njobs
    p = min(1.0, 6.0 * t.get("samples", 0) / max(1, t["count"] * len(IMPLS)))
    jobs = [(f"{t['seed']}/mix/{i}", per, t["maxlen"], t.get("samples", 0) // njobs + 1, p) for i in range(njobs)]
    return merge(pool_map(_mix_job, jobs, procs))


def _split_job(job):
    seed, count, maxlen, want, p = job
    rng = random.Random(seed)
    a = Acc(seed + "/s", want, p)
    for _ in range(count):
        s, kind = gen_mixture(rng, maxlen)
        s = s[:maxlen]
        for k in range(len(s) + 1):
            a.check([s[:k], s[k:]])
        a.bump("splits_" + kind)
    return a.dump()


def task_splits(t):
    """every split position (two calls) of generated strings of at most maxlen octets"""
    procs = t.get("procs", 1)
    njobs = max(1, procs * 2)
    per = (t["count"] + njobs - 1) // njobs
    p = min(1.0, 6.0 * t.get("samples", 0) / max(1, t["count"] * 32 * len(IMPLS)))
    jobs = [(f"{t['seed']}/split/{i}", per, t["maxlen"], t.get("samples", 0) // njobs + 1, p) for i in range(njobs)]
    return merge(pool_map(_split_job, jobs, procs))


def task_explicit(t):
    """given cases on given implementations, with fresh validator objects; returns outputs and oracle verdicts"""
    out = []
    a = Acc("x", 0, 0)
    for c in t["cases"]:
        chunks = [bytes.fromhex(h) for h in c["chunks"]]
        exp = expected(chunks)
        codes = c.get("impls") or CODES
        res = {}
        for code in codes:
            if mode == "py" and code != 0 or mode == "nvx" and code == 0:
                continue
            v = make(code)
            if v is None:
                res[str(code)] = None
                continue
            got = [list(v.validate(x)) for x in chunks]
            a.evals += 1
            d = first_diff(got, exp)
            fam = family(code, v)
            if d is not None:
                a.record(code, fam, chunks, got, exp, d)
            res[str(code)] = {"family": fam, "got": got, "diff": list(d) if d else None}
        out.append({"chunks": c["chunks"], "expected": [list(x) for x in exp], "results": res})
    r = a.dump()
    r["cases"] = out
    return r


_SELECT_CODE = r"""
import json, os, sys
if os.environ.get("AV_BLOCK_NVX") == "1":
    sys.modules["_nvx_utf8validator"] = None          # makes `import _nvx_utf8validator` raise ImportError
else:
    sys.path.insert(0, os.environ["AV_IMPL_DIR"])
    import nvxbuild
    if os.path.realpath(os.environ.get("AV_REPO", "/repo")) != "/repo":
        nvxbuild.OUT = nvxbuild.OUT + "-c09alt"
    nvxbuild.ensure()
try:
    import autobahn.websocket as aw
    from autobahn.websocket.utf8validator import Utf8Validator
    v = Utf8Validator()
    print(json.dumps({"has": aw.HAS_NVX, "uses": aw.USES_NVX, "cls": Utf8Validator.__module__,
                      "works": list(v.validate(bytes.fromhex("e282ac")))}))
except RuntimeError:
    print(json.dumps({"error": "RuntimeError"}))
"""


def task_selection(t):
    """websocket/__init__.py: which implementation `from autobahn.websocket.utf8validator import Utf8Validator`
    yields for each AUTOBAHN_USE_NVX value x (NVX extension importable or not), against the rule documented there:
    0/no/false -> pure Python; 1/yes/true -> NVX, RuntimeError if it cannot be imported; otherwise NVX iff importable"""
    import subprocess
    from concurrent.futures import ThreadPoolExecutor
    a = Acc("sel", 0, 0)
    combos = [(val, blocked) for val in t["values"] for blocked in (False, True)]

    def one(c):
        val, blocked = c
        env = dict(os.environ)
        env.pop("AUTOBAHN_USE_NVX", None)
        if val is not None:
            env["AUTOBAHN_USE_NVX"] = val
        env["AV_BLOCK_NVX"] = "1" if blocked else "0"
        env["AV_IMPL_DIR"] = os.path.dirname(os.path.abspath(__file__))
        p = subprocess.run([sys.executable, "-c", _SELECT_CODE], env=env, stdout=subprocess.PIPE, stderr=subprocess.PIPE,
                           text=True, timeout=300)
        try:
            return json.loads(p.stdout.strip().splitlines()[-1])
        except Exception:
            return {"error": "crash", "stderr": p.stderr[-500:]}

    with ThreadPoolExecutor(max_workers=8) as ex:
        outs = list(ex.map(one, combos))
    rows = []
    for (val, blocked), o in zip(combos, outs):
        norm = (val or "").strip().lower()
        has = not blocked
        if norm in ("1", "yes", "true") and not has:
            exp = {"error": "RuntimeError"}
        else:
            uses = has and norm not in ("0", "no", "false")
            exp = {"has": has, "uses": uses, "works": [True, True, 3, 3],
                   "cls": "autobahn.nvx._utf8validator" if uses else "autobahn.websocket.utf8validator"}
        a.evals += 1
        a.bump("selection_" + ("nvx" if o.get("uses") else "error" if "error" in o else "python"))
        rows.append({"env": val, "nvx_importable": has, "got": o, "expected": exp, "ok": o == exp})
    r = a.dump()
    r["rows"] = rows
    return r


TASKS = {"transitions": task_transitions, "short": task_short, "mixtures": task_mixtures, "splits": task_splits,
         "explicit": task_explicit, "selection": task_selection}

results = []
for t in inp["tasks"]:
    t0 = time.time()
    t.setdefault("seed", inp.get("seed", "1"))
    r = TASKS[t["kind"]](t)
    ALL_DIGESTS |= r.pop("digests", set())
    r["kind"] = t["kind"]
    r["label"] = t.get("label", t["kind"])
    r["wall_s"] = round(time.time() - t0, 2)
    results.append(r)

json.dump({"mode": mode, "uses_nvx": aw.USES_NVX, "impl_codes": sorted(IMPLS), "unavailable": UNAVAILABLE,
           "families": {str(c): f for c, (v, f) in IMPLS.items()}, "nvx_default_impl": NVX_DEFAULT_IMPL,
           "validator_class": Utf8Validator.__module__ + "." + Utf8Validator.__qualname__,
           "source": os.path.realpath(uv.__file__), "tasks": results,
           "distinct_digested": len(ALL_DIGESTS) * len(IMPLS)}, open(sys.argv[2], "w"))
