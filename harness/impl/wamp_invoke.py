"""C10 implementation driver: runs the REAL ApplicationSession callee path over op histories.

  argv[1] = input JSON  {"fw": "tx"|"aio", "cases": [case, ...]}     argv[2] = output JSON {"results": [...]}
  case = {"transport": {"kind": "fake", "tbl": [normal, unser, big]}            (wampdrv fake ITransport, scripted send)
                     | {"kind": "ws"|"rs", "role": "server"|"client", "ser": "json"|"msgpack"|"cbor", "limit": 512},
          "ecls": [[cls, uri], ...], "ops": [op, ...]}
  op   = ["reg", reg, wants_details, is_coro (, check_types, "ok"|"short"|"ill", signature kind)] | ["unreg", reg] | ["inv", req, reg, payload, [caller|null, caller_authid|null, procedure|null (, timeout|null)], rp = null|false|true, beh]
       | ["regobj", obj id, flavour, call-level details null|false|true, prefix?, [[reg, own details null|false|true, is_coro], ...]]
       | ["int", req] | ["res", k, result] | ["prog", k, payload] | ["lose"] | ["turn"]
  payload = ["val", id, unser, big (, target octets of the serialized YIELD/ERROR; real transports)] | ["none"] | ["empty"];  retval = ["plain", p] | ["cr", p]
  exn = ["app", u, p] | ["other", cls, p];  result = ["ok", retval] | ["err", exn]
  beh = {"pre": [payload, ...], "fin": ["ret", retval] | ["raise", exn] | ["pend"]}
  sres (table entries) = "sent" | "ser" | "exc" | ["other", "TypeError" | "ValueError" | ...]

Result per case: {"log": [...], "left": [request ids still in session._invocations]} with log entries
  ["acc", k, req, reg, payload, [caller, authid, procedure] as sent (null = absent), rp (null = absent), wants]      INVOCATION entered (onMessage returned normally)
  ["called", k, req, reg, payload, null | [caller, progress_is_callable]]   what the endpoint body saw
  ["sent", ["yield", req, single, payload, progress] | ["error", req, uri, payload]]   decoded from what the transport
                                                         wrote (real transports: from the octets on the lower transport)
  ["raised", "msg"|"cb", class]     exception out of onMessage / out of the on_reply callback chain
  ["prograised", k, class]          exception delivered to the endpoint by details.progress(...)
  ["op", i]                         marker: outputs of history op i follow (bookkeeping for the oracle's keys)
  ["other", ...]                    anything the decoder does not understand (never expected)

Real transports: the session is created by the real factory and attached to the real protocol class, whose
lower-level transport is a fake (wsdrv.TxTransport / AioTransport); INVOCATIONs arrive as octets through
dataReceived / data_received.  The tree under test is whatever `import autobahn` resolves to (AV_REPO/src first on
PYTHONPATH); nothing in it is modified.
"""
import sys, os, json, re, struct, gc, base64, hashlib

import wampdrv, wsdrv
import txaio

inp = json.load(open(sys.argv[1]))
FW = inp["fw"]
env = wampdrv.Env(FW)

from autobahn.wamp.types import RegisterOptions, CallResult, ComponentConfig
from autobahn.wamp.exception import ApplicationError, SerializationError
from autobahn.exception import PayloadExceededError
from autobahn.wamp import message, serializer as SER

BIG = "x" * 700
LIMIT = 512
CUR = {"log": None}          # log of the running case


class U:
    """an object no WAMP serializer can encode"""
    def __repr__(self): return "<U object>"


# ---- observation of failures at the end of on_reply's callback chain -------------------------------------------
# Twisted: a failure left in the Deferred after (success, error) is only reported at garbage collection
# ("Unhandled error in Deferred").  To see it deterministically an errback is appended BEHIND the pair the code
# under test adds; it only records and consumes the failure.  asyncio: the loop's exception handler list.
if FW == "tx":
    _orig_add = txaio.add_callbacks

    def _add_callbacks(fut, cb, eb):
        r = _orig_add(fut, cb, eb)
        if cb is not None and eb is not None and getattr(cb, "__name__", "") == "success" and getattr(eb, "__name__", "") == "error" \
                and "onMessage" in getattr(cb, "__qualname__", ""):
            def trap(f):
                if CUR["log"] is not None:
                    CUR["log"].append(["raised", "cb", type(f.value).__name__])
                return None
            fut.addErrback(trap)
        return r
    txaio.add_callbacks = _add_callbacks
else:
    class _LogList(list):
        def append(self, ctx):
            list.append(self, ctx)
            e = ctx.get("exception")
            if CUR["log"] is not None:
                CUR["log"].append(["raised", "cb", type(e).__name__])
    env.loop.exceptions = _LogList()


# ---- payload tokens <-> python values ---------------------------------------------------------------------------
def tok(p, fit=None):
    """python value of a payload token.  p = ["val", id, unser, big] or ["val", id, unser, big, target]: with a
    target the token is padded so that the message built by fit(token) serializes to exactly `target` octets
    (fit = function token -> serialized length, supplied where the message around the token is known)."""
    assert p[0] == "val", p
    if len(p) > 4 and p[4] and fit is not None:
        mark = "B" if p[3] else "S"          # the flag travels in the pad's first character
        n = max(1, p[4] - fit(["T", p[1], mark]) + 1)
        for _ in range(64):
            t = ["T", p[1], mark + "y" * (n - 1)]
            d = fit(t) - p[4]
            if d == 0: return t
            n = max(1, n - d)
        raise RuntimeError("cannot build a message of exactly %d octets" % p[4])
    return ["T", p[1]] + ([BIG] if p[3] else []) + ([U()] if p[2] else [])


def untok(lst):
    """["T", id, ...] -> payload"""
    if not (isinstance(lst, (list, tuple)) and len(lst) >= 2 and lst[0] == "T" and isinstance(lst[1], int)):
        return ["bad", repr(lst)[:80]]
    rest = list(lst[2:])
    big = any(isinstance(x, str) and (x.startswith("B") or (not x.startswith("S") and len(x) >= 600)) for x in rest)
    unser = any(isinstance(x, U) or (isinstance(x, dict) and x.get("$obj") == "U") for x in rest)
    return ["val", lst[1], unser, big]


def dec_payload(args, kwargs):
    """(single, payload) of a YIELD / ERROR / call from its args, kwargs"""
    args = list(args) if args is not None else []
    kwargs = dict(kwargs) if kwargs else {}
    if not args and not kwargs:
        return False, ["empty"]
    if args == [None] and not kwargs:
        return True, ["none"]
    if len(args) == 1 and isinstance(args[0], (list, tuple)) and not kwargs:
        return True, untok(args[0])
    if args and args[0] == "T":
        p = untok(args)
        if kwargs not in ({}, {"kw": p[1]}):
            return False, ["bad", "kwargs " + repr(kwargs)[:60]]
        return False, p
    return False, ["bad", repr(args)[:80]]


URIS = {"wamp.error.type_check_error": ["type_check"], "wamp.error.runtime_error": ["runtime"], "wamp.error.invalid_payload": ["invalid_payload"],
        "wamp.error.payload_size_exceeded": ["payload_exceeded"]}


def dec_text(uri, text):
    """payload of an ERROR whose only argument is a text made by the library"""
    if text.startswith("success return value (args="):
        # the pre-0d005651 fallback text that embedded the offending payload: not in the model's vocabulary
        return ["bad", "fallback text embeds the payload: " + text[:50]]
    if uri == "wamp.error.invalid_payload":
        if text.startswith("success return value from invoked procedure"): return ["fb", "success_ser"]
        if text.startswith("error return value from invoked procedure"): return ["fb", "error_ser"]
    if uri == "wamp.error.payload_size_exceeded":
        # success() and error() use the same sentence here
        if text.startswith("success return value from invoked procedure"): return ["fb", "exceeded"]
    return ["text"]


def dec_wire(m):
    """marshalled message (list) -> log entry or None (message kinds outside C10)"""
    if m[0] == 70:
        opts = m[2] or {}
        single, p = dec_payload(m[3] if len(m) > 3 else None, m[4] if len(m) > 4 else None)
        extra = sorted(k for k in opts if k != "progress")
        if extra: return ["other", "yield options", extra]
        return ["sent", ["yield", m[1], single, p, bool(opts.get("progress", False))]]
    if m[0] == 8 and m[1] == 68:
        uri = m[4]
        mm = re.fullmatch(r"com\.err\.u(\d+)", uri)
        u = ["app", int(mm.group(1))] if mm else URIS.get(uri, ["bad", uri])
        args = m[5] if len(m) > 5 else None
        kwargs = m[6] if len(m) > 6 else None
        if m[3]: return ["other", "error details", sorted(m[3])]
        if args is not None and len(args) == 1 and isinstance(args[0], str) and not kwargs:
            p = dec_text(uri, args[0])
        else:
            single, p = dec_payload(args, kwargs)
            if single: p = ["bad", "single in error"]
        return ["sent", ["error", m[2], u, p]]
    return None


class _Objects:
    """instances given to session.register(obj): their truth value, equality and hash must not matter"""
    @staticmethod
    def make(flavour, methods):
        ns = dict(methods)
        if flavour in ("empty", "flip"):
            ns["__len__"] = lambda self: len(self.items)
        if flavour == "false":
            ns["__bool__"] = lambda self: False
        if flavour == "oddeq":
            def _boom(self): raise RuntimeError("truth value of a registered object was asked for")
            ns["__bool__"] = _boom
            ns["__eq__"] = lambda self, other: True
            ns["__ne__"] = lambda self, other: False
            ns["__hash__"] = lambda self: 0
        cls = type("Svc_" + flavour, (object,), ns)
        o = cls()
        o.items = [1] if flavour == "flip" else []
        return o


def dec_details(det):
    """CallDetails as the endpoint sees them -> [caller, caller_authid token, procedure token]"""
    aid = getattr(det, "caller_authid", None)
    if aid is not None:
        aid = 0 if aid == "" else (int(aid[1:]) if re.fullmatch(r"a\d+", aid) else -1)
    prc = getattr(det, "procedure", None)
    m = re.fullmatch(r"com\.[pq](\d+)", prc or "")
    return [getattr(det, "caller", None), aid, int(m.group(1)) if m else -1]


XNAMES = {"ProtocolError", "KeyError", "AttributeError", "TypeError", "SerializationError", "PayloadExceededError",
          "ValueError", "CBOREncodeError", "CBOREncodeTypeError"}


# ---- transports -------------------------------------------------------------------------------------------------
def mkser(name):
    return {"json": SER.JsonSerializer, "msgpack": SER.MsgPackSerializer, "cbor": SER.CBORSerializer}[name]()


def has_u(v):
    if isinstance(v, U): return True
    if isinstance(v, (list, tuple)): return any(has_u(x) for x in v)
    if isinstance(v, dict): return any(has_u(x) for x in v.values())
    return False


def fake_mode(tbl):
    """scripted send(): a transport with a 512-octet limit (measured on repr) whose serializer rejects U"""
    def act(r, what):
        if r == "sent": return
        if r == "ser": raise SerializationError("scripted: cannot serialize " + what)
        if r == "exc": raise PayloadExceededError("scripted: too big " + what)
        cls = {"TypeError": TypeError, "ValueError": ValueError, "KeyError": KeyError,
               "AttributeError": AttributeError}.get(r[1], RuntimeError)
        raise cls("scripted " + what)

    def mode(msg):
        if isinstance(msg, message.Yield) or (isinstance(msg, message.Error) and msg.request_type == 68):
            if has_u(msg.args) or has_u(msg.kwargs): act(tbl[1], "unser")
            elif len(repr(msg.args)) + len(repr(msg.kwargs)) > LIMIT: act(tbl[2], "big")
            else: act(tbl[0], "normal")
    return mode


def ws_frame(payload, binary, masked):
    n = len(payload)
    hdr = bytes([0x80 | (2 if binary else 1)])
    mb = 0x80 if masked else 0
    if n < 126: hdr += bytes([mb | n])
    elif n < 65536: hdr += bytes([mb | 126]) + struct.pack("!H", n)
    else: hdr += bytes([mb | 127]) + struct.pack("!Q", n)
    if masked: hdr += b"\x00\x00\x00\x00"
    return hdr + payload


class FakeLink:
    def __init__(self, tr, Sess):
        self.s = env.session(mixin=None, transport_mode=fake_mode(tr["tbl"]), auto_turn=False)
        self.s.join(); env.turn()
        self.session, self.transport = self.s.s, self.s.t
        self._n = len(self.s.log)
        assert self.session._session_id == 1234

    def new_msgs(self):
        new = [e[1] for e in self.s.log[self._n:] if e[0] == "send"]
        self._n = len(self.s.log)
        return new

    def prepare(self, wire):
        return wampdrv.parse(wire)

    def deliver(self, msg):
        self.session.onMessage(msg)

    def feed(self, wire):
        self.deliver(self.prepare(wire))

    def lose(self):
        self.transport._open = False
        self.session.onClose(False)


class RealLink:
    def __init__(self, tr, Sess):
        self.kind, self.role, self.sername, self.limit = tr["kind"], tr["role"], tr["ser"], tr.get("limit")
        self.wlog = []
        self.ser = mkser(self.sername)           # harness-side codec (octets <-> messages)
        mk = lambda: Sess(ComponentConfig(realm="realm1"))
        kind, role = self.kind, self.role
        if kind == "ws":
            if FW == "tx":
                import autobahn.twisted.websocket as W
                kw = {"reactor": env.clock}
            else:
                import autobahn.asyncio.websocket as W
                kw = {"loop": env.loop}
            F = W.WampWebSocketServerFactory if role == "server" else W.WampWebSocketClientFactory
            f = F(mk, "ws://localhost:9000", serializers=[mkser(self.sername)], **kw)
            if self.limit: f.setProtocolOptions(maxMessagePayloadSize=self.limit)
        else:
            if FW == "tx":
                import autobahn.twisted.rawsocket as R
            else:
                import autobahn.asyncio.rawsocket as R
            f = (R.WampRawSocketServerFactory(mk, serializers=[mkser(self.sername)]) if role == "server"
                 else R.WampRawSocketClientFactory(mk, serializer=mkser(self.sername)))
        self.factory = f
        self.proto = f.buildProtocol(wsdrv._Addr()) if FW == "tx" else f()
        self.lower = wsdrv.TxTransport(self.wlog) if FW == "tx" else wsdrv.AioTransport(self.wlog)
        self.classes = sorted({type(self.proto).__mro__[i].__name__ for i in range(1, 2)} | {type(self.proto).__name__})
        self._connect()
        self.transport = self.proto
        self._buf = b""

    def _bytes_in(self, data):
        (self.proto.dataReceived if FW == "tx" else self.proto.data_received)(data)
        env.turn()

    def _connect(self):
        (self.proto.makeConnection if FW == "tx" else self.proto.connection_made)(self.lower)
        env.turn()
        sub = ("wamp.2." + self.sername).encode()
        if self.kind == "ws":
            if self.role == "server":
                self._bytes_in(b"GET / HTTP/1.1\r\nHost: localhost:9000\r\nUpgrade: websocket\r\nConnection: Upgrade\r\n"
                               b"Sec-WebSocket-Key: dGhlIHNhbXBsZSBub25jZQ==\r\nSec-WebSocket-Version: 13\r\n"
                               b"Sec-WebSocket-Protocol: " + sub + b"\r\n\r\n")
            else:
                req = b"".join(bytes.fromhex(e[1]) for e in self.wlog if e[0] == "write")
                key = [l.split(b":", 1)[1].strip() for l in req.split(b"\r\n") if l.lower().startswith(b"sec-websocket-key:")][0]
                acc = base64.b64encode(hashlib.sha1(key + b"258EAFA5-E914-47DA-95CA-C5AB0DC85B11").digest())
                self._bytes_in(b"HTTP/1.1 101 Switching Protocols\r\nUpgrade: websocket\r\nConnection: Upgrade\r\n"
                               b"Sec-WebSocket-Accept: " + acc + b"\r\nSec-WebSocket-Protocol: " + sub + b"\r\n\r\n")
        else:
            serid = {"json": 1, "msgpack": 2, "cbor": 3}[self.sername]
            lexp = {512: 0, 1024: 1, None: 15}[self.limit]      # the PEER's receive limit = our send limit: 2**(9+lexp)
            self._bytes_in(bytes([0x7F, (lexp << 4) | serid, 0, 0]))
        self._mark = len(self.wlog)
        self.session = self.proto._session
        assert self.session is not None, ("no session attached", self.wlog[-3:])
        self.feed([2, 1234, {"roles": {"broker": {"features": {}}, "dealer": {"features": {
            "progressive_call_results": True, "call_canceling": True}}}}])
        assert self.session._session_id == 1234

    def prepare(self, wire):
        payload, binary = self.ser.serialize(wampdrv.parse(wire))
        if self.kind == "ws":
            return ws_frame(payload, binary, masked=(self.role == "server"))
        return struct.pack("!I", len(payload)) + payload

    def deliver(self, data):
        self._bytes_in(data)

    def feed(self, wire):
        self.deliver(self.prepare(wire))

    def new_msgs(self):
        """messages decoded from the octets written to the lower transport since the last call"""
        data = self._buf + b"".join(bytes.fromhex(e[1]) for e in self.wlog[self._mark:] if e[0] == "write")
        self._mark = len(self.wlog)
        out = []
        if self.kind == "ws":
            frames, rest = wsdrv.parse_frames(data)
            self._buf = rest
            for fr in frames:
                if fr["opcode"] in (1, 2) and fr["fin"]:
                    out += [wampdrv.canon(m.marshal()) for m in self.ser.unserialize(fr["payload"], fr["opcode"] == 2)]
                else:
                    out.append([-1, "ws frame", fr["opcode"]])
        else:
            i = 0
            while i + 4 <= len(data):
                n = struct.unpack("!I", data[i:i + 4])[0]
                if i + 4 + n > len(data): break
                out += [wampdrv.canon(m.marshal()) for m in self.ser.unserialize(data[i + 4:i + 4 + n])]
                i += 4 + n
            self._buf = data[i:]
        return out

    def lose(self):
        if FW == "tx":
            from twisted.python.failure import Failure
            from twisted.internet.error import ConnectionLost
            self.proto.connectionLost(Failure(ConnectionLost()))
        else:
            self.proto.connection_lost(ConnectionResetError("reset"))
        env.turn()


# ---- one case ---------------------------------------------------------------------------------------------------
class _ExcBase(Exception):
    pass


def run_case(case):
    L = []
    CUR["log"] = None
    tr = case["transport"]
    real = tr["kind"] != "fake"
    exc_classes = {}

    class Sess(env.ApplicationSession):
        def onUserError(self, fail, msg): pass

    link = (RealLink if real else FakeLink)(tr, Sess)
    sess = link.session
    sess.onUserError = lambda fail, msg: None

    def ecls(c):
        if c not in exc_classes:
            exc_classes[c] = type("E%d" % c, (_ExcBase,), {})
        return exc_classes[c]
    for c, u in case.get("ecls", []):
        sess.define(ecls(c), "com.err.u%d" % u)

    # wrap the transport's send (instance attribute; the session calls self._transport.send): a placeholder per
    # send() that returned normally; its content is filled in from what the transport actually wrote
    tsend = link.transport.send
    def send(msg):
        tsend(msg)
        if isinstance(msg, message.Yield) or (isinstance(msg, message.Error) and msg.request_type == 68):
            L.append(["sendok"])
    link.transport.send = send
    omsg = sess.onMessage
    def onMessage(msg):
        try:
            return omsg(msg)
        except BaseException as e:
            L.append(["raised", "msg", type(e).__name__])
            raise
    sess.onMessage = onMessage

    C = {"nextk": 0, "by_arg": {}, "k_of_arg": {}, "fut": {}, "det": {}, "regs": {}, "info": {}, "req_of_k": {}, "obj_of_reg": {}, "objs": {}}

    def slen(msg):
        return len(link.ser.serialize(msg)[0]) if real else 0

    def mkexc(e, req=0):
        if e[0] == "app":
            p = e[2]
            uri = "com.err.u%d" % e[1]
            if p[0] == "empty": return ApplicationError(uri)
            t = tok(p, (lambda t: slen(message.Error(68, req, uri, args=list(t), kwargs={"kw": p[1]}))) if real else None)
            return ApplicationError(uri, *t, kw=p[1])
        p = e[2]
        return ecls(e[1])(*(tok(p) if p[0] != "empty" else []))

    def mkret(r, req=0):
        kind, p = r
        if kind == "plain":
            if p[0] == "none": return None
            return tok(p, (lambda t: slen(message.Yield(req, args=[t]))) if real else None)
        return CallResult() if p[0] == "empty" else CallResult(*tok(p), kw=p[1])

    def call_progress(det, k, p, inside):
        if p[0] == "empty": a, kw = (), {}
        else: a, kw = tuple(tok(p)), {"kw": p[1]}
        if inside:
            prog = det.progress        # AttributeError if the endpoint got no details
            if prog is None:
                prog(*a, **kw)         # TypeError, as in user code that does not check
        else:
            prog = det.progress if det is not None else None
            if prog is None: return
        try:
            prog(*a, **kw)
        except BaseException as e:
            L.append(["prograised", k, type(e).__name__])
            if inside: raise

    def body_start(a, kw, det, reg, self_=None, is_method=False):
        """what the endpoint received: positional tuple a, keyword dict kw (without the details), details det;
        for a method of a registered object also what arrived as `self`"""
        single, p = dec_payload(a, kw)
        argid = p[1] if p[0] == "val" else None
        if is_method:
            oid = C["obj_of_reg"].get(reg)
            if oid is not None and self_ is C["objs"].get(oid): p = ["self", oid, p]
            else: p, argid = ["bad", "self is %r, args %r" % (type(self_).__name__, a[:2])], None
        k = C["k_of_arg"].get(argid, -1)
        info = C["info"].get(argid, {})
        L.append(["called", k, info.get("req", -1), reg, p if not single else ["bad", "single"],
                  None if det is None else [dec_details(det), callable(getattr(det, "progress", None))]])
        C["det"][k] = det
        C["req_of_k"][k] = info.get("req", 0)
        beh = C["by_arg"].get(argid, {"pre": [], "fin": ["ret", ["plain", ["none"]]]})
        for pp in beh["pre"]:
            call_progress(det, k, pp, True)
        return k, beh

    def finish(k, beh):
        """-> ("ret", value) | ("fut", future); raises for a raising endpoint"""
        fin = beh["fin"]
        req = C["req_of_k"].get(k, 0)
        if fin[0] == "ret": return "ret", mkret(fin[1], req)
        if fin[0] == "raise": raise mkexc(fin[1], req)
        f = txaio.create_future(); C["fut"][k] = f
        return "fut", f

    # signature kinds: (parameter list, expression for the positional tuple, expression for the keyword dict).
    # The session calls fn("T", id, kw=id [, details=CallDetails]); every endpoint reports exactly what it was given.
    SIGS = {
        "fixed":    ("t{T}, i{I}, kw, details=None",             "(t, i)",            "{'kw': kw}"),
        "defaults": ("t{T}, i{I}, kw=None, extra=5, details=None", "(t, i) + ((('extra', extra),) if extra != 5 else ())", "{'kw': kw}"),
        "varargs":  ("t{T}, *rest, kw=None, details=None",        "(t,) + tuple(rest)", "{'kw': kw}"),
        "varkw":    ("t{T}, i{I}, **opts",                       "(t, i)",            "dict(opts)"),
        "both":     ("*a, **opts",                               "tuple(a)",          "dict(opts)"),
        "kwonly":   ("t{T}, i{I}, *, kw, details=None",          "(t, i)",            "{'kw': kw}"),
        "short":    ("t{T}, details=None",                       "(t,)",              "{}"),
    }

    def make_ep(reg, wants, coro, sig="ok", kind="both"):
        params, aexpr, kexpr = SIGS["short" if sig == "short" else kind]
        params = params.replace("{T}", ": int" if sig == "ill" else ": str").replace("{I}", ": int")
        takes_opts = "**opts" in params
        lines = ["%sdef ep(%s):" % ("async " if coro else "", params),
                 "    _a, _k = %s, %s" % (aexpr, kexpr),
                 ("    _d = _k.pop('details', None)" if wants else "    _d = None") if takes_opts else "    _d = details",
                 "    k, beh = body_start(_a, _k, _d, REG)",
                 "    what, v = finish(k, beh)",
                 "    return (await v) if what == 'fut' else v" if coro else "    return v"]
        ns = {"body_start": body_start, "finish": finish, "REG": reg}
        exec("\n".join(lines), ns)
        return ns["ep"]

    def fill():
        """pair the send() placeholders with the messages the transport wrote, in order"""
        msgs = [m for m in (dec_wire(x) for x in link.new_msgs()) if m is not None]
        idx = [i for i, e in enumerate(L) if e == ["sendok"]]
        if len(idx) != len(msgs):
            L.append(["other", "desync", len(idx), len(msgs), msgs[:3]])
            for i in idx: L[i] = ["other", "unfilled"]
            return
        for i, m in zip(idx, msgs): L[i] = m

    def guarded(fn, *a):
        try: fn(*a)
        except BaseException: pass

    link.new_msgs()           # drop HELLO etc.
    CUR["log"] = L
    for opi, op in enumerate(case["ops"]):
        kind = op[0]
        L.append(["op", opi])
        if kind == "reg":
            reg, wants, coro = op[1:4]
            check, sig, skind = (op[4:7] if len(op) >= 7 else (False, "ok", "both"))
            prefix = bool(op[7]) if len(op) >= 8 else False
            C["obj_of_reg"].pop(reg, None) if reg not in sess._registrations else None
            try:
                sess.register(make_ep(reg, wants, coro, sig, skind), ("p%d" if prefix else "com.p%d") % reg,
                              options=RegisterOptions(details_arg="details") if wants else None,
                              check_types=True if check else None, **({"prefix": "com."} if prefix else {}))
            except BaseException:
                pass                    # TransportLost after the transport went away: API error, nothing to observe
            else:
                env.turn() if real else None
                rq = [m for m in link.new_msgs() if m[0] == 64]
                if rq:
                    if rq[-1][3] != "com.p%d" % reg: L.append(["other", "REGISTER for", rq[-1][3]])
                    guarded(link.deliver, link.prepare([65, rq[-1][1], reg]))
                    if reg in sess._registrations: C["regs"][reg] = sess._registrations[reg]
        elif kind == "regobj":
            # session.register(obj, options=call-level, prefix=...): a class with one decorated method per entry, in
            # list order (names sort in that order); own / call: None = no options object, False = RegisterOptions()
            # without details, True = RegisterOptions(details_arg="details")
            _, oid, flavour, call, prefix, methods = op
            from autobahn import wamp as _wamp
            mk_opts = lambda v: None if v is None else (RegisterOptions(details_arg="details") if v else RegisterOptions())
            ns = {}
            for i, (reg, own, coro) in enumerate(methods):
                wants = own if own is not None else bool(call)
                lines = ["%sdef ep(self_, *a, **opts):" % ("async " if coro else ""),
                         "    _k = dict(opts)",
                         "    _d = _k.pop('details', None)" if wants else "    _d = None",
                         "    k, beh = body_start(tuple(a), _k, _d, REG, self_, True)",
                         "    what, v = finish(k, beh)",
                         "    return (await v) if what == 'fut' else v" if coro else "    return v"]
                g = {"body_start": body_start, "finish": finish, "REG": reg}
                exec("\n".join(lines), g)
                fn = g["ep"]; fn.__name__ = "m%02d_%d" % (i, reg)
                ns[fn.__name__] = _wamp.register(("p%d" if prefix else "com.p%d") % reg, options=mk_opts(own))(fn)
            obj = _Objects.make(flavour, ns)
            C["objs"][oid] = obj
            fresh = [reg for reg, _, _ in methods if reg not in sess._registrations]
            try:
                sess.register(obj, options=mk_opts(call), **({"prefix": "com."} if prefix else {}))
            except BaseException as e:
                if sess._transport is not None: L.append(["other", "register(obj) raised", type(e).__name__, str(e)[:80]])
            else:
                env.turn() if real else None
                for m in [m for m in link.new_msgs() if m[0] == 64]:
                    mm = re.fullmatch(r"com\.p(\d+)", m[3])
                    if not mm:
                        L.append(["other", "REGISTER for", m[3]]); continue
                    reg = int(mm.group(1))
                    if reg in fresh: C["obj_of_reg"][reg] = oid        # a refused REGISTERED leaves the old registration
                    guarded(link.deliver, link.prepare([65, m[1], reg]))
                    if reg in sess._registrations and reg in fresh: C["regs"][reg] = sess._registrations[reg]
            if flavour == "flip": obj.items = []        # truthy while registering, falsy when the invocations arrive
        elif kind == "unreg":
            r = C["regs"].get(op[1])
            if r is not None and r.active and sess._transport is not None and op[1] in sess._registrations:
                try:
                    r.unregister()
                except BaseException as e:
                    L.append(["other", "unregister raised", type(e).__name__])
                else:
                    env.turn() if real else None
                    rq = [m for m in link.new_msgs() if m[0] == 66]
                    if rq: guarded(link.deliver, link.prepare([67, rq[-1][1]]))
                    C["regs"].pop(op[1], None)
        elif kind == "inv":
            _, req, reg, p, caller, rp, beh = op
            argid = p[1]
            k = C["nextk"]
            C["by_arg"][argid] = beh; C["k_of_arg"][argid] = k
            wants = bool(sess._registrations[reg].endpoint.details_arg) if reg in sess._registrations else False
            C["info"][argid] = {"req": req}
            pos = len(L)
            n_raised = sum(1 for e in L if e[:2] == ["raised", "msg"])
            # INVOCATION.Details: every option absent unless given; receive_progress tri-state (None / False / True)
            if isinstance(caller, int): caller = [caller, None, None]
            cal, aid, prc = caller[:3]
            details = {}
            if cal is not None: details["caller"] = cal
            if aid is not None: details["caller_authid"] = "" if aid == 0 else "a%d" % aid
            if prc is not None: details["procedure"] = "com.q%d" % prc
            if len(caller) > 3 and caller[3] is not None: details["timeout"] = caller[3]
            if rp is not None: details["receive_progress"] = bool(rp)
            guarded(link.deliver, link.prepare([68, req, reg, details, tok(p), {"kw": p[1]}]))
            if sum(1 for e in L if e[:2] == ["raised", "msg"]) == n_raised:
                oid = C["obj_of_reg"].get(reg)
                L.insert(pos, ["acc", k, req, reg, p if oid is None else ["self", oid, p], [cal, aid, prc], rp, wants])
                C["nextk"] = k + 1
            else:
                C["k_of_arg"].pop(argid, None)
        elif kind == "int":
            guarded(link.deliver, link.prepare([69, op[1], {}]))
        elif kind == "res":
            _, k, r = op
            f = C["fut"].get(k)
            if f is not None:
                try:
                    if r[0] == "ok": txaio.resolve(f, mkret(r[1], C["req_of_k"].get(k, 0)))
                    else: txaio.reject(f, txaio.create_failure(mkexc(r[1], C["req_of_k"].get(k, 0))))
                except BaseException:
                    pass                # AlreadyCalledError / InvalidStateError: the user's problem, nothing observable
        elif kind == "prog":
            _, k, p = op
            if k in C["det"]:
                call_progress(C["det"][k], k, p, False)
        elif kind == "lose":
            guarded(link.lose)
        elif kind == "turn":
            env.turn()
        if real:
            env.turn()
        fill()
    CUR["log"] = None
    left = sorted(sess._invocations) if sess is not None else []
    # let pending tasks die quietly
    for f in C["fut"].values():
        try:
            if FW == "aio" and not f.done(): f.cancel()
        except BaseException: pass
    env.turn()
    res = {"log": L, "left": left}
    if real: res["classes"] = [type(link.proto).__module__ + "." + type(link.proto).__name__]
    return res


results = []
_pfd = os.open(os.environ["AV_PROGRESS"], os.O_WRONLY | os.O_CREAT | os.O_TRUNC) if os.environ.get("AV_PROGRESS") else None
for ci, case in enumerate(inp["cases"]):
    try:
        results.append(run_case(case))
    except BaseException as e:
        import traceback
        results.append({"log": [["other", "driver", type(e).__name__, str(e)[:300], traceback.format_exc()[-600:]]], "left": []})
    if ci % 200 == 199:
        gc.collect()
json.dump({"results": results, "fw": FW, "autobahn": os.path.dirname(os.path.dirname(message.__file__))}, open(sys.argv[2], "w"))
