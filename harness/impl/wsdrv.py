"""Shared helper for drivers that exercise the REAL WebSocket protocol classes deterministically.

    import wsdrv
    env = wsdrv.Env("tx")            # or "aio"; selects txaio framework, installs a virtual clock/loop
    conn = env.connect("server", options={...}, factory_kwargs={...})   # real protocol + fake transport
    conn.handshake()                 # drive a real opening handshake (bytes) so that state == OPEN
    conn.feed(b"...")                # deliver octets as the framework would (dataReceived / data_received + turn)
    env.advance(1.5)                 # advance virtual time, firing timers
    conn.log                         # ordered observable events:
        ["write", hex] ["lose"] ["abort"] ["open"] ["msg", hex, isBinary] ["ping", hex] ["pong", hex]
        ["close", wasClean, code, reason] ["escaped", ExcClassName, str] ["connect", ...]
    conn.lost(clean=True)            # framework reports the transport gone (connectionLost / connection_lost)

Randomness is pinned: random.getrandbits (mask keys) and os.urandom/time_ns used by auto-ping are patched in
THIS process only (never in /repo).  Nothing here changes the code under test.
"""
import os, sys, random, struct, heapq, itertools, base64, hashlib

import txaio

_FRAMEWORK = None


class KeyStream:
    """deterministic replacement for random.getrandbits(32) -> successive keys"""
    def __init__(self, seed=1):
        self.r = random.Random(seed)
        self.issued = []

    def getrandbits(self, n):
        v = self.r.getrandbits(n)
        if n == 32:
            self.issued.append(struct.pack("!I", v))
        return v


class Env:
    def __init__(self, framework, key_seed=1):
        global _FRAMEWORK
        assert framework in ("tx", "aio")
        assert _FRAMEWORK in (None, framework), "one framework per process"
        _FRAMEWORK = framework
        self.fw = framework
        self.keys = KeyStream(key_seed)
        import autobahn.websocket.protocol as P
        self.P = P
        # pin mask keys (protocol.py uses random.getrandbits(32)) -- patch the name used by that module only
        class _R:  # minimal facade of the random module as used by protocol.py
            pass
        self._orig_random = P.random
        fac = _R()
        for n in dir(self._orig_random):
            if not n.startswith("__"):
                try: setattr(fac, n, getattr(self._orig_random, n))
                except Exception: pass
        fac.getrandbits = self.keys.getrandbits
        P.random = fac
        if framework == "tx":
            txaio.use_twisted()
            from twisted.internet.task import Clock
            self.clock = Clock()
            txaio.config.loop = self.clock
            import autobahn.twisted.websocket as W
        else:
            txaio.use_asyncio()
            import asyncio
            self.loop = VLoop()
            asyncio.set_event_loop(self.loop)
            txaio.config.loop = self.loop
            import autobahn.asyncio.websocket as W
        self.W = W

    # ---- time ----
    def now(self):
        return self.clock.seconds() if self.fw == "tx" else self.loop.time()

    def advance(self, dt):
        if self.fw == "tx":
            self.clock.advance(dt)
        else:
            self.loop.advance(dt)

    def turn(self):
        """run callbacks that are ready now (asyncio call_soon queue; twisted: zero-delay calls)"""
        if self.fw == "tx":
            self.clock.advance(0)
        else:
            self.loop.run_ready()

    def pending_timers(self):
        if self.fw == "tx":
            return sorted(round(c.getTime() - self.clock.seconds(), 6) for c in self.clock.getDelayedCalls())
        return self.loop.pending()

    # ---- connections ----
    def connect(self, role, options=None, factory_kwargs=None, protocol_mixin=None, url="ws://localhost:9000"):
        return Conn(self, role, options or {}, factory_kwargs or {}, protocol_mixin, url)


import asyncio as _asyncio


class VLoop(_asyncio.AbstractEventLoop):
    """Minimal deterministic event loop (virtual time) sufficient for asyncio.Future + txaio + autobahn."""
    def __init__(self):
        self._t = 0.0
        self._ready = []
        self._timers = []
        self._seq = itertools.count()
        self._debug = False
        self.exceptions = []

    # asyncio API used by Future / txaio / autobahn
    def get_debug(self): return False
    def time(self): return self._t
    def is_running(self): return True
    def is_closed(self): return False
    def create_future(self):
        import asyncio
        return asyncio.Future(loop=self)
    def create_task(self, coro, **kw):
        import asyncio
        return asyncio.Task(coro, loop=self, **kw)
    def call_soon(self, cb, *args, context=None):
        h = _Handle(cb, args, context)
        self._ready.append(h)
        return h
    call_soon_threadsafe = call_soon
    def call_later(self, delay, cb, *args, context=None):
        return self.call_at(self._t + max(0.0, delay), cb, *args, context=context)
    def call_at(self, when, cb, *args, context=None):
        h = _Handle(cb, args, context, when)
        heapq.heappush(self._timers, (when, next(self._seq), h))
        return h
    def call_exception_handler(self, ctx):
        self.exceptions.append(ctx)
    def _timer_handle_cancelled(self, h): pass

    # driving
    def run_ready(self, limit=100000):
        n = 0
        while self._ready and n < limit:
            h = self._ready.pop(0); n += 1
            if not h._cancelled:
                h._run(self)
        return n

    def advance(self, dt):
        target = self._t + dt
        self.run_ready()
        while self._timers and self._timers[0][0] <= target + 1e-12:
            when, _, h = heapq.heappop(self._timers)
            if h._cancelled:
                continue
            self._t = max(self._t, when)
            h._run(self)
            self.run_ready()
        self._t = target
        self.run_ready()

    def pending(self):
        return sorted(round(w - self._t, 6) for (w, _, h) in self._timers if not h._cancelled)


class _Handle:
    def __init__(self, cb, args, context, when=None):
        self._cb, self._args, self._cancelled, self._when = cb, args, False, when
        self._context = context
    def cancel(self): self._cancelled = True
    def cancelled(self): return self._cancelled
    def when(self): return self._when
    def _run(self, loop):
        try:
            if self._context is not None:
                self._context.run(self._cb, *self._args)
            else:
                self._cb(*self._args)
        except Exception as e:  # asyncio logs and continues
            loop.exceptions.append({"exception": e, "message": "callback raised"})


class _Addr:
    type = "TCP"; host = "127.0.0.1"; port = 12345


class TxTransport:
    """Fake Twisted transport; tolerant unregisterProducer (the stock StringTransport raises)."""
    def __init__(self, log):
        self.log = log; self.disconnecting = False; self.producer = None
    def write(self, data): self.log.append(["write", bytes(data).hex()])
    def writeSequence(self, seq):
        for d in seq: self.write(d)
    def loseConnection(self): self.log.append(["lose"]); self.disconnecting = True
    def abortConnection(self): self.log.append(["abort"]); self.disconnecting = True
    def registerProducer(self, p, s): self.producer = p
    def unregisterProducer(self): self.producer = None
    def getPeer(self): return _Addr()
    def getHost(self): return _Addr()
    def setTcpNoDelay(self, v): pass
    def pauseProducing(self): pass
    def resumeProducing(self): pass


class AioTransport:
    def __init__(self, log):
        self.log = log; self._closing = False
    def write(self, data): self.log.append(["write", bytes(data).hex()])
    def close(self): self.log.append(["lose"]); self._closing = True
    def abort(self): self.log.append(["abort"]); self._closing = True
    def is_closing(self): return self._closing
    def get_extra_info(self, name, default=None):
        if name == "peername": return ("127.0.0.1", 12345)
        if name == "sockname": return ("127.0.0.1", 9000)
        return default
    def pause_reading(self): pass
    def resume_reading(self): pass


class Conn:
    def __init__(self, env, role, options, factory_kwargs, mixin, url):
        self.env, self.role = env, role
        self.log = log = []
        W = env.W
        base = W.WebSocketServerProtocol if role == "server" else W.WebSocketClientProtocol
        conn = self

        class Obs(*( (mixin,) if mixin else () ), base):
            def onConnect(self, r):
                log.append(["connect"])
                sup = getattr(super(), "onConnect", None)
                return sup(r) if sup else None
            def onOpen(self): log.append(["open"])
            def onMessage(self, payload, isBinary): log.append(["msg", bytes(payload).hex(), bool(isBinary)])
            def onPing(self, payload):
                log.append(["ping", bytes(payload).hex()]); base.onPing(self, payload)
            def onPong(self, payload):
                log.append(["pong", bytes(payload).hex()]); base.onPong(self, payload)
            def onClose(self, wasClean, code, reason):
                log.append(["close", bool(wasClean), code, reason])
        kw = dict(factory_kwargs)
        if env.fw == "tx":
            kw["reactor"] = env.clock
        else:
            kw["loop"] = env.loop
        if role == "server":
            self.factory = W.WebSocketServerFactory(url, **kw)
        else:
            self.factory = W.WebSocketClientFactory(url, **kw)
        self.factory.protocol = Obs
        if options:
            self.factory.setProtocolOptions(**options)
        if env.fw == "tx":
            self.proto = self.factory.buildProtocol(_Addr())
            self.transport = TxTransport(log)
        else:
            self.proto = self.factory()
            self.transport = AioTransport(log)
        self.made = False

    # framework entry points, with "exception escaping to the framework" made observable
    def _entry(self, fn, *a):
        try:
            fn(*a)
        except BaseException as e:
            self.log.append(["escaped", type(e).__name__, str(e)[:200]])

    def make(self):
        if self.env.fw == "tx":
            self._entry(self.proto.makeConnection, self.transport)
        else:
            self._entry(self.proto.connection_made, self.transport)
            self.env.turn()
        self.made = True

    def feed(self, data):
        if self.env.fw == "tx":
            self._entry(self.proto.dataReceived, data)
        else:
            n0 = len(self.env.loop.exceptions)
            self._entry(self.proto.data_received, data)
            self.env.turn()
            for ctx in self.env.loop.exceptions[n0:]:
                e = ctx.get("exception")
                self.log.append(["escaped", type(e).__name__, str(e)[:200]])

    def feed_burst(self, chunks):
        """deliver several reads back to back BEFORE the event loop gets a turn (asyncio: several data_received calls
        queued behind one waiter wake-up, as with several TLS records in one segment; Twisted: same as feeding them
        one by one, dataReceived is synchronous)"""
        if self.env.fw == "tx":
            for c in chunks:
                self._entry(self.proto.dataReceived, c)
        else:
            n0 = len(self.env.loop.exceptions)
            for c in chunks:
                self._entry(self.proto.data_received, c)
            self.env.turn()
            for ctx in self.env.loop.exceptions[n0:]:
                e = ctx.get("exception")
                self.log.append(["escaped", type(e).__name__, str(e)[:200]])

    def lost(self, clean=True):
        if self.env.fw == "tx":
            from twisted.python.failure import Failure
            from twisted.internet.error import ConnectionDone, ConnectionLost
            self._entry(self.proto.connectionLost, Failure(ConnectionDone() if clean else ConnectionLost()))
        else:
            self._entry(self.proto.connection_lost, None if clean else ConnectionResetError("reset"))
            self.env.turn()

    # ---- a real opening handshake, octets only ----
    def handshake(self, extra_headers=b"", subprotocol=None):
        """Drive the protocol to STATE_OPEN through its real handshake code. Returns handshake octets written."""
        if not self.made:
            self.make()
        n0 = len(self.log)
        if self.role == "server":
            req = (b"GET / HTTP/1.1\r\nHost: localhost:9000\r\nUpgrade: websocket\r\nConnection: Upgrade\r\n"
                   b"Sec-WebSocket-Key: dGhlIHNhbXBsZSBub25jZQ==\r\nSec-WebSocket-Version: 13\r\n")
            if subprotocol:
                req += b"Sec-WebSocket-Protocol: " + subprotocol.encode() + b"\r\n"
            req += extra_headers + b"\r\n"
            self.feed(req)
        else:
            # client has written its request in connection made; find the key
            self.env.turn()
            req = b"".join(bytes.fromhex(e[1]) for e in self.log if e[0] == "write")
            key = None
            for line in req.split(b"\r\n"):
                if line.lower().startswith(b"sec-websocket-key:"):
                    key = line.split(b":", 1)[1].strip()
            assert key, req
            acc = base64.b64encode(hashlib.sha1(key + b"258EAFA5-E914-47DA-95CA-C5AB0DC85B11").digest())
            resp = (b"HTTP/1.1 101 Switching Protocols\r\nUpgrade: websocket\r\nConnection: Upgrade\r\n"
                    b"Sec-WebSocket-Accept: " + acc + b"\r\n")
            if subprotocol:
                resp += b"Sec-WebSocket-Protocol: " + subprotocol.encode() + b"\r\n"
            resp += extra_headers + b"\r\n"
            self.feed(resp)
        self.env.turn()
        hs = self.log[n0:]
        assert self.proto.state == self.env.P.WebSocketProtocol.STATE_OPEN, (self.proto.state, hs)
        return hs

    def state(self):
        return {0: "CLOSED", 1: "CONNECTING", 2: "CLOSING", 3: "OPEN", 4: "PROXY_CONNECTING"}.get(self.proto.state, str(self.proto.state))

    def call(self, name, *a, **kw):
        """call an API method of the protocol, recording exceptions as ["raised", cls]"""
        try:
            r = getattr(self.proto, name)(*a, **kw)
            self.env.turn()
            return r
        except BaseException as e:
            self.log.append(["raised", type(e).__name__, str(e)[:200]])
            return None


def parse_frames(data, expect_masked=None):
    """Independent, minimal RFC 6455 frame parser for octets WRITTEN by the implementation (oracle side).
    Returns (frames, rest); frame = dict(fin,rsv,opcode,masked,mask,length,payload(unmasked)) ; raises ValueError."""
    frames, i, n = [], 0, len(data)
    while True:
        if n - i < 2: break
        b0, b1 = data[i], data[i + 1]
        ln = b1 & 0x7F; j = i + 2
        if ln == 126:
            if n - j < 2: break
            ln = int.from_bytes(data[j:j + 2], "big"); j += 2
            if ln < 126: raise ValueError("non-minimal 16-bit length")
        elif ln == 127:
            if n - j < 8: break
            ln = int.from_bytes(data[j:j + 8], "big"); j += 8
            if ln < 65536 or ln >= 1 << 63: raise ValueError("non-minimal/oversize 64-bit length")
        masked = bool(b1 & 0x80); mask = None
        if masked:
            if n - j < 4: break
            mask = data[j:j + 4]; j += 4
        if n - j < ln: break
        p = data[j:j + ln]
        if masked: p = bytes(b ^ mask[k & 3] for k, b in enumerate(p))
        frames.append(dict(fin=bool(b0 & 0x80), rsv=(b0 >> 4) & 7, opcode=b0 & 15, masked=masked,
                           mask=mask.hex() if mask else None, length=ln, payload=p))
        i = j + ln
    return frames, data[i:]
