"""C08 (identifier part) implementation driver: runs the REAL validators of autobahn/wamp/message.py
(the tree under test: $AV_REPO/src is first on PYTHONPATH) and reports, per value, 35 outcome codes in the order of
coq/Model/WampUriRun.v `outcomes`:

   11 x <PATTERN>.match(v)                      1 match / 0 no match / 3 TypeError
   16 x check_or_raise_uri(v, strict, allow_empty_components, allow_last_empty, allow_none)   (flags F/T, last fastest)
    2 x check_or_raise_realm_name(v, allow_eth=True / False)
    1 x identify_realm_name_category(v)         0 None 1 standalone 2 eth 3 ens 4 reverse_ens (9 = raised)
    check_or_raise_id, check_or_raise_extra, _validate_kwargs
    is_valid_enc_algo, is_valid_enc_serializer  (truthiness)
 exception codes: 0 returned, 1 InvalidUriError, 2 ProtocolError, 3 TypeError, 4 AttributeError, 5 anything else

input : {"alphabet": [code points], "maxlen": n}   -> "enum": all strings over the alphabet up to length n,
                                                       in itertools.product order by increasing length
        {"values": [tagged value, ...]}            -> "values"
        {"parse": [[class name, wmsg], ...]}       -> "parse": outcome class of <Class>.parse(wmsg)
tagged values: {"t":"none"} {"t":"bool","v":b} {"t":"int","v":"<decimal>"} {"t":"float","v":x} {"t":"str","v":[cps]}
               {"t":"bytes","v":[octets]} {"t":"list","v":[tagged]} {"t":"dict","k":[tagged keys]}
"""
import itertools
import json
import os
import sys

sys.modules["bjdata"] = None
from autobahn.wamp import message as M                      # noqa: E402
from autobahn.wamp.exception import InvalidUriError, ProtocolError   # noqa: E402

_repo = os.path.realpath(os.environ.get("AV_REPO", "/repo"))
assert os.path.realpath(M.__file__).startswith(_repo + os.sep), (M.__file__, _repo)

PATS = ["_URI_PAT_REALM_NAME", "_URI_PAT_REALM_NAME_ETH", "_URI_PAT_REALM_NAME_ENS", "_URI_PAT_REALM_NAME_ENS_REVERSE",
        "_URI_PAT_STRICT_EMPTY", "_URI_PAT_LOOSE_EMPTY", "_URI_PAT_STRICT_NON_EMPTY", "_URI_PAT_LOOSE_NON_EMPTY",
        "_URI_PAT_STRICT_LAST_EMPTY", "_URI_PAT_LOOSE_LAST_EMPTY", "_CUSTOM_ATTRIBUTE"]
pats = [getattr(M, n) for n in PATS]
CATS = {None: 0, "standalone": 1, "eth": 2, "ens": 3, "reverse_ens": 4}
FLAGS = list(itertools.product((False, True), repeat=4))


def exc_code(e):
    t = type(e)
    if t is InvalidUriError: return "1"
    if t is ProtocolError: return "2"
    if t is TypeError: return "3"
    if t is AttributeError: return "4"
    return "5"


def call(f, *a, **kw):
    try:
        f(*a, **kw)
        return "0"
    except Exception as e:          # noqa: BLE001
        return exc_code(e)


def outcomes(v):
    o = []
    for p in pats:
        try:
            o.append("1" if p.match(v) else "0")
        except Exception as e:      # noqa: BLE001
            o.append(exc_code(e))
    for st, aec, ale, an in FLAGS:
        o.append(call(M.check_or_raise_uri, v, "m", strict=st, allow_empty_components=aec, allow_last_empty=ale,
                      allow_none=an))
    o.append(call(M.check_or_raise_realm_name, v, "m", allow_eth=True))
    o.append(call(M.check_or_raise_realm_name, v, "m", allow_eth=False))
    try:
        o.append(str(CATS[M.identify_realm_name_category(v)]))
    except Exception as e:          # noqa: BLE001
        o.append("9")
    o.append(call(M.check_or_raise_id, v))
    o.append(call(M.check_or_raise_extra, v))
    o.append(call(M._validate_kwargs, v))
    for f in (M.is_valid_enc_algo, M.is_valid_enc_serializer):
        try:
            o.append("1" if f(v) else "0")
        except Exception as e:      # noqa: BLE001
            o.append(exc_code(e))
    return "".join(o)


def untag(t):
    k = t["t"]
    if k == "none": return None
    if k == "bool": return bool(t["v"])
    if k == "int": return int(t["v"])
    if k == "float": return float(t["v"])
    if k == "str": return "".join(map(chr, t["v"]))
    if k == "bytes": return bytes(t["v"])
    if k == "list": return [untag(x) for x in t["v"]]
    if k == "dict": return {untag(x): i for i, x in enumerate(t["k"])}
    raise ValueError(k)


def main():
    inp = json.load(open(sys.argv[1]))
    out = {"file": M.__file__, "patterns": {n: p.pattern for n, p in zip(PATS, pats)}}
    if "alphabet" in inp:
        alpha = [chr(c) for c in inp["alphabet"]]
        res = []
        for n in range(inp["maxlen"] + 1):
            for tup in itertools.product(alpha, repeat=n):
                res.append(outcomes("".join(tup)))
        out["enum"] = res
    if "values" in inp:
        out["values"] = [outcomes(untag(t)) for t in inp["values"]]
    if "parse" in inp:
        pr = []
        for cls, wmsg in inp["parse"]:
            try:
                getattr(M, cls).parse(wmsg)
                pr.append("Ok")
            except Exception as e:  # noqa: BLE001
                pr.append(type(e).__name__)
        out["parse"] = pr
    json.dump(out, open(sys.argv[2], "w"))


main()
