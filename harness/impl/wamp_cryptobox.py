"""C20 implementation driver: WAMP-cryptobox end to end between two REAL ApplicationSessions with real PyNaCl.

Session A is the originator (publisher / caller), session B the responder (subscriber / callee); this driver is the
router and the attacker on the path.  Every message travels  msg -> Serializer.serialize -> bytes ->
Serializer.unserialize -> msg'  (json / msgpack / cbor), the bytes are searched for the clear payload.

input : {"fw": "tx"|"aio", "values": [...], "scenarios": [spec, ...]}
  spec = {"kind": "pubsub"|"call"|"error", "ser": ..., "A": ring|null, "B": ring|null, "uri": u,
          "args": [vi], "kwargs": [[k, vi]],
          "result": {"args": [vi], "kwargs": [[k,vi]]|null, "progress": bool},      # kind call
          "exc": {"error": uri, "args": [vi], "kwargs": [[k,vi]]},                     # kind error
          "fault1": fault|null,   # on PUBLISH->EVENT / CALL->INVOCATION
          "fault2": fault|null,   # on YIELD->RESULT / ERROR->ERROR
          "detail_uri": bool}     # EVENT / INVOCATION carry the topic / procedure detail
  ring  = {"default": key|null, "keys": [[prefix, key], ...]};  key = {"opriv","opub","rpriv","rpub": number|null}
          (private key number i = sha256(b"key<i>"); public key number i = its public key)
  fault = {"t": "flip", "pos": p, "mask": m} | {"t": "flip_all", "masks": [m...]} | {"t": "swap", "uri": u}
        | {"t": "ser"} | {"t": "algo"} | {"t": "trunc"} | {"t": "extend"}
output: per scenario a list of legs:
  {"leg": "publish_event"|"call_invocation"|"yield_result"|"error", "encrypted": bool, "clear_fields": bool,
   "leak": bool, "wire": {...}, "outcomes": [[outcome, count], ...], "odd": [...first deviating alterations...]}
  outcome = ["invoked", args, kwargs] | ["failed", uri] | ["ignored"] | ["raised", cls] | ["notsent", cls]
"""
import base64, hashlib, json, os, sys

import wampdrv

inp = json.load(open(sys.argv[1]))
env = wampdrv.Env(inp["fw"])

import txaio
from autobahn import wamp
from autobahn.wamp import message, types, exception
from autobahn.wamp.exception import ApplicationError
from autobahn.wamp import serializer as wser
from autobahn.wamp.cryptobox import KeyRing, Key
from nacl.public import PrivateKey
from nacl.encoding import Base64Encoder

assert os.path.realpath(wamp.__file__).startswith(os.path.realpath(os.environ.get("AV_REPO", "/repo"))), wamp.__file__

NOTE = 777777
ENC_URIS = ("wamp.error.encryption.decrypt_error", "wamp.error.encryption.trusted_uri_mismatch", "wamp.error.no_payload_codec")


def dec(v):
    if isinstance(v, dict):
        if set(v) == {"$b"}:
            return bytes.fromhex(v["$b"])
        if set(v) == {"$dt"}:
            import datetime
            return datetime.datetime.fromtimestamp(v["$dt"], tz=datetime.timezone.utc)   # CBOR can carry it, JSON cannot
        return {k: dec(x) for k, x in v.items()}
    if isinstance(v, list):
        return [dec(x) for x in v]
    return v


def canon(v):
    if isinstance(v, bytes):
        return {"$b": v.hex()}
    if type(v).__name__ == "datetime":
        return {"$dt": int(v.timestamp())}
    if isinstance(v, (list, tuple)):
        return [canon(x) for x in v]
    if isinstance(v, dict):
        return {str(k): canon(x) for k, x in v.items()}
    return v


VALUES = [dec(v) for v in inp["values"]]
VINDEX = {json.dumps(canon(v), sort_keys=True): i for i, v in enumerate(VALUES)}
MARKERS = [v.encode() for v in VALUES if isinstance(v, str) and v.startswith("SECRET")]


def vid(v):
    try:
        k = json.dumps(canon(v), sort_keys=True)
    except TypeError:
        return -1
    if k in VINDEX:
        return VINDEX[k]
    return NOTE if isinstance(v, str) and ("decrypt" in v or "encrypted" in v or "payload" in v or "URI" in v) else -1


def priv_b64(i):
    return base64.b64encode(hashlib.sha256(b"key%d" % i).digest()).decode()


def pub_b64(i):
    return PrivateKey(priv_b64(i).encode(), encoder=Base64Encoder).public_key.encode(encoder=Base64Encoder).decode()


def make_key(k):
    return Key(originator_priv=None if k.get("opriv") is None else priv_b64(k["opriv"]),
               originator_pub=None if k.get("opub") is None else pub_b64(k["opub"]),
               responder_priv=None if k.get("rpriv") is None else priv_b64(k["rpriv"]),
               responder_pub=None if k.get("rpub") is None else pub_b64(k["rpub"]))


def make_ring(r):
    if r is None:
        return None
    kr = KeyRing(default_key=make_key(r["default"]) if r.get("default") else None)
    for prefix, k in r.get("keys", []):
        kr.set_key(prefix, make_key(k))
    return kr


def make_serializer(name):
    return {"json": wser.JsonSerializer, "msgpack": wser.MsgPackSerializer, "cbor": wser.CBORSerializer}[name]()


def make_exc_class(cid, ctor):
    """kw: accepts any args/kwargs; plain: Exception subclass (no keywords); noarg: takes nothing"""
    if ctor == "kw":
        def __init__(self, *a, **k):
            Exception.__init__(self, *a)
            self.kwargs = k
        ns = {"__init__": __init__}
    elif ctor == "noarg":
        def __init__(self):
            Exception.__init__(self)
        ns = {"__init__": __init__}
    else:
        ns = {}
    return type("C%d" % cid, (Exception,), ns)


class Wire:
    def __init__(self):
        self.sent = []

    def __call__(self, msg):
        self.sent.append(msg)


def turn(n=4):
    for _ in range(n):
        env.turn()


class Run:
    def __init__(self, spec):
        self.spec = spec
        self.ser = make_serializer(spec["ser"])
        self.legs = []
        self.datas = []

    def hop(self, msg):
        data, is_binary = self.ser.serialize(msg)
        out = self.ser.unserialize(data, is_binary)
        assert len(out) == 1
        return out[0], data

    def new_session(self, ring, sid):
        w = Wire()
        s = env.session(transport_mode=w)
        s.s.onUserError = lambda fail, msg: s.log.append(["usererror", getattr(getattr(fail, "value", fail), "error", None), msg[:60]])
        s.join(session_id=sid)
        if ring is not None:
            s.s.set_payload_codec(make_ring(ring))
        return s, w

    # ---- what travelled
    def describe(self, msg, data, want_encrypted_markers):
        enc = bool(msg.enc_algo)
        return {"encrypted": enc, "clear_fields": enc and (msg.args is not None or msg.kwargs is not None),
                "leak": enc and any(m in data for m in want_encrypted_markers),
                "wire": {"type": type(msg).__name__, "enc_algo": msg.enc_algo, "enc_serializer": msg.enc_serializer,
                         "enc_key": msg.enc_key, "payload_len": len(msg.payload) if msg.payload else 0,
                         "args": None if msg.args is None else [vid(a) for a in msg.args],
                         "kwargs": None if msg.kwargs is None else [[k, vid(x)] for k, x in msg.kwargs.items()]}}

    # ---- alterations of a payload-carrying message: yields (label, fields)
    def alterations(self, msg, fault):
        base = dict(payload=msg.payload, enc_algo=msg.enc_algo, enc_serializer=msg.enc_serializer, enc_key=msg.enc_key,
                    args=msg.args, kwargs=msg.kwargs)
        if not fault or fault["t"] == "swap" or not msg.payload:
            yield None, base
            return
        p = msg.payload
        if fault["t"] == "flip":
            i = fault["pos"] % len(p)
            yield [i, fault["mask"]], dict(base, payload=p[:i] + bytes([p[i] ^ fault["mask"]]) + p[i + 1:])
        elif fault["t"] == "flip_all":
            for m in fault["masks"]:
                for i in range(len(p)):
                    yield [i, m], dict(base, payload=p[:i] + bytes([p[i] ^ m]) + p[i + 1:])
        elif fault["t"] == "trunc":
            yield "trunc", dict(base, payload=p[:-1])
        elif fault["t"] == "extend":
            yield "extend", dict(base, payload=p + b"\x00")
        elif fault["t"] == "ser":
            yield "ser", dict(base, enc_serializer="cbor")
        elif fault["t"] == "algo":
            yield "algo", dict(base, enc_algo="mqtt")
        else:
            raise ValueError(fault)

    def tally(self, leg, results):
        hist, odd = {}, []
        for label, out in results:
            k = json.dumps(out)
            hist[k] = hist.get(k, 0) + 1
        common = max(hist, key=hist.get) if hist else None
        for label, out in results:
            if json.dumps(out) != common and len(odd) < 5:
                odd.append({"alteration": label, "outcome": out})
        leg["outcomes"] = [[json.loads(k), n] for k, n in sorted(hist.items(), key=lambda kv: -kv[1])]
        leg["odd"] = odd
        leg["n_alterations"] = len(results)
        self.legs.append(leg)

    # ---------------------------------------------------------------- publish / event
    def pubsub(self):
        sp = self.spec
        A, aw = self.new_session(sp["A"], 1001)
        B, bw = self.new_session(sp["B"], 1002)
        f1 = sp.get("fault1")
        env_uri = f1["uri"] if f1 and f1["t"] == "swap" else sp["uri"]
        calls = []
        # 1-3 handlers on ONE subscription id (the broker answers every SUBSCRIBE for the topic with the same id),
        # with and without details_arg
        hspec = sp.get("handlers") or [False]

        def make_handler(idx, with_details):
            def handler(*a, **k):
                k.pop("details", None)
                calls.append([idx, [vid(x) for x in a], [[kk, vid(x)] for kk, x in k.items()]])
            return handler

        for idx, with_details in enumerate(hspec, 1):
            B.s.subscribe(make_handler(idx, with_details), env_uri,
                          options=types.SubscribeOptions(details_arg="details") if with_details else None)
            req = [m for m in bw.sent if isinstance(m, message.Subscribe)][-1].request
            B.recv_msg(message.Subscribed(req, 101))
            turn()
        assert len(B.s._subscriptions[101]) == len(hspec)
        args = [VALUES[i] for i in sp["args"]]
        kwargs = {k: VALUES[i] for k, i in sp["kwargs"]}
        try:
            A.s.publish(sp["uri"], *args, **kwargs)
        except Exception as e:
            self.legs.append({"leg": "publish_event", "encrypted": False, "outcomes": [[["notsent", type(e).__name__], 1]],
                              "odd": [], "n_alterations": 1, "clear_fields": False, "leak": False, "wire": None})
            return
        pub, data = self.hop([m for m in aw.sent if isinstance(m, message.Publish)][-1])
        leg = dict(leg="publish_event", **self.describe(pub, data, MARKERS))
        results = []
        for label, f in self.alterations(pub, f1):
            ev = message.Event(101, 9000 + len(results), topic=env_uri if sp.get("detail_uri") else None, **f)
            ev2, d2 = self.hop(ev)
            if ev2.enc_algo and any(m in d2 for m in MARKERS) and f["payload"] == pub.payload:
                leg["leak"] = True
            n0, nlog = len(calls), len(B.log)
            B.recv_msg(ev2)
            turn(2)
            raised = [e for e in B.log[nlog:] if e[0] == "raised"]
            if raised:
                results.append((label, ["raised", raised[0][2]]))
            else:
                results.append((label, ["handlers", calls[n0:]]))
        self.tally(leg, results)

    # ---------------------------------------------------------------- call / invocation / yield / result / error
    def call(self):
        sp = self.spec
        A, aw = self.new_session(sp["A"], 1001)
        B, bw = self.new_session(sp["B"], 1002)
        # exception classes the CALLER registers for error URIs: [[uri, ctor], ...] -> class C<10+i>
        for i, (ruri, ctor) in enumerate(sp.get("caller_reg") or []):
            A.s.define(make_exc_class(10 + i, ctor), ruri)
        f1, f2 = sp.get("fault1"), sp.get("fault2")
        env_uri = f1["uri"] if f1 and f1["t"] == "swap" else sp["uri"]
        res = sp.get("result") or {"args": [], "kwargs": None, "progress": False}
        exc = sp.get("exc")
        invoked = []
        progress_failed = []

        def endpoint(*a, details=None, **k):
            invoked.append(["invoked", [vid(x) for x in a], [[kk, vid(x)] for kk, x in k.items()]])
            if exc is not None:
                e = ApplicationError(exc["error"], *[VALUES[i] for i in exc["args"]])
                e.kwargs = {kk: VALUES[i] for kk, i in exc["kwargs"]}
                raise e
            ra = [VALUES[i] for i in res["args"]]
            rk = None if res["kwargs"] is None else {kk: VALUES[i] for kk, i in res["kwargs"]}
            if res.get("progress") and details.progress is not None:
                try:
                    details.progress(*ra, **(rk or {}))
                except Exception as e:            # the application sees the failure; it goes on to return the result
                    progress_failed.append(type(e).__name__)
            if rk is None and len(ra) == 1:
                return ra[0]
            return types.CallResult(*ra, **(rk or {}))

        # every way of registering the procedure env_uri; the REGISTER on the wire must carry the full URI in all of them
        reg_mode = sp.get("reg_mode", "plain")
        cut = env_uri.rfind(".") + 1
        pre, bare = env_uri[:cut], env_uri[cut:]
        ropts = types.RegisterOptions(details_arg="details")
        if reg_mode == "plain":
            B.s.register(endpoint, env_uri, options=ropts)
        elif reg_mode == "prefix":                       # register(fn, "proc1", prefix="com.myapp.")
            B.s.register(endpoint, bare, options=ropts, prefix=pre)
        elif reg_mode in ("decorated", "decorated_prefix"):
            uri_on_method = env_uri if reg_mode == "decorated" else bare

            class Obj:
                @wamp.register(uri_on_method, options=ropts)
                def method(self_, *a, details=None, **k):
                    return endpoint(*a, details=details, **k)
            B.s.register(Obj(), prefix=None if reg_mode == "decorated" else pre)
        elif reg_mode == "pattern":                      # prefix-matching registration: the router names the procedure
            B.s.register(endpoint, pre, options=types.RegisterOptions(details_arg="details", match="prefix"))
        else:
            raise ValueError(reg_mode)
        rmsg = [m for m in bw.sent if isinstance(m, message.Register)][-1]
        self.register_uri = rmsg.procedure
        B.recv_msg(message.Registered(rmsg.request, 201))
        turn()
        if reg_mode == "pattern":
            sp = dict(sp, detail_uri=True)
        args = [VALUES[i] for i in sp["args"]]
        kwargs = {k: VALUES[i] for k, i in sp["kwargs"]}

        def new_call(uri):
            """a fresh pending call on A; returns (request id, outcome dict)"""
            out = {"progress": []}
            opts = types.CallOptions(on_progress=lambda *a, **k: out["progress"].append(
                ["invoked", [vid(x) for x in a], [[kk, vid(x)] for kk, x in k.items()]])) if res.get("progress") else None
            kw = dict(kwargs)
            if opts:
                kw["options"] = opts
            fut = A.s.call(uri, *args, **kw)

            def ok(r):
                if isinstance(r, types.CallResult):
                    out["done"] = ["invoked", [vid(x) for x in r.results], [[kk, vid(x)] for kk, x in r.kwresults.items()]]
                else:
                    out["done"] = ["invoked", [] if r is None else [vid(r)], []]

            def err(f):
                v = f.value if hasattr(f, "value") else f
                if isinstance(v, ApplicationError):
                    out["done"] = ["failed", v.error]
                    out["err_args"] = [vid(a) for a in v.args]
                    out["err_text"] = str(v.args[0]) if v.args and isinstance(v.args[0], str) else ""
                    out["err_kwargs"] = [[kk, vid(x)] for kk, x in (v.kwargs or {}).items()]
                elif type(v).__name__.startswith("C") and type(v).__name__[1:].isdigit():
                    kw_ = getattr(v, "kwargs", None)
                    out["done"] = ["class", int(type(v).__name__[1:]), [vid(a) for a in v.args],
                                   [[kk, vid(x)] for kk, x in (kw_ if isinstance(kw_, dict) else {}).items()]]
                else:
                    out["done"] = ["failed-other", type(v).__name__]
            txaio.add_callbacks(fut, ok, err)
            return [m for m in aw.sent if isinstance(m, message.Call)][-1], out

        try:
            call_msg, out1 = new_call(sp["uri"])
        except Exception as e:
            self.legs.append({"leg": "call_invocation", "register_uri": self.register_uri, "encrypted": False, "outcomes": [[["notsent", type(e).__name__], 1]],
                              "odd": [], "n_alterations": 1, "clear_fields": False, "leak": False, "wire": None})
            return
        call1, data = self.hop(call_msg)
        leg = dict(leg="call_invocation", register_uri=self.register_uri, **self.describe(call1, data, MARKERS))
        results, replies = [], []
        for label, f in self.alterations(call1, f1):
            inv = message.Invocation(7001 + len(results), 201, procedure=env_uri if sp.get("detail_uri") else None,
                                     receive_progress=True if res.get("progress") else None, **f)
            inv2, d2 = self.hop(inv)
            n0, nlog, nsent = len(invoked), len(B.log), len(bw.sent)
            B.recv_msg(inv2)
            turn()
            raised = [e for e in B.log[nlog:] if e[0] == "raised"]
            new = [m for m in bw.sent[nsent:] if isinstance(m, (message.Yield, message.Error))]
            if raised:
                results.append((label, ["raised", raised[0][2]]))
            elif len(invoked) > n0:
                results.append((label, invoked[-1]))
                replies.append(new)
            elif new and isinstance(new[-1], message.Error):
                results.append((label, ["failed", new[-1].error]))
                replies.append(new)
            else:
                results.append((label, ["ignored"]))
        self.tally(leg, results)
        if len(results) != 1 or not replies or not replies[0]:
            return
        # ---- reply leg(s): the callee's YIELD (progressive and final) or ERROR go back to A
        if progress_failed:
            self.legs.append({"leg": "yield_result", "progress": True, "encrypted": False, "clear_fields": False, "leak": False,
                              "wire": None, "error_uri": None, "outcomes": [[["notsent", progress_failed[0]], 1]], "odd": [],
                              "n_alterations": 1})
        for rmsg in replies[0]:
            r1, rdata = self.hop(rmsg)
            is_err = isinstance(r1, message.Error)
            progressive = (not is_err) and bool(r1.progress)
            name = "error" if is_err else "yield_result"
            leg = dict(leg=name, progress=progressive, **self.describe(r1, rdata, MARKERS))
            leg["error_uri"] = r1.error if is_err else None
            results = []
            swap = f2["uri"] if f2 and f2["t"] == "swap" else None
            final_fault = f2 if not progressive or (f2 and f2["t"] != "swap") else None
            first = True
            for label, f in self.alterations(r1, f2):
                if first:
                    target_msg, out = call_msg, out1
                    first = False
                    if swap and not is_err:
                        target_msg, out = new_call(swap)        # the payload made for sp["uri"] answers a call to another URI
                else:
                    target_msg, out = new_call(swap or sp["uri"])
                if is_err:
                    m = message.Error(message.Call.MESSAGE_TYPE, target_msg.request, swap or r1.error, **f)
                else:
                    m = message.Result(target_msg.request, progress=True if progressive else None, **f)
                m2, d2 = self.hop(m)
                nlog, nprog = len(A.log), len(out["progress"])
                A.recv_msg(m2)
                turn()
                raised = [e for e in A.log[nlog:] if e[0] == "raised"]
                ue = [e for e in A.log[nlog:] if e[0] == "usererror"]
                if raised:
                    results.append((label, ["raised", raised[0][2]]))
                elif progressive:
                    if len(out["progress"]) > nprog:
                        results.append((label, out["progress"][-1]))
                    elif ue:
                        results.append((label, ["failed", ue[0][1]]))
                    else:
                        results.append((label, ["ignored"]))
                elif "done" in out:
                    o = out["done"]
                    if is_err and o[0] == "failed" and o[1] == (swap or r1.error) and (
                            o[1] not in ENC_URIS or "INVOCATION" in out.get("err_text", "")):
                        # the remote error itself arrived (an encryption error produced HERE, on the caller, never
                        # mentions the INVOCATION; one produced by the callee always does)
                        o = ["invoked", out["err_args"], out["err_kwargs"]]
                    results.append((label, o))
                else:
                    results.append((label, ["ignored"]))
            self.tally(leg, results)

    # ---------------------------------------------------------------- keyrings mutated while in use
    def history(self):
        """spec: {"kind": "history", "A": ring|null->empty KeyRing, "B": ..., "topics": [uri..], "procs": [uri..],
                  "ops": [["set", "A"|"B", prefix, key|null] | ["pub", ti, args, kwargs]
                          | ["call", pi, args, kwargs, {"result": {...}} | {"exc": {...}}]
                          | ["redeliver_pub", k] | ["redeliver_call", k]]}
        The SAME two sessions and KeyRing objects live through the whole history.  Every leg records how many set ops
        had been applied when its message was sealed ("sets_at_seal") and when it was received ("sets_at_recv")."""
        sp = self.spec
        A, aw = self.new_session(None, 1001)
        B, bw = self.new_session(None, 1002)
        ringA = make_ring(sp["A"] or {"default": None, "keys": []})
        ringB = make_ring(sp["B"] or {"default": None, "keys": []})
        A.s.set_payload_codec(ringA)
        B.s.set_payload_codec(ringB)
        events, invoked = [], []
        current = {}

        def make_handler(ti):
            def handler(*a, **k):
                events.append([1, [vid(x) for x in a], [[kk, vid(x)] for kk, x in k.items()]])
            return handler

        for ti, t in enumerate(sp["topics"]):
            B.s.subscribe(make_handler(ti), t)
            req = [m for m in bw.sent if isinstance(m, message.Subscribe)][-1].request
            B.recv_msg(message.Subscribed(req, 101 + ti))
            turn()

        def make_endpoint(pi):
            def endpoint(*a, **k):
                invoked.append(["invoked", [vid(x) for x in a], [[kk, vid(x)] for kk, x in k.items()]])
                how = current["how"]
                if "exc" in how:
                    e = ApplicationError(how["exc"]["error"], *[VALUES[i] for i in how["exc"]["args"]])
                    e.kwargs = {kk: VALUES[i] for kk, i in how["exc"]["kwargs"]}
                    raise e
                r = how["result"]
                ra = [VALUES[i] for i in r["args"]]
                rk = None if r["kwargs"] is None else {kk: VALUES[i] for kk, i in r["kwargs"]}
                if rk is None and len(ra) == 1:
                    return ra[0]
                return types.CallResult(*ra, **(rk or {}))
            return endpoint

        for pi, pr in enumerate(sp["procs"]):
            B.s.register(make_endpoint(pi), pr)
            req = [m for m in bw.sent if isinstance(m, message.Register)][-1].request
            B.recv_msg(message.Registered(req, 201 + pi))
            turn()

        nset = 0
        pubs, calls = [], []          # captured (message, uri index, sets_at_seal, payload args/kwargs)
        inv_id = [7000]

        def deliver_event(pub, ti, sealed_at, sent, opi):
            ev, d2 = self.hop(message.Event(101 + ti, 9000 + opi, payload=pub.payload, enc_algo=pub.enc_algo,
                                            enc_serializer=pub.enc_serializer, enc_key=pub.enc_key, args=pub.args, kwargs=pub.kwargs))
            n0, nlog = len(events), len(B.log)
            B.recv_msg(ev)
            turn(2)
            raised = [e for e in B.log[nlog:] if e[0] == "raised"]
            return ["raised", raised[0][2]] if raised else ["handlers", events[n0:]]

        def deliver_invocation(cm, pi):
            inv_id[0] += 1
            inv, d2 = self.hop(message.Invocation(inv_id[0], 201 + pi, payload=cm.payload, enc_algo=cm.enc_algo,
                                                  enc_serializer=cm.enc_serializer, enc_key=cm.enc_key, args=cm.args, kwargs=cm.kwargs))
            n0, nlog, nsent = len(invoked), len(B.log), len(bw.sent)
            B.recv_msg(inv)
            turn()
            raised = [e for e in B.log[nlog:] if e[0] == "raised"]
            new = [m for m in bw.sent[nsent:] if isinstance(m, (message.Yield, message.Error))]
            if raised:
                return ["raised", raised[0][2]], new
            if len(invoked) > n0:
                return invoked[-1], new
            if new and isinstance(new[-1], message.Error):
                return ["failed", new[-1].error], new
            return ["ignored"], new

        def leg(name, msg, data, out, opi, uri, sealed_at, sent, **extra):
            d = dict(leg=name, op=opi, uri=uri, sets_at_seal=sealed_at, sets_at_recv=nset, sent=sent,
                     outcomes=[[out, 1]], odd=[], n_alterations=1, **extra)
            d.update(self.describe(msg, data, MARKERS))
            self.legs.append(d)

        for opi, op in enumerate(sp["ops"]):
            if op[0] == "set":
                (ringA if op[1] == "A" else ringB).set_key(op[2], make_key(op[3]) if op[3] else None)
                nset += 1
            elif op[0] == "pub":
                ti, args, kwargs = op[1], op[2], op[3]
                A.s.publish(sp["topics"][ti], *[VALUES[i] for i in args], **{k: VALUES[i] for k, i in kwargs})
                pub, data = self.hop([m for m in aw.sent if isinstance(m, message.Publish)][-1])
                pubs.append((pub, data, ti, nset, [args, kwargs]))
                leg("publish_event", pub, data, deliver_event(pub, ti, nset, None, opi), opi, sp["topics"][ti], nset, [args, kwargs])
            elif op[0] == "redeliver_pub":
                if pubs:
                    pub, data, ti, at, sent = pubs[op[1] % len(pubs)]
                    leg("publish_event", pub, data, deliver_event(pub, ti, at, None, opi), opi, sp["topics"][ti], at, sent, redelivered=True)
            elif op[0] in ("call", "redeliver_call"):
                if op[0] == "call":
                    pi, args, kwargs, how = op[1], op[2], op[3], op[4]
                    out = {}
                    fut = A.s.call(sp["procs"][pi], *[VALUES[i] for i in args], **{k: VALUES[i] for k, i in kwargs})

                    def ok(r, out=out):
                        if isinstance(r, types.CallResult):
                            out["done"] = ["invoked", [vid(x) for x in r.results], [[kk, vid(x)] for kk, x in r.kwresults.items()]]
                        else:
                            out["done"] = ["invoked", [] if r is None else [vid(r)], []]

                    def err(f, out=out):
                        v = f.value if hasattr(f, "value") else f
                        out["done"] = ["failed", getattr(v, "error", type(v).__name__)]
                        out["err_args"] = [vid(a) for a in getattr(v, "args", [])]
                        out["err_kwargs"] = [[kk, vid(x)] for kk, x in (getattr(v, "kwargs", None) or {}).items()]
                        out["err_text"] = str(v.args[0]) if getattr(v, "args", None) and isinstance(v.args[0], str) else ""
                    txaio.add_callbacks(fut, ok, err)
                    call_msg = [m for m in aw.sent if isinstance(m, message.Call)][-1]
                    cm, data = self.hop(call_msg)
                    calls.append((cm, data, pi, nset, [args, kwargs], how))
                    at, sent, redel = nset, [args, kwargs], False
                else:
                    if not calls:
                        continue
                    cm, data, pi, at, sent, how = calls[op[1] % len(calls)]
                    out, call_msg, redel = None, None, True
                current["how"] = how
                o, replies = deliver_invocation(cm, pi)
                leg("call_invocation", cm, data, o, opi, sp["procs"][pi], at, sent, redelivered=redel)
                if redel or not replies:
                    continue
                r1, rdata = self.hop(replies[-1])
                is_err = isinstance(r1, message.Error)
                if is_err:
                    m = message.Error(message.Call.MESSAGE_TYPE, call_msg.request, r1.error, payload=r1.payload, enc_algo=r1.enc_algo,
                                      enc_serializer=r1.enc_serializer, enc_key=r1.enc_key, args=r1.args, kwargs=r1.kwargs)
                else:
                    m = message.Result(call_msg.request, payload=r1.payload, enc_algo=r1.enc_algo, enc_serializer=r1.enc_serializer,
                                       enc_key=r1.enc_key, args=r1.args, kwargs=r1.kwargs)
                nlog = len(A.log)
                A.recv_msg(self.hop(m)[0])
                turn()
                raised = [e for e in A.log[nlog:] if e[0] == "raised"]
                if raised:
                    o2 = ["raised", raised[0][2]]
                else:
                    o2 = out.get("done", ["ignored"])
                    if is_err and o2[0] == "failed" and o2[1] == r1.error and (
                            o2[1] not in ENC_URIS or "INVOCATION" in out.get("err_text", "")):
                        o2 = ["invoked", out["err_args"], out["err_kwargs"]]
                own_exc = is_err and "exc" in how and r1.error == how["exc"]["error"] and o[0] == "invoked"
                if is_err:
                    sent2 = [how["exc"]["args"], how["exc"]["kwargs"]] if own_exc else [[NOTE], []]
                else:
                    sent2 = [how["result"]["args"], how["result"]["kwargs"]]
                leg("error" if is_err else "yield_result", r1, rdata, o2, opi, sp["procs"][pi], nset, sent2,
                    error_uri=r1.error if is_err else None, own_exc=bool(own_exc), call_encrypted=bool(cm.enc_algo), progress=False)

    def run(self):
        try:
            if self.spec["kind"] == "history":
                self.history()
            elif self.spec["kind"] == "pubsub":
                self.pubsub()
            else:
                self.call()
            return {"legs": self.legs}
        except Exception as e:
            import traceback
            return {"legs": self.legs, "driver_error": type(e).__name__ + ": " + str(e)[:300], "tb": traceback.format_exc()[-1500:]}


_pfd = os.open(os.environ["AV_PROGRESS"], os.O_WRONLY | os.O_CREAT | os.O_TRUNC) if os.environ.get("AV_PROGRESS") else None
out = []
for spec in inp["scenarios"]:
    if _pfd is not None:
        b = json.dumps(spec).encode()
        os.pwrite(_pfd, b + b" " * max(0, 6000 - len(b)), 0)
    out.append(Run(spec).run())
json.dump({"results": out, "fw": inp["fw"]}, open(sys.argv[2], "w"))
