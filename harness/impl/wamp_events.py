"""C11 implementation driver: runs operation histories against the REAL ApplicationSession (subscriber side).

input  (argv[1], JSON): {"fw": "tx"|"aio", "cases": [[op, ...], ...]}
output (argv[2], JSON): {"fw":..., "results": [[[out, ...] per op] per case], "protocol_file": path}

ops (the same alphabet as coq/Model/SessionSub.v `op`):
  ["sub", H, topic]           session.subscribe(fn, "com.t<topic>", options)
  ["subobj", [[H, topic],..]] session.subscribe(obj) with one @wamp.subscribe-decorated method per entry
  ["unsub", label]            Subscription(label).unsubscribe()          (skipped if no such object exists yet)
  ["subscribed", req, sid]    onMessage(SUBSCRIBED)      ["unsubscribed", req]    onMessage(UNSUBSCRIBED)
  ["revoked", sid]            onMessage([35, 0, {"subscription": sid, "reason": ...}])
  ["error", rtype, req, uri]  onMessage([8, rtype, req, {}, "wamp.error.e<uri>"])
  ["event", {sub,pub,args,kwargs,publisher,topic,retained,authid,authrole,txhash,ff,shape}]   (ff = forward_for hops)        ["lose"]  transport lost
H = {"det": key|null, "sig": {"fixed": n, "va": bool, "kwo": [key,..], "vk": bool}, "check": bool, "ann": null|"int"|"str",
     "beh": ["ret"] | ["raise", tag] | ["unsub", [label,..]]}
    a REAL function  def h([self,] q<label>_0[: ann], .., q<label>_(n-1) [, *args] [, k=.., ..] [, **kw])  is built for every handler and
    subscribed with check_types=H["check"]   (legacy: sig null = *args, **kw; sig [..] = *args + those keyword-only names)
msgs delivered from INSIDE transport.send() (loopback transport): ["sub", H, topic, [msg,..]], ["unsub", label, [msg,..]],
     ["subobj", [[H, topic, [msg,..]],..], call_opts]; msg = one of the five router message ops above
H["opts"] = null | {"details": null|bool, "details_arg": key|null, "match": null|"exact"|"prefix"|"wildcard", "get_retained": null|bool}
outs: ["mark", k|"end"] (start of the k-th message delivered inside send / end of a batch), ["sent","sub",rid,topic,match,get_retained] ["sent","unsub",rid,sid] ["invoke",label,withobj,args,kwargs]
      ["usererror",label,exc] ["raised",exc] ["done","s"|"g"|"u",id,res]     exc = [class, extra]
A handler is identified by the request id of the SUBSCRIBE that registered it (= label).
Handlers record what they were called with at call time (values copied), so later mutation shows up.
"""
import gc, json, os, re, sys

import wampdrv
import txaio

inp = json.load(open(sys.argv[1]))
FW = inp["fw"]
env = wampdrv.Env(FW)

import autobahn
from autobahn import wamp
from autobahn.wamp import protocol as _protocol
from autobahn.wamp.types import SubscribeOptions, EventDetails
from autobahn.wamp.request import Subscription

REPO = os.environ.get("AV_REPO", "/repo")
assert os.path.realpath(_protocol.__file__).startswith(os.path.realpath(REPO) + os.sep), (_protocol.__file__, REPO)

KEYS = ["a", "b", "c", "details", "info"]
_M = object()


class UserExc(Exception):
    def __init__(self, tag):
        Exception.__init__(self, f"user{tag}")
        self.tag = tag


def topic_no(t):
    m = re.fullmatch(r"com\.t(\d+)", t or "")
    return int(m.group(1)) if m else t


def announce(obj):
    p = os.environ.get("AV_PROGRESS")
    if p:
        with open(p, "w") as f:
            f.write(json.dumps(obj))


def normH(H):
    sg = H.get("sig")
    if sg is None: sg = {"fixed": 0, "va": True, "kwo": [], "vk": True}
    elif isinstance(sg, list): sg = {"fixed": 0, "va": True, "kwo": list(sg), "vk": False}
    opts = H.get("opts")
    if "opts" not in H and H.get("det") is not None: opts = {"details_arg": H["det"]}      # legacy form
    return {"opts": opts, "sig": sg, "check": bool(H.get("check")), "ann": H.get("ann"), "beh": H["beh"]}


def mk_options(o):
    """the application's SubscribeOptions(...) call - may raise (AssertionError) like any user code"""
    if o is None: return None
    kw = {}
    if o.get("details") is not None: kw["details"] = o["details"]
    if o.get("details_arg") is not None: kw["details_arg"] = KEYS[o["details_arg"]]
    if o.get("match") is not None: kw["match"] = o["match"]
    if o.get("get_retained") is not None: kw["get_retained"] = o["get_retained"]
    return SubscribeOptions(**kw)


def wire_of(m):
    """wire-level list of a router message (top-level op or delivered from inside send())"""
    k = m[0]
    if k == "subscribed": return [33, m[1], m[2]]
    if k == "unsubscribed": return [35, m[1]]
    if k == "revoked": return [35, 0, {"subscription": m[1], "reason": "wamp.subscription.revoked"}]
    if k == "error": return [8, m[1], m[2], {}, f"wamp.error.e{m[3]}"]
    if k == "event":
        e = m[1]
        det = {}
        if e.get("publisher") is not None: det["publisher"] = e["publisher"]
        if e.get("topic") is not None: det["topic"] = f"com.t{e['topic']}"
        if e.get("retained") is not None: det["retained"] = e["retained"]
        if e.get("authid") is not None: det["publisher_authid"] = e["authid"]
        if e.get("authrole") is not None: det["publisher_authrole"] = e["authrole"]
        if e.get("txhash") is not None: det["transaction_hash"] = e["txhash"]
        if e.get("ff") is not None: det["forward_for"] = json.loads(json.dumps(e["ff"]))
        w = [36, e["sub"], e["pub"], det]
        kw = {KEYS[int(k_)]: v for k_, v in e["kwargs"].items()}
        if kw or e.get("shape") == "both":
            w += [list(e["args"]), kw]
        elif e["args"] or e.get("shape") == "args":
            w += [list(e["args"])]
        return w
    raise ValueError(k)


def label_of_fn(fn):
    """our function's label cell, also through the type_check wrapper (a closure over the function)"""
    cell = getattr(fn, "_av_label", None)
    if cell is not None: return cell[0]
    for c in (getattr(fn, "__closure__", None) or ()):
        try:
            v = c.cell_contents
        except ValueError:
            continue
        cell = getattr(v, "_av_label", None)
        if cell is not None: return cell[0]
    return -1


def exc_code(e):
    from autobahn.wamp import exception as X
    if isinstance(e, UserExc): return ["User", e.tag]
    if isinstance(e, X.TypeCheckError): return ["TypeCheck", 0]
    if isinstance(e, X.ApplicationError):
        u = e.error or ""
        m = re.fullmatch(r"wamp\.error\.e(\d+)", u)
        if m: return ["AppError", int(m.group(1))]
        if u == "wamp.close.transport_lost": return ["Closed", 0]
        return ["AppErrorOther", u]
    for cls, name in ((X.ProtocolError, "ProtocolError"), (X.TransportLost, "TransportLost")):
        if isinstance(e, cls): return [name, 0]
    if type(e) in (AssertionError, TypeError, Exception):
        return [type(e).__name__, 0]
    return ["Other", type(e).__name__]


class Runner:
    def __init__(self):
        self.s = env.session()
        self.s.join()
        self.log = self.s.log
        self.objs = {}          # label -> Subscription
        self.sess = self.s.s
        self.sess.onUserError = self.on_user_error      # observation only (instance attribute shadows the method)
        # transport mode "answers from inside send()": a loopback / in-process router link
        self.script, self.depth, self.nmark = [], 0, 0
        self.serials, self.await_label = [], []
        self.plain_send = self.s.t.send
        self.s.t.send = self.send

    def send(self, msg):
        if msg.MESSAGE_TYPE == 32 and self.await_label:
            self.await_label.pop(0)[0] = msg.request      # name the handler after the request that registers it
        self.plain_send(msg)
        if self.depth == 0 and self.script:
            batch = self.script.pop(0)
            self.depth += 1
            try:
                for m in batch:
                    self.log.append(["mark", self.nmark]); self.nmark += 1
                    try:
                        self.sess.onMessage(wampdrv.parse(wire_of(m)))
                    except BaseException as e:            # the transport reports it; the session call goes on
                        self.log.append(["raised", "onMessage/inside-send", type(e).__name__, str(e)[:160]])
            finally:
                self.depth -= 1
                self.log.append(["mark", "end"])

    # ---- observation
    def on_user_error(self, fail, msg):
        e = getattr(fail, "value", fail)
        lab = getattr(e, "_av_label", None)
        if lab is None:
            m = re.search(r"\b[hm]\d*_(\d+)\(\)", str(e))
            lab = self.serials[int(m.group(1))][0] if m else None
        if lab is None:            # TypeCheckError of the type_check wrapper names the offending parameter
            m = re.search(r"'q(\d+)_\d+' expected type", str(e))
            lab = self.serials[int(m.group(1))][0] if m else -1
        self.log.append(["usererror2", lab, exc_code(e)])

    def canon_kw(self, kw):
        out = {}
        for k in sorted(kw):
            v = kw[k]
            if isinstance(v, EventDetails):
                owner = label_of_fn(v.subscription.handler.fn)
                out[k] = {"$det": {"owner": owner, "sub": v.subscription.id, "pub": v.publication,
                                   "publisher": v.publisher, "topic": topic_no(v.topic), "retained": v.retained,
                                   "authid": v.publisher_authid, "authrole": v.publisher_authrole,
                                   "txhash": v.transaction_hash, "ff": json.loads(json.dumps(v.forward_for)),
                                   "enc_algo": v.enc_algo}}
            elif isinstance(v, (int, str, bool)) or v is None:
                out[k] = v
            else:
                out[k] = {"$other": repr(v)[:60]}
        return out


    def make_fn(self, H, method_index=None):
        """A real Python function with the signature the case asks for; its body records the call.
        Its label (= the id of the SUBSCRIBE request that registers it) is filled in when that message is sent."""
        runner = self
        cell = [-1]
        label = len(self.serials)          # serial number: travels in the function / parameter names
        self.serials.append(cell)
        self.await_label.append(cell)

        def body(args, kw):
            withobj = bool(args) and isinstance(args[0], DecoratedBase)
            rest = list(args[1:] if withobj else args)
            try:
                rest = json.loads(json.dumps(rest))
            except (TypeError, ValueError):
                rest = [repr(x)[:40] for x in rest]
            runner.log.append(["invoke", cell[0], withobj, rest, runner.canon_kw(kw)])
            beh = H["beh"]
            if beh[0] == "raise":
                e = UserExc(beh[1]); e._av_label = cell[0]
                raise e
            if beh[0] == "unsub":
                for t in beh[1]:
                    o = runner.objs.get(t)
                    if o is not None and o.active:
                        try:
                            r = o.unsubscribe()
                        except BaseException as e:
                            e._av_label = cell[0]
                            raise
                        runner.track(r, "u", t)
            return None

        selfarg = "self, " if method_index is not None else ""
        name = (f"m{method_index:02d}_{label}" if method_index is not None else f"h_{label}")
        sg = H["sig"]
        pos = [f"q{label}_{i}" for i in range(sg["fixed"])]      # the label travels in the parameter name (TypeCheckError text)
        params = [p + (f": {H['ann']}" if (i == 0 and H.get("ann")) else "") for i, p in enumerate(pos)]
        if sg["va"]: params.append("*args")
        elif sg["kwo"]: params.append("*")
        ks = [KEYS[k] for k in sg["kwo"]]
        params += [f"{k}=_M" for k in ks]
        if sg["vk"]: params.append("**kw")
        pairs = ", ".join(f"('{k}', {k})" for k in ks)
        got_args = f"({selfarg}{''.join(p + ', ' for p in pos)})" + (" + args" if sg["va"] else "")
        got_kw = f"dict([(k, v) for k, v in [{pairs}] if v is not _M]" + (", **kw)" if sg["vk"] else ")")
        src = f"def {name}({selfarg}{', '.join(params)}):\n    return _body({got_args}, {got_kw})\n"
        ns = {"_body": body, "_M": _M}
        exec(src, ns)
        fn = ns[name]
        fn._av_label = cell
        return fn


    # ---- future tracking: register Subscription objects as soon as the application would get them
    def watch_single(self, fut, label):
        def ok(sub):
            if isinstance(sub, Subscription): self.objs[label] = sub
            return sub
        txaio.add_callbacks(fut, ok, None)
        self.track(fut, "s", label)

    def watch_group(self, fut, g, labels):
        def ok(res):
            for lab, r in zip(labels, res):
                if isinstance(r, tuple) and len(r) == 2 and isinstance(r[0], bool): r = r[1]   # DeferredList item
                if isinstance(r, Subscription): self.objs[lab] = r
            return res
        txaio.add_callbacks(fut, ok, None)
        self.track(fut, "g", g)

    # ---- ops
    def do(self, op):
        k = op[0]
        s = self.s
        self.script, self.nmark = [], 0
        # API calls: the application attaches its callbacks to the returned future at once, before the loop turns again
        s.auto_turn = k not in ("sub", "subobj", "unsub")
        if k == "sub":
            H, topic = normH(op[1]), op[2]
            self.await_label = []
            fn = self.make_fn(H)
            self.script = [list(op[3])] if len(op) > 3 and op[3] else []

            def call():
                return self.sess.subscribe(fn, f"com.t{topic}", mk_options(H["opts"]),
                                           check_types=(True if H["check"] else None))
            fut = s._guard("api.subscribe", call)
            if fut is not None: self.watch_single(fut, fn._av_label[0])
        elif k == "subobj":
            self.await_label = []
            cells = []
            call_opts = op[2] if len(op) > 2 else None
            self.script = [list(m[2]) if len(m) > 2 and m[2] else [] for m in op[1]]
            if not any(self.script): self.script = []

            def call():
                ns = {}
                copts = mk_options(call_opts)
                for i, m in enumerate(op[1]):
                    H = normH(m[0])
                    fn = self.make_fn(H, method_index=i)
                    cells.append(fn._av_label)
                    fn = wamp.subscribe(f"com.t{m[1]}", options=mk_options(H["opts"]),
                                        check_types=(True if H["check"] else None))(fn)
                    ns[fn.__name__] = fn
                cls = type("Decorated", (DecoratedBase,), ns)
                return self.sess.subscribe(cls(), options=copts) if copts is not None else self.sess.subscribe(cls())
            fut = s._guard("api.subscribe", call)
            labels = [c[0] for c in cells]
            if fut is not None: self.watch_group(fut, labels[0] if labels and labels[0] >= 0 else -1, labels)
        elif k == "unsub":
            o = self.objs.get(op[1])
            if o is not None:
                self.script = [list(op[2])] if len(op) > 2 and op[2] else []
                r = s._guard("api.unsubscribe", o.unsubscribe)
                if r is not None: self.track(r, "u", op[1])
        elif k in ("subscribed", "unsubscribed", "revoked", "error", "event"):
            s.recv(wire_of(op))
        elif k == "lose":
            s.lose(False)
        else:
            raise ValueError(k)

    # ---- futures
    def track(self, fut, kind, ident):
        if not txaio.is_future(fut):
            self.log.append(["done2", kind, ident, ["other", repr(fut)[:40]]])
            return
        txaio.add_callbacks(fut, lambda r: self.log.append(["done2", kind, ident, self.res(r)]),
                            lambda f: self.log.append(["done2", kind, ident, ["err", exc_code(getattr(f, "value", f))]]))

    def res(self, v):
        if isinstance(v, Subscription): return ["sub", v.id]
        if isinstance(v, int) and not isinstance(v, bool): return ["num", v]
        if isinstance(v, list):      # gather result: DeferredList -> (success, value|Failure); asyncio -> value|exception
            items = []
            for r in v:
                if isinstance(r, tuple) and len(r) == 2 and isinstance(r[0], bool): r = r[1]
                r = getattr(r, "value", r) if not isinstance(r, Subscription) else r
                if isinstance(r, Subscription): items.append(["sub", r.id])
                elif isinstance(r, BaseException): items.append(["err", exc_code(r)])
                else: items.append(["other", repr(r)[:40]])
            return ["list", items]
        return ["other", repr(v)[:40]]

    # ---- log -> outs
    def outs(self, entries):
        o = []
        for e in entries:
            t = e[0]
            if t == "send":
                m = e[1]
                if m[0] == 32 and set(m[2]) <= {"match", "get_retained"} and re.fullmatch(r"com\.t\d+", m[3]):
                    o.append(["sent", "sub", m[1], int(m[3][5:]), m[2].get("match"), m[2].get("get_retained")])
                elif m[0] == 34:
                    o.append(["sent", "unsub", m[1], m[2]])
                else:
                    o.append(["sent", "other", m])
            elif t == "invoke":
                o.append(e)
            elif t == "usererror2":
                o.append(["usererror", e[1], e[2]])
            elif t == "usererror":
                o.append(["usererror", -1, ["Other", "unpatched"]])
            elif t == "raised":
                cls = e[2]
                o.append(["raised", [cls, 0] if cls in ("ProtocolError", "TransportLost", "AssertionError", "TypeError",
                                                         "Exception") else ["Other", cls]])
            elif t == "done2":
                o.append(["done", e[1], e[2], e[3]])
            elif t == "mark":
                o.append(["mark", e[1]])
            elif t == "cb":
                pass
            else:
                o.append(["other", e])
        return o


class DecoratedBase:
    pass


def run_case(ops):
    r = Runner()
    per_op = []
    for op in ops:
        n = len(r.log)
        r.do(op)
        env.turn()            # callbacks of futures handed out by the operation itself (asyncio: one loop turn later)
        per_op.append(r.outs(r.log[n:]))
    return per_op


# asyncio reports a never-retrieved future exception when the future is collected: keep collection out of the cases
# (a gather that never completes leaves its failed members unretrieved; that is asyncio's business, not the session's)
gc.disable()
gc.collect()
gc.freeze()               # the imported modules' objects are permanent: per-case collections stay cheap
results = []
for i, ops in enumerate(inp["cases"]):
    announce({"fw": FW, "index": i, "ops": ops})
    results.append(run_case(ops))
    gc.collect()
    if FW == "aio":
        del env.loop.exceptions[:]

def opts_probe(o):
    """the real options normalisation: [details_arg key|None, marshalled match, marshalled get_retained] or None (raised)"""
    from autobahn.wamp import message
    try:
        so = mk_options(o)
    except AssertionError:
        return None
    da = so.details_arg
    w = message.Subscribe(1, "com.t1", **so.message_attr()).marshal()[2]
    return [KEYS.index(da) if da in KEYS else (None if da is None else -1), w.get("match"), w.get("get_retained")]


json.dump({"fw": FW, "results": results, "protocol_file": _protocol.__file__,
           "opts": [opts_probe(o) for o in inp.get("opts_grid", [])]}, open(sys.argv[2], "w"))
