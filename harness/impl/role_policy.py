"""C15 role policy on the REAL protocol objects: with default options every frame a client writes has the MASK bit,
carries the next key of the (pinned) key stream, one key per frame, payload = XOR with that key; every frame a server
writes has no MASK bit and carries the payload verbatim."""
import json, sys, random
import wsdrv

inp = json.load(open(sys.argv[1]))
env = wsdrv.Env(inp["framework"], key_seed=inp["seed"])
rng = random.Random(inp["seed"])
bad, n_frames, cases = [], 0, 0
for role in ("client", "server"):
    for size in inp["sizes"]:
        for frag in (None, 1, 7, 126):
            c = env.connect(role)
            c.handshake()
            k0 = len(env.keys.issued)
            n0 = len(c.log)
            payload = rng.randbytes(size)
            ops = []
            c.call("sendMessage", payload, True, fragmentSize=frag); ops.append("msg")
            c.call("sendPing", b"pp"); ops.append("ping")
            c.call("sendPong", b"")
            wire = b"".join(bytes.fromhex(e[1]) for e in c.log[n0:] if e[0] == "write")
            frames, rest = wsdrv.parse_frames(wire)
            cases += 1
            keys = [k.hex() for k in env.keys.issued[k0:]]
            ok = rest == b""
            data = b"".join(f["payload"] for f in frames if f["opcode"] in (0, 2))
            ok = ok and data == payload
            if role == "client":
                ok = ok and all(f["masked"] for f in frames) and [f["mask"] for f in frames] == keys
            else:
                ok = ok and not any(f["masked"] for f in frames) and keys == []
            n_frames += len(frames)
            if not ok and len(bad) < 5:
                bad.append({"role": role, "size": size, "fragmentSize": frag, "wire": wire.hex()[:400],
                            "keys_drawn": keys, "frames": [(f["opcode"], f["masked"], f["mask"], f["length"]) for f in frames]})
json.dump({"cases": cases, "frames": n_frames, "bad": bad}, open(sys.argv[2], "w"))
