"""C15 role policy on the REAL protocol objects.

"By default" = the application never mentions a masking option (applyMask, maskClientFrames, maskServerFrames,
requireMaskedClientFrames).  Under every such configuration - the factory untouched, or setProtocolOptions() called
once / several times with any of the OTHER options (each set to its current value, so behaviour-neutral) - and through
every send API (sendMessage whole and fragmented, sendMessageFrame, the streaming API beginMessage/beginMessageFrame/
sendMessageFrameData/endMessage, prepared messages with doNotCompress on and off, ping, pong, close):

  client: every frame written has the MASK bit, carries the next key of the (pinned) key stream - one key per frame, in
          wire order - and its payload octets are the plaintext XOR that key;
  server: every frame written has no MASK bit, draws no key and carries the payload verbatim.

Input : {"framework": "tx"|"aio", "seed": int, "sizes": [...]}
Output: {"cases", "frames", "bad": [...], "configs": {...}, "apis": {...}, "optvec": [...]}
"""
import inspect, json, sys, random
import wsdrv

MASK_OPTS = ("applyMask", "maskClientFrames", "maskServerFrames", "requireMaskedClientFrames")

inp = json.load(open(sys.argv[1]))
env = wsdrv.Env(inp["framework"], key_seed=inp["seed"])
rng = random.Random(inp["seed"])
bad, n_frames, cases = [], 0, 0
stats_cfg, stats_api = {}, {}
optvec = []


def neutral_options(role):
    """every keyword of <role> factory.setProtocolOptions except the masking ones -> its CURRENT value on a fresh factory"""
    c = env.connect(role)
    sig = inspect.signature(c.factory.setProtocolOptions)
    out = {}
    for k in sig.parameters:
        if k in MASK_OPTS or k in ("self",):
            continue
        if not hasattr(c.factory, k):
            continue
        out[k] = getattr(c.factory, k)
    return out


def configs(role):
    """(name, [kwargs of successive setProtocolOptions calls]) - none of them mentions a masking option"""
    neu = neutral_options(role)
    keys = sorted(neu)
    yield "untouched", []
    yield "all-others-one-call", [dict(neu)]
    half = len(keys) // 2
    yield "two-calls", [{k: neu[k] for k in keys[:half]}, {k: neu[k] for k in keys[half:]}]
    yield "empty-call", [{}]
    for k in keys:
        yield "single:" + k, [{k: neu[k]}]


def chunks_of(b, n):
    return [b[i:i + n] for i in range(0, len(b), n)] or [b""]


def api_scripts(size, full):
    """(name, fn(conn, payload) -> list of expected data payload concatenations) ; each sends ONE message of `size`"""
    def whole(c, p): c.call("sendMessage", p, True)
    def frag(n):
        def f(c, p): c.call("sendMessage", p, True, fragmentSize=n)
        return f
    def text(c, p): c.call("sendMessage", bytes(65 + (b % 26) for b in p), False)
    def frame_api(c, p):
        c.call("beginMessage", True)
        for ch in chunks_of(p, max(1, len(p) // 3)):
            c.call("sendMessageFrame", ch)
        c.call("endMessage")
    def stream_api(c, p):
        c.call("beginMessage", True)
        for ch in chunks_of(p, max(1, len(p) // 2)):
            c.call("beginMessageFrame", len(ch))
            for d in chunks_of(ch, max(1, len(ch) // 2)):
                c.call("sendMessageFrameData", d)
        c.call("endMessage")
    def prepared(dnc):
        def f(c, p):
            pm = c.factory.prepareMessage(p, True, doNotCompress=dnc)
            c.call("sendPreparedMessage", pm)
        return f
    def prepared_default(c, p):
        pm = c.factory.prepareMessage(p)
        c.call("sendPreparedMessage", pm)
    yield "sendMessage", whole
    yield "prepared/doNotCompress=False", prepared(False)
    yield "prepared/doNotCompress=True", prepared(True)
    if full:
        yield "sendMessage/text", text
        for n in (1, 7, 126):
            yield f"sendMessage/fragmentSize={n}", frag(n)
        yield "sendMessageFrame", frame_api
        yield "streaming", stream_api
        yield "prepared/default-args", prepared_default


def run_case(role, cfg_name, calls, api_name, fn, size):
    global n_frames, cases
    c = env.connect(role)
    for kw in calls:
        c.factory.setProtocolOptions(**kw)
    c.handshake()
    if not optvec or all(o["role"] != role or o["config"] != cfg_name for o in optvec):
        if cfg_name in ("untouched", "all-others-one-call"):
            optvec.append({"role": role, "config": cfg_name,
                           "protocol": {k: repr(getattr(c.proto, k, "<absent>")) for k in MASK_OPTS}})
    k0, n0 = len(env.keys.issued), len(c.log)
    payload = rng.randbytes(size)
    expect = payload if "text" not in api_name else bytes(65 + (b % 26) for b in payload)
    fn(c, payload)
    c.call("sendPing", b"pp")
    c.call("sendPong", b"")
    c.call("sendClose", 1000, "bye")
    raised = [e for e in c.log[n0:] if e[0] == "raised"]
    wire = b"".join(bytes.fromhex(e[1]) for e in c.log[n0:] if e[0] == "write")
    try:
        frames, rest = wsdrv.parse_frames(wire)
        perr = None
    except ValueError as e:
        frames, rest, perr = [], wire, str(e)
    cases += 1
    stats_cfg[cfg_name.split(":")[0]] = stats_cfg.get(cfg_name.split(":")[0], 0) + 1
    stats_api[api_name] = stats_api.get(api_name, 0) + 1
    keys = [k.hex() for k in env.keys.issued[k0:]]
    why = []
    if perr or rest != b"":
        why.append("wire is not a sequence of whole frames" + (f" ({perr})" if perr else ""))
    if raised:
        why.append(f"send API raised {raised[0][1]}")
    data = b"".join(f["payload"] for f in frames if f["opcode"] in (0, 1, 2))
    if data != expect:
        why.append("data frames do not unmask to the plaintext sent")
    ctl = [(f["opcode"], f["payload"]) for f in frames if f["opcode"] >= 8]
    if ctl != [(9, b"pp"), (10, b""), (8, b"\x03\xe8bye")]:
        why.append("control frames do not unmask to the plaintext sent")
    if role == "client":
        if not all(f["masked"] for f in frames):
            why.append("client frame without MASK bit")
        elif [f["mask"] for f in frames] != keys:
            why.append("client frames do not carry one fresh key each, in wire order")
    else:
        if any(f["masked"] for f in frames):
            why.append("server frame with MASK bit")
        if keys:
            why.append("server drew masking keys")
    n_frames += len(frames)
    if why and len(bad) < 8:
        bad.append({"role": role, "config": cfg_name, "calls": [sorted(kw) for kw in calls], "api": api_name, "size": size,
                    "why": why, "wire": wire.hex()[:400], "keys_drawn": keys[:8],
                    "frames": [(f["opcode"], f["masked"], f["mask"], f["length"]) for f in frames][:12]})


only = inp.get("only")          # replay: {"role", "config", "api", "size"}
for role in ("client", "server"):
    for cfg_name, calls in configs(role):
        full = not cfg_name.startswith("single:")
        sizes = inp["sizes"] if full else [5]
        for size in sizes:
            for api_name, fn in api_scripts(size, full):
                if only and (role, cfg_name, api_name, size) != (only["role"], only["config"], only["api"], only["size"]):
                    continue
                run_case(role, cfg_name, calls, api_name, fn, size)
json.dump({"cases": cases, "frames": n_frames, "bad": bad, "configs": stats_cfg, "apis": stats_api, "optvec": optvec},
          open(sys.argv[2], "w"))
