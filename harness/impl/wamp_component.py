"""C14 implementation driver: the REAL autobahn Component (reconnect loop, _Transport counters, stop()) on a
virtual clock, one framework per process.

    Twisted : twisted.internet.testing.MemoryReactorClock installed as THE reactor; the real
              _create_transport_endpoint builds a real TCP4ClientEndpoint whose connectTCP() is recorded by the
              memory reactor (= one connection attempt, with its virtual time stamp).
    asyncio : wsdrv.VLoop (virtual time) + create_connection()/create_unix_connection() recorded the same way; the
              real Component._connect_transport / asyncio.wait_for run unchanged on that loop.

Every attempt is then *played* by the driver as the peer would: refuse, or accept and run a real WebSocket /
RawSocket opening handshake against the real client protocol, then WELCOME / ABORT / GOODBYE / transport loss, with a
real ApplicationSession on top.  random.normalvariate (only the name used by autobahn.wamp.component) is replaced in
THIS process by a scripted sample stream: sample = mu + z*sigma for scripted z, or a raw value.

The code under test is the tree named by AV_REPO (default /repo): ck.run_impl puts $AV_REPO/src first on PYTHONPATH;
the driver asserts that autobahn.wamp.component was really loaded from there.

payload: {"fw": "tx"|"aio", "cases": [case]}
case   : {"transports": [{"kind": "ws"|"rs", "max_retries": int, "max_retry_delay": num, "initial_retry_delay": num,
                           "retry_delay_growth": num, "retry_delay_jitter": num}],      # missing key = code default
          "main": bool, "fatal": null | [error-class names judged fatal], "listeners": bool,
          "samples": [["z", num] | ["raw", num]], "script": [[op, args...]]}
numbers are given as [numerator, denominator] or plain ints; the driver turns them into floats (exact for dyadics).
output : {"results": [{"log": [...]}]}   log entries:
   ["attempt", transport_idx, [num, den] virtual time]     a connection attempt reached the reactor / loop
   ["done", "ok"|"err", class]                            the future returned by start() fired
   ["listener", event, session#, extra]                    a listener registered on the COMPONENT was invoked
   ["session", n]                                          session factory called (n-th session created)
   ["escaped", class, text]                                exception escaped into the reactor / loop / a Deferred
   ["stop_call"] then ["stop", "ok"|"raised", class]       component.stop() is entered; returned / raised
   ["counters", [[attempts, successes, failures, permanent] per transport]]
   ["sample", [mu], [sigma]]                               normalvariate was called with these arguments
"""
import gc, json, os, sys, struct, base64, hashlib
from fractions import Fraction

sys.modules.setdefault("bjdata", None)

inp = json.load(open(sys.argv[1]))
FW = inp["fw"]

import txaio

if FW == "tx":
    txaio.use_twisted()
    from twisted.internet.testing import MemoryReactorClock
    from twisted.internet import main as _timain

    class AVReactor(MemoryReactorClock):
        """MemoryReactorClock + the one check every production reactor (ReactorBase.callLater) makes and the test
        clock omits: a negative delay is an AssertionError."""
        def callLater(self, delay, callable, *args, **kw):
            assert delay >= 0, f"{delay} is not greater than or equal to 0 seconds"
            return MemoryReactorClock.callLater(self, delay, callable, *args, **kw)

    REACTOR = AVReactor()
    _timain.installReactor(REACTOR)
    txaio.config.loop = REACTOR
else:
    txaio.use_asyncio()
    import asyncio
    import wsdrv

# ---- the code under test: whatever `import autobahn` resolves to (ck.run_impl puts $AV_REPO/src first) ----
import autobahn.wamp.component as WC
_REPO = os.path.realpath(os.environ.get("AV_REPO", "/repo"))
assert os.path.realpath(WC.__file__).startswith(_REPO + os.sep), (WC.__file__, _REPO)

if FW == "tx":
    from autobahn.twisted.component import Component
    from twisted.python.failure import Failure
    from twisted.internet.error import ConnectionDone, ConnectionLost, ConnectionRefusedError as TxRefused
    from twisted.internet import address
    from twisted.logger import globalLogPublisher
else:
    from autobahn.asyncio.component import Component
from autobahn.wamp.exception import ApplicationError


def num(x):
    if isinstance(x, list):
        return x[0] / x[1] if x[1] != 1 else (x[0] if isinstance(x[0], int) else float(x[0]))
    return x


def frac(x):
    f = Fraction(x)
    return [f.numerator, f.denominator]


# ---- scripted randomness (patched in this process only: the name `random` inside the component module) ----
class Samples:
    def __init__(self):
        self.q, self.log = [], None

    def normalvariate(self, mu, sigma):
        if self.log is not None:
            self.log.append(["sample", frac(mu), frac(sigma)])
        if not self.q:
            return mu
        kind, v = self.q.pop(0)
        v = num(v)
        return (mu + v * sigma) if kind == "z" else v


SAMPLES = Samples()


class _RandomFacade:
    def __getattr__(self, n):
        import random as _r
        return getattr(_r, n)

    def normalvariate(self, mu, sigma):
        return SAMPLES.normalvariate(mu, sigma)


WC.random = _RandomFacade()


# ---- asyncio: virtual loop that records connection attempts ----
if FW == "aio":
    class CLoop(wsdrv.VLoop):
        def __init__(self):
            super().__init__()
            self.attempts = []          # pending [idx-port, factory, waiter]

        def _conn(self, protocol_factory, port):
            waiter = self.create_future()
            self.on_attempt(port, protocol_factory, waiter)
            return waiter

        async def create_connection(self, protocol_factory=None, host=None, port=None, ssl=None, server_hostname=None, **kw):
            return await self._conn(protocol_factory, port)

        async def create_unix_connection(self, protocol_factory=None, path=None, **kw):
            return await self._conn(protocol_factory, int(path))

    LOOP = CLoop()
    asyncio.set_event_loop(LOOP)
    asyncio.events._set_running_loop(LOOP)
    txaio.config.loop = LOOP


def now():
    return REACTOR.seconds() if FW == "tx" else LOOP.time()


# ---- fake stream transports (peer side is the driver) ----
class TxT:
    def __init__(self):
        self.out = bytearray(); self.disconnecting = False; self.closed_by_client = None; self.producer = None
    def write(self, d): self.out += bytes(d)
    def writeSequence(self, s):
        for d in s: self.write(d)
    def loseConnection(self, *a):
        self.disconnecting = True
        if self.closed_by_client is None: self.closed_by_client = "lose"
    def abortConnection(self):
        self.disconnecting = True
        self.closed_by_client = "abort"
    def registerProducer(self, p, s): self.producer = p
    def unregisterProducer(self): self.producer = None
    def getPeer(self): return address.IPv4Address("TCP", "127.0.0.1", 9000)
    def getHost(self): return address.IPv4Address("TCP", "127.0.0.1", 50000)
    def setTcpNoDelay(self, v): pass
    def getTcpNoDelay(self): return True
    def pauseProducing(self): pass
    def resumeProducing(self): pass
    def stopProducing(self): pass


class AioT:
    def __init__(self):
        self.out = bytearray(); self._closing = False; self.closed_by_client = None
    def write(self, d): self.out += bytes(d)
    def close(self):
        self._closing = True
        if self.closed_by_client is None: self.closed_by_client = "lose"
    def abort(self):
        self._closing = True; self.closed_by_client = "abort"
    def is_closing(self): return self._closing
    def get_extra_info(self, name, default=None):
        if name == "peername": return ("127.0.0.1", 9000)
        if name == "sockname": return ("127.0.0.1", 50000)
        return default
    def pause_reading(self): pass
    def resume_reading(self): pass
    def set_write_buffer_limits(self, *a, **k): pass
    def get_write_buffer_size(self): return 0


def ws_frame(opcode, payload):
    n = len(payload)
    if n < 126: h = bytes([0x80 | opcode, n])
    elif n < 65536: h = bytes([0x80 | opcode, 126]) + struct.pack("!H", n)
    else: h = bytes([0x80 | opcode, 127]) + struct.pack("!Q", n)
    return h + payload


class Attempt:
    """one connection attempt and, once accepted, the peer side of that connection"""
    def __init__(self, case, idx, kind):
        self.case, self.idx, self.kind = case, idx, kind
        self.state = "pending"        # pending | failed | connected | lost
        self.proto = None; self.t = None; self.rd = 0; self.close_replied = False; self.hs_done = False
        self.claimed = False

    # -- framework plumbing --
    def refuse(self, errname):
        assert self.state == "pending"
        self.state = "failed"
        if FW == "tx":
            exc = {"refused": TxRefused(), "oserror": OSError(111, "refused"), "other": RuntimeError("boom")}[errname]
            self.wf.clientConnectionFailed(self.connector, Failure(exc))
        else:
            exc = {"refused": ConnectionRefusedError(111, "refused"), "oserror": OSError(111, "refused"),
                   "other": RuntimeError("boom")}[errname]
            self.waiter.set_exception(exc)
        self.case.settle()

    def connect(self):
        assert self.state == "pending"
        self.state = "connected"
        if FW == "tx":
            self.t = TxT()
            self.proto = self.wf.buildProtocol(self.t.getPeer())
            self.case.guard(self.proto.makeConnection, self.t)
        else:
            self.t = AioT()
            self.proto = self.factory()
            self.case.guard(self.proto.connection_made, self.t)
            self.waiter.set_result((self.t, self.proto))
        self.case.settle()

    def feed(self, data):
        if self.state != "connected":
            return
        if FW == "tx": self.case.guard(self.proto.dataReceived, data)
        else: self.case.guard(self.proto.data_received, data)
        self.case.settle()

    def drop(self, clean):
        if self.state != "connected":
            return
        self.state = "lost"
        if FW == "tx":
            self.case.guard(self.proto.connectionLost, Failure(ConnectionDone() if clean else ConnectionLost()))
        else:
            self.case.guard(self.proto.connection_lost, None if clean else ConnectionResetError("reset"))
        self.case.settle()

    # -- what the client wrote --
    def client_octets(self):
        d = bytes(self.t.out[self.rd:]); return d

    def take(self, n=None):
        d = bytes(self.t.out[self.rd:]) if n is None else bytes(self.t.out[self.rd:self.rd + n])
        self.rd += len(d); return d

    def client_msgs(self):
        """WAMP messages (json lists) the client has sent since the last call; notes a WebSocket close frame"""
        msgs = []
        if self.kind == "ws":
            fr, rest = wsdrv_parse(self.client_octets())
            self.rd += len(self.client_octets()) - len(rest)
            for f in fr:
                if f["opcode"] == 8: self.saw_close = True
                elif f["opcode"] in (1, 2): msgs.append(json.loads(f["payload"]))
        else:
            d = self.client_octets()
            while len(d) >= 4:
                ln = int.from_bytes(d[1:4], "big")
                if len(d) < 4 + ln: break
                if d[0] == 0: msgs.append(json.loads(d[4:4 + ln]))
                self.rd += 4 + ln; d = d[4 + ln:]
        return msgs

    saw_close = False
    session = None

    def handshake(self, ok=True):
        self.hs_done = True
        if self.kind == "ws":
            req = self.take()
            key = None
            for line in req.split(b"\r\n"):
                if line.lower().startswith(b"sec-websocket-key:"):
                    key = line.split(b":", 1)[1].strip()
            assert key, req
            if ok:
                acc = base64.b64encode(hashlib.sha1(key + b"258EAFA5-E914-47DA-95CA-C5AB0DC85B11").digest())
                self.feed(b"HTTP/1.1 101 Switching Protocols\r\nUpgrade: websocket\r\nConnection: Upgrade\r\n"
                          b"Sec-WebSocket-Accept: " + acc + b"\r\nSec-WebSocket-Protocol: wamp.2.json\r\n\r\n")
            else:
                self.feed(b"HTTP/1.1 503 Service Unavailable\r\n\r\n")
        else:
            req = self.take(4)
            assert len(req) == 4 and req[0] == 0x7F, req
            if ok:
                self.feed(bytes([0x7F, 0xF0 | (req[1] & 0x0F), 0, 0]))
            else:
                self.feed(bytes([0x7F, 0x10, 0, 0]))      # error 1: serializer unsupported

    def send_msg(self, m):
        p = json.dumps(m).encode()
        if self.kind == "ws": self.feed(ws_frame(1, p))
        else: self.feed(b"\x00" + len(p).to_bytes(3, "big") + p)

    def peer_cooperates(self):
        """the peer finishes whatever closing the client started (close frame reply + TCP close)"""
        if self.state != "connected":
            return False
        if self.kind == "ws" and self.hs_done:
            self.client_msgs_buffer = getattr(self, "client_msgs_buffer", []) + self.client_msgs()
            if self.saw_close and not self.close_replied:
                self.close_replied = True
                self.feed(ws_frame(8, struct.pack("!H", 1000)))
                if self.state == "connected":
                    self.drop(True)
                return True
        if self.t.closed_by_client:
            self.drop(self.t.closed_by_client == "lose")
            return True
        return False


def wsdrv_parse(data):
    import wsdrv as _w
    return _w.parse_frames(data)


class Case:
    def __init__(self, c):
        self.c = c
        self.log = []
        self.attempts = []
        self.sessions = []
        self.mains = []
        self.done_fired = 0
        self._settling = False
        self.target = None

    # exceptions leaving a framework entry point
    def guard(self, fn, *a, **kw):
        try:
            return fn(*a, **kw)
        except BaseException as e:
            self.log.append(["escaped", errclass(e), str(e)[:120]])

    def cur(self):
        return self.attempts[-1] if self.attempts else None

    def on_attempt(self, port, factory_or_wf, extra):
        idx = port - 9000
        a = Attempt(self, idx, self.kinds[idx])
        if FW == "tx": a.wf, a.connector = factory_or_wf, extra
        else: a.factory, a.waiter = factory_or_wf, extra
        self.attempts.append(a)
        self.log.append(["attempt", idx, frac(now())])

    def poll_tx_attempts(self):
        while self.n_tcp < len(REACTOR.tcpClients):
            host, port, wf, timeout, bind = REACTOR.tcpClients[self.n_tcp]
            self.on_attempt(port, wf, REACTOR.connectors[self.n_conn])
            self.n_tcp += 1; self.n_conn += 1
        while self.n_unix < len(REACTOR.unixClients):
            path, wf, timeout, checkpid = REACTOR.unixClients[self.n_unix]
            self.on_attempt(int(path), wf, REACTOR.connectors[self.n_conn])
            self.n_unix += 1; self.n_conn += 1

    def turn(self):
        if FW == "tx":
            self.guard(REACTOR.advance, 0)
            self.poll_tx_attempts()
        else:
            n0 = len(LOOP.exceptions)
            LOOP.run_ready()
            self.loop_exc(n0)

    def loop_exc(self, n0=None):
        for ctx in LOOP.exceptions[self.n_exc:]:
            e = ctx.get("exception")
            if e is None and "was destroyed but it is pending" in str(ctx.get("message", "")):
                continue       # artefact of ending a script while a connection attempt / sleep is still pending
            self.log.append(["escaped", errclass(e) if e is not None else "None", (str(e) or ctx.get("message", ""))[:120]])
        self.n_exc = len(LOOP.exceptions)

    def settle(self):
        """run everything that is ready *now* (zero-delay calls included) and let the peer finish closings"""
        if self._settling:
            return
        self._settling = True
        try:
            for _ in range(50):
                self.turn()
                progressed = False
                # zero-delay timers (txaio.call_later(0, ...)) belong to "now"
                if self.zero_timers():
                    self.advance(0.0); progressed = True
                for a in list(self.attempts):
                    if a.state == "connected":
                        self._settling = False
                        try:
                            if a.peer_cooperates(): progressed = True
                        finally:
                            self._settling = True
                if not progressed:
                    break
        finally:
            self._settling = False

    def timers(self):
        if FW == "tx":
            return sorted(c.getTime() - REACTOR.seconds() for c in REACTOR.getDelayedCalls())
        return sorted(w - LOOP._t for (w, _, h) in LOOP._timers if not h._cancelled)

    def zero_timers(self):
        t = self.timers()
        return bool(t) and t[0] <= 0

    def advance(self, dt):
        if FW == "tx":
            self.guard(REACTOR.advance, dt)
            self.poll_tx_attempts()
        else:
            LOOP.advance(dt)
            self.loop_exc()

    def is_done(self):
        return self.done_fired > 0

    def wait(self, limit=40):
        """let virtual time pass until a connection attempt is pending, or nothing is scheduled any more"""
        self.settle()
        for _ in range(limit):
            a = self.cur()
            if a is not None and a.state == "pending":
                return True
            t = self.timers()
            if not t:
                return False
            self.advance(max(t[0], 0.0))
            self.settle()
        return False

    def settle_light(self):
        self.turn()

    # ---- scenario ----
    def run(self):
        c = self.c
        SAMPLES.q = [list(s) for s in c.get("samples", [])]
        SAMPLES.log = self.log if c.get("log_samples") else None
        self.kinds = [t["kind"] for t in c["transports"]]
        self.n_exc = len(LOOP.exceptions) if FW == "aio" else 0
        if FW == "tx":
            self.n_tcp, self.n_unix, self.n_conn = len(REACTOR.tcpClients), len(REACTOR.unixClients), len(REACTOR.connectors)
            self.tx_errors = []
            obs = lambda ev: self.tx_errors.append(ev) if ev.get("log_failure") is not None or ev.get("isError") else None
            globalLogPublisher.addObserver(obs)
        else:
            LOOP.on_attempt = self.on_attempt
        try:
            self.build()
            for op in c["script"]:
                self.op(op)
            self.settle()
            self.finish()
        finally:
            if FW == "tx":
                globalLogPublisher.removeObserver(obs)
        return {"log": self.log}

    def build(self):
        c = self.c
        trs = []
        for i, t in enumerate(c["transports"]):
            d = {}
            if t["kind"] == "ws":
                d.update(type="websocket", url="ws://127.0.0.1:%d/ws" % (9000 + i), serializers=["json"])
                d["endpoint"] = {"type": "tcp", "host": "127.0.0.1", "port": 9000 + i}
            elif t["kind"] == "rs":
                d.update(type="rawsocket", url="rs://127.0.0.1:%d" % (9000 + i), serializer="json")
                d["endpoint"] = {"type": "tcp", "host": "127.0.0.1", "port": 9000 + i}
            else:   # "rsu": rawsocket over a unix endpoint
                d.update(type="rawsocket", url="rs://unix:%d" % (9000 + i), serializer="json")
                d["endpoint"] = {"type": "unix", "path": str(9000 + i)}
            for k in ("max_retries", "max_retry_delay", "initial_retry_delay", "retry_delay_growth", "retry_delay_jitter"):
                if k in t:
                    d[k] = num(t[k])
            trs.append(d)
        kw = {}
        if c.get("main"):
            def main(reactor, session):
                f = txaio.create_future()
                self.mains.append([getattr(session, "_av_n", 0), f])
                self.log.append(["main", getattr(session, "_av_n", 0)])
                return f
            kw["main"] = main
        fatal = c.get("fatal")
        if fatal is not None:
            def is_fatal(e):
                return errclass(e) in fatal
            kw["is_fatal"] = is_fatal
        self.comp = comp = Component(transports=trs, realm="realm1", **kw)
        base = comp.session_factory
        case = self

        class Sess(base):
            def onConnect(self_):
                case.log.append(["cb", "connect", self_._av_n]); return base.onConnect(self_)
            def onJoin(self_, details):
                case.log.append(["cb", "join", self_._av_n]); return base.onJoin(self_, details)
            def onLeave(self_, details):
                case.log.append(["cb", "leave", self_._av_n]); return base.onLeave(self_, details)
            def onDisconnect(self_):
                case.log.append(["cb", "disconnect", self_._av_n]); return base.onDisconnect(self_)

        def factory(cfg):
            s = Sess(cfg)
            case.sessions.append(s)
            s._av_n = len(case.sessions)
            if case.attempts: case.attempts[-1].session = s
            case.log.append(["session", len(case.sessions), len(case.attempts)])
            return s
        comp.session_factory = factory
        if c.get("listeners", True):
            def mk(ev):
                def h(session, *a, **kw):
                    n = case.sessions.index(session) + 1 if session in case.sessions else 0
                    extra = None
                    if ev == "leave": extra = a[0].reason
                    if ev == "disconnect": extra = bool(kw.get("was_clean"))
                    case.log.append(["listener", ev, n, extra])
                return h
            for ev in ("connect", "join", "ready", "leave", "disconnect"):
                comp.on(ev, mk(ev))
            comp.on("connectfailure", lambda comp_, e: case.log.append(["listener", "connectfailure", 0, errclass(e)]))

    def start(self):
        try:
            d = self.comp.start(REACTOR if FW == "tx" else LOOP)
        except BaseException as e:
            self.log.append(["escaped", type(e).__name__, "start: " + str(e)[:100]])
            return

        def ok(r):
            self.done_fired += 1
            self.log.append(["done", "ok", None if r is None else type(r).__name__])

        def err(f):
            self.done_fired += 1
            self.log.append(["done", "err", errclass(f.value)])
        txaio.add_callbacks(d, ok, err)
        self.start_f = d
        self.settle()

    def op(self, op):
        k = op[0]
        if k == "wait":
            # the outcome that follows is played on the attempt this wait ends with -- if there is a new one
            self.wait()
            a = self.cur()
            if a is not None and a.state == "pending" and not a.claimed:
                a.claimed = True; self.target = a
            else:
                self.target = None
            return
        a = self.target
        need = {"refuse": "pending", "connect": "pending", "hs_ok": "connected", "hs_bad": "connected", "drop": "connected",
                "welcome": "connected", "abort": "connected", "goodbye": "connected"}.get(k)
        if need and (a is None or a.state != need):
            self.log.append(["noop", k])
            return
        if k == "start": self.start()
        elif k == "advance": self.advance(num(op[1])); self.settle()
        elif k == "refuse": a.refuse(op[1] if len(op) > 1 else "refused")
        elif k == "connect": a.connect()
        elif k == "hs_ok": a.handshake(True)
        elif k == "hs_bad": a.handshake(False)
        elif k == "drop": a.drop(bool(op[1]))
        elif k == "welcome":
            a.send_msg([2, 1000 + len(self.attempts), {"roles": {"broker": {}, "dealer": {}}}])
        elif k == "abort": a.send_msg([3, {"message": "no"}, op[1]])
        elif k == "goodbye": a.send_msg([6, {}, op[1]])
        elif k == "leave":
            if a is None or a.session is None: self.log.append(["noop", k])
            else:
                self.guard(a.session.leave); self.settle()
        elif k in ("main_ok", "main_err"):
            f = self.take_main(a)
            if f is None:
                self.log.append(["noop", k])
            elif k == "main_ok": txaio.resolve(f, None)
            else: txaio.reject(f, txaio.create_failure(ValueError("main failed")))
            self.settle()
        elif k == "stop":
            self.log.append(["stop_call"])
            try:
                r = self.comp.stop()
                self.log.append(["stop", "ok", None])
            except BaseException as e:
                self.log.append(["stop", "raised", errclass(e)])
            self.settle()
        elif k == "restart":
            self.start()
        else:
            raise ValueError(op)

    def take_main(self, a):
        """the pending main() future of the session that runs on attempt a"""
        if a is None or a.session is None:
            return None
        for i in range(len(self.mains) - 1, -1, -1):
            if self.mains[i][0] == a.session._av_n:
                return self.mains.pop(i)[1]
        return None

    def finish(self):
        # anything still owed by a cooperative peer; then see what stays scheduled
        self.settle()
        self.log.append(["counters", [[t.connect_attempts, t.connect_sucesses, t.connect_failures, bool(t._permanent_failure)]
                                      for t in self.comp._transports]])
        self.log.append(["pending_timers", len([t for t in self.timers()])])
        self.comp = None; self.sessions = []; self.attempts = []; self.start_f = None; self.mains = []; self.target = None
        reset_world()          # whatever is still scheduled / recorded holds this case's objects
        gc.collect(); gc.collect()
        if FW == "tx":
            for ev in self.tx_errors:
                f = ev.get("log_failure")
                if f is not None:
                    self.log.append(["escaped", errclass(f.value), str(f.value)[:120]])
        else:
            self.loop_exc()


LOST = ("ConnectionLost", "ConnectionResetError", "TransportLost", "ConnectionDone", "ConnectionAborted")


def errclass(e):
    """canonical error class: what the is_fatal classifier and the logs see"""
    if isinstance(e, ApplicationError):
        return "app:" + str(e.error)
    n = type(e).__name__
    if n in LOST: return "lost"
    if n == "ConnectionRefusedError": return "refused"
    if n == "ValueError" and "main failed" in str(e): return "main"
    if n == "RuntimeError" and "Exhausted all transport" in str(e): return "exhausted"
    if n == "RuntimeError" and "boom" in str(e): return "other"
    if n in ("AlreadyCalledError", "InvalidStateError"): return "already_called"
    return n


def reset_world():
    """fresh virtual clock state between cases: nothing scheduled, virtual time 0 (keeps float sums exact)"""
    if FW == "tx":
        for c in list(REACTOR.getDelayedCalls()):
            c.cancel()
        REACTOR.rightNow = 0.0
        del REACTOR.tcpClients[:]; del REACTOR.unixClients[:]; del REACTOR.connectors[:]
    else:
        LOOP._timers.clear(); LOOP._ready.clear(); LOOP._t = 0.0
        del LOOP.exceptions[:]


def announce(c):
    p = os.environ.get("AV_PROGRESS")
    if p:
        with open(p, "w") as f:
            f.write(json.dumps(c))


results = []
for c in inp["cases"]:
    reset_world()
    if inp.get("announce"):
        announce(c)
    try:
        results.append(Case(c).run())
    except BaseException as e:
        import traceback
        results.append({"log": [["driver_error", type(e).__name__, traceback.format_exc()[-1500:]]]})
json.dump({"results": results}, open(sys.argv[2], "w"))
