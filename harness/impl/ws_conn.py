"""C05/C17 implementation driver: runs event sequences against the REAL WebSocket protocol classes of the tree under
test ($AV_REPO, first on PYTHONPATH) on a virtual clock (Twisted Clock or the asyncio VLoop of wsdrv) and returns,
per step, the canonical observation that the Gallina model (coq/Model/WsConn.v) must reproduce.

input : {"fw": "tx"|"aio", "cases": [{"cfg": {...}, "events": [[kind, args...], ...]}, ...]}
output: {"results": [{"steps": [obs0, obs1, ...]}, ...]}     obs0 = after connectionMade, obs_i = after event i
obs   : {"applied": bool, "out": [[t_ms, kind, ...], ...], "state": str, "now": ms, "timers": [abs ms, ...],
         "flags": {...}, "txt": hex of the reason octets of an internally generated close frame written in this step}

cfg   : proxy (client: explicit HTTP proxy), role, failByDrop, echo, openTO, closeTO, dropTO, pingInt, pingTO (all ms), pingSize, restart, t0 (ms)
events: ["proxyok"] ["proxybad"] ["hs"] ["badhs"] ["hsraise"] ["hsdeny"] (valid handshake, the application's onConnect raises an exception / ConnectionDeny)
        ["sendClose", code|null, reasonhex|null] ["sendMessage"] ["sendPing"] ["sendPong"]
        ["beginMessage"] ["sendMessageFrame"] ["endMessage"]            (streaming API, modelled)
        ["peerFrag", cont, fin] ["peerHead"] ["peerTail"]              (fragments / a frame split over two reads, modelled)
        ["sendMessageSync"] ["sendChopped"] ["tickus", microseconds]   (send queue; not in the Gallina model)
        ["beginMessageFrame", n] ["sendMessageFrameData", n] ["sendPrepared"]   (oracle-only)
        ["peerClose", code|null, reasonhex|null] ["peerClose1"] ["peerData"] ["peerPing"] ["peerPong", matching]
        ["peerViolation"] ["peerInvalid"] ["peerBig", n] (n-octet message; cfg maxMsg / maxFrame; oracle-only) ["tick", t_ms] ["tickrel", "next"|ms] ["peerDrop", clean] ["ownDrop"]
All times must be multiples of 125 ms (dyadic => exact in binary floating point on both virtual clocks).

An event that is not applicable in the current state (handshake octets outside CONNECTING, frames in CONNECTING or
after connectionLost, a second connectionLost, ownDrop before we dropped) is NOT delivered ("applied": false);
the model makes the same decision from its own state and the states are compared after every step.
"""
import base64, hashlib, json, os, struct, sys

inp = json.load(open(sys.argv[1]))
FW = inp["fw"]

REPO = os.environ.get("AV_REPO", "/repo")
sys.modules.setdefault("bjdata", None)
import autobahn
assert os.path.realpath(autobahn.__file__).startswith(os.path.realpath(REPO) + os.sep), (autobahn.__file__, REPO)
import wsdrv
import txaio

REASONS = [
    ("peer dropped the TCP connection without previous WebSocket closing handshake", "PeerDropped"),
    ("WebSocket opening handshake timeout (peer did not finish the opening handshake in time)", "OpenTO"),
    ("WebSocket closing handshake timeout (peer did not finish the closing handshake in time)", "CloseTO"),
    ("WebSocket closing handshake timeout (server did not drop TCP connection in time)", "DropTO"),
    ("WebSocket ping timeout (peer did not respond with pong in time)", "PingTO"),
]


def reason_class(r, hs_reason=False):
    if r is None:
        return "None"
    for lit, cls in REASONS:
        if r == lit:
            return cls
    if r.startswith("I dropped the WebSocket TCP connection: "):
        return "IDropped"
    return "Handshake" if hs_reason else "Other"


def frame(opcode, payload=b"", masked=False, fin=True, rsv=0):
    b0 = (0x80 if fin else 0) | (rsv << 4) | opcode
    n = len(payload)
    assert n <= 125
    if masked:
        key = b"\x11\x22\x33\x44"
        return bytes([b0, 0x80 | n]) + key + bytes(b ^ key[i & 3] for i, b in enumerate(payload))
    return bytes([b0, n]) + payload



class WireTok:
    """Incremental reader of the octets WE write (independent of autobahn's parser): one token list per transport.write.
    A frame that arrives complete in one write -> one frame token (as before).  A frame spread over several writes
    (streaming API, chopped writes) -> ["whdr", opcode, fin, length] when its header is complete, ["wpayload", n] for every
    write carrying n payload octets, and for control frames additionally the frame token when complete."""
    def __init__(self, client, ping_size):
        self.client, self.ping_size = client, ping_size
        self.hdr = b""; self.need = None; self.frame = None   # frame = dict while inside payload

    def mid_frame(self):
        return self.frame is not None or self.hdr != b""

    def frame_token(self, f):
        out = []
        if self.client != f["masked"] or f["rsv"]:
            out.append(["badframe", f["opcode"]])
        op, pl = f["opcode"], f["payload"]
        if op == 8:
            code = struct.unpack("!H", pl[:2])[0] if len(pl) >= 2 else None
            if len(pl) == 1:
                out.append(["badframe", 8])
            out.append(["wclose", code, pl[2:].hex() if len(pl) > 2 else None])
        elif op == 9:
            if len(pl) == self.ping_size and len(pl) >= 12 and pl != b"p":
                out.append(["wping", struct.unpack(">L", pl[8:12])[0]])
            else:
                out.append(["wping", None])
        elif op == 10:
            out.append(["wpong"])
        elif op in (0, 1, 2):
            out.append(["wdata", op, f["fin"], pl.decode("latin1")])
        else:
            out.append(["badframe", op])
        return out

    def feed(self, data):
        out, i, n = [], 0, len(data)
        whole_from = None
        while i < n:
            if self.frame is None:
                start_of_frame = (self.hdr == b"")
                if start_of_frame:
                    whole_from = i
                # collect header
                while i < n:
                    self.hdr += data[i:i + 1]; i += 1
                    h = self.hdr
                    if len(h) >= 2:
                        ln7 = h[1] & 0x7F
                        need = 2 + (2 if ln7 == 126 else 8 if ln7 == 127 else 0) + (4 if h[1] & 0x80 else 0)
                        if len(h) == need:
                            break
                h = self.hdr
                if len(h) < 2 or len(h) < 2 + (2 if (h[1] & 0x7F) == 126 else 8 if (h[1] & 0x7F) == 127 else 0) + (4 if h[1] & 0x80 else 0):
                    break                                   # header incomplete, wait for more octets
                ln7 = h[1] & 0x7F; j = 2
                if ln7 == 126: ln = int.from_bytes(h[2:4], "big"); j = 4
                elif ln7 == 127: ln = int.from_bytes(h[2:10], "big"); j = 10
                else: ln = ln7
                masked = bool(h[1] & 0x80); mask = h[j:j + 4] if masked else None
                self.frame = dict(fin=bool(h[0] & 0x80), rsv=(h[0] >> 4) & 7, opcode=h[0] & 15, masked=masked, mask=mask,
                                  length=ln, got=b"", whole=(start_of_frame and whole_from is not None), announced=False)
                self.hdr = b""
            f = self.frame
            take = min(f["length"] - len(f["got"]), n - i)
            f["got"] += data[i:i + take]; i += take
            if len(f["got"]) == f["length"]:
                pl = f["got"]
                if f["masked"]:
                    pl = bytes(b ^ f["mask"][k & 3] for k, b in enumerate(pl))
                f["payload"] = pl
                if f["whole"]:
                    out += self.frame_token(f)
                else:
                    if not f["announced"]:
                        out.append(["whdr", f["opcode"], f["fin"], f["length"]])
                    if take:
                        out.append(["wpayload", take])
                    if f["opcode"] >= 8:
                        out += self.frame_token(f)
                    else:
                        out.append(["wsplitdone", f["opcode"], pl.decode("latin1")])   # a split data frame is complete
                self.frame = None; whole_from = None
            else:
                # the write ends inside this frame
                if not f["announced"]:
                    out.append(["whdr", f["opcode"], f["fin"], f["length"]]); f["announced"] = True
                if take:
                    out.append(["wpayload", take])
                f["whole"] = False
        return out


class ConnectRaises:
    """application mixin: onConnect raises when told to (hsraise: an ordinary exception, hsdeny: ConnectionDeny)"""
    _on_connect = None

    def onConnect(self, r):
        if self._on_connect == "raise":
            raise RuntimeError("onConnect: no acceptable subprotocol \u00e4\u20ac " + "x" * 150)
        if self._on_connect == "deny":
            from autobahn.websocket.types import ConnectionDeny
            raise ConnectionDeny(ConnectionDeny.FORBIDDEN, "not for you")
        sup = getattr(super(), "onConnect", None)
        return sup(r) if sup else None


class Case:
    def __init__(self, cfg):
        self.cfg = cfg
        self.env = wsdrv.Env(FW)
        assert cfg["t0"] % 125 == 0
        self.env.advance(cfg["t0"] / 1000.0)
        self.role = cfg["role"]
        opts = dict(failByDrop=cfg["failByDrop"], echoCloseCodeReason=cfg["echo"],
                    openHandshakeTimeout=self.sec(cfg["openTO"]), closeHandshakeTimeout=self.sec(cfg["closeTO"]),
                    autoPingInterval=self.sec(cfg["pingInt"]), autoPingTimeout=self.sec(cfg["pingTO"]),
                    autoPingSize=cfg["pingSize"], autoPingRestartOnAnyTraffic=cfg["restart"])
        if self.role == "client":
            opts["serverConnectionDropTimeout"] = self.sec(cfg["dropTO"])
        if cfg.get("maxMsg"):
            opts["maxMessagePayloadSize"] = int(cfg["maxMsg"])      # oracle-only families: close 1009
        if cfg.get("maxFrame"):
            opts["maxFramePayloadSize"] = int(cfg["maxFrame"])
        fkw = {}
        if cfg.get("proxy") and self.role == "client":
            fkw["proxy"] = {"host": "127.0.0.1", "port": 8080}     # explicit HTTP proxy: CONNECT first (STATE_PROXY_CONNECTING)
        self.c = self.env.connect(self.role, options=opts, factory_kwargs=fkw, protocol_mixin=ConnectRaises)
        self.log = self.c.log
        self.p = self.c.proto
        self.gone = False
        self.marks = []          # (index in log, time ms) : entries from that index on happened at that time
        log = self.log
        txaio.add_callbacks(self.p.is_closed, lambda _: log.append(["is_closed"]), lambda f: log.append(["is_closed_err"]))
        txaio.add_callbacks(self.p.is_open, lambda _: log.append(["is_open"]), lambda f: log.append(["is_open_err"]))
        self.pos = 0
        self.wbuf = b""
        self.tok = WireTok(self.role == "client", cfg["pingSize"])
        self.http_done = False
        self.rx_tail = None          # the withheld rest of a partially delivered frame
        self.last_auto_ping = None
        self.c.make()
        self.settle()

    @staticmethod
    def sec(ms):
        return ms // 1000 if ms % 1000 == 0 else ms / 1000.0

    @staticmethod
    def ms(t):
        """seconds -> milliseconds: an int on the millisecond grid, else a float with microsecond resolution"""
        us = round(t * 1e6)
        assert abs(t * 1e6 - us) < 1e-3, t
        return us // 1000 if us % 1000 == 0 else us / 1000.0

    def now_ms(self):
        return self.ms(self.env.now())

    def settle(self):
        """run what is ready now without firing timers (asyncio call_soon queue)"""
        if FW == "aio":
            n0 = len(self.env.loop.exceptions)
            self.env.loop.run_ready()
            for ctx in self.env.loop.exceptions[n0:]:
                e = ctx.get("exception")
                self.log.append(["escaped", type(e).__name__, str(e)[:200]])

    # ---- time ----
    def next_deadline(self):
        if FW == "tx":
            ts = [c.getTime() for c in self.env.clock.getDelayedCalls()]
        else:
            ts = [w for (w, _, h) in self.env.loop._timers if not h._cancelled]
        return min(ts) if ts else None

    @staticmethod
    def snap(t):
        """nearest whole microsecond as a float (the grid values themselves are dyadic and unchanged by this)"""
        return round(t * 1e6) / 1e6

    def goto(self, d):
        """put the virtual clock at time d (never below the nearest whole microsecond, so that float dust of
        'now + 1e-5' style sums cannot push int(now + delay) into the previous second) and run what is due"""
        t = max(self.snap(d), d)
        try:
            if FW == "tx":
                if t > self.env.clock.rightNow:
                    self.env.clock.rightNow = t
                self.env.clock.advance(0)
            else:
                n0 = len(self.env.loop.exceptions)
                if t > self.env.loop._t:
                    self.env.loop._t = t
                self.env.loop.advance(0)
                for ctx in self.env.loop.exceptions[n0:]:
                    e = ctx.get("exception")
                    self.log.append(["escaped", type(e).__name__, str(e)[:200]])
        except BaseException as e:       # Twisted's Clock lets exceptions of delayed calls propagate
            self.log.append(["escaped", type(e).__name__, str(e)[:200]])

    def tick(self, t_ms):
        """advance to t_ms stopping at every pending deadline on the way (so that handlers see the time they were
        scheduled for on both virtual clocks); log entries are stamped with the time of the sub-step"""
        target = self.snap(t_ms / 1000.0)
        guard = 0
        while True:
            guard += 1
            assert guard < 100000
            d = self.next_deadline()
            if d is not None and d <= target + 1e-9:
                self.marks.append((len(self.log), None))
                self.goto(d)
                self.marks[-1] = (self.marks[-1][0], self.now_ms())
            else:
                break
        if target > self.env.now():
            self.marks.append((len(self.log), None))
            self.goto(target)
            self.marks[-1] = (self.marks[-1][0], self.now_ms())

    def timers(self):
        if FW == "tx":
            ts = [c.getTime() for c in self.env.clock.getDelayedCalls()]
        else:
            ts = [w for (w, _, h) in self.env.loop._timers if not h._cancelled]
        return sorted(self.ms(t) for t in ts)

    # ---- peer side ----
    def feed(self, data):
        self.c.feed(data)
        self.settle()

    def peer_frame(self, opcode, payload=b"", **kw):
        self.feed(frame(opcode, payload, masked=(self.role == "server"), **kw))

    def handshake(self, good):
        if self.role == "server":
            if good:
                req = (b"GET / HTTP/1.1\r\nHost: localhost:9000\r\nUpgrade: websocket\r\nConnection: Upgrade\r\n"
                       b"Sec-WebSocket-Key: dGhlIHNhbXBsZSBub25jZQ==\r\nSec-WebSocket-Version: 13\r\n\r\n")
            else:   # Upgrade to something else: failHandshake
                req = (b"GET / HTTP/1.1\r\nHost: localhost:9000\r\nUpgrade: foobar\r\nConnection: Upgrade\r\n"
                       b"Sec-WebSocket-Key: dGhlIHNhbXBsZSBub25jZQ==\r\nSec-WebSocket-Version: 13\r\n\r\n")
            self.feed(req)
        else:
            req = b"".join(bytes.fromhex(e[1]) for e in self.log if e[0] == "write")
            key = None
            for line in req.split(b"\r\n"):
                if line.lower().startswith(b"sec-websocket-key:"):
                    key = line.split(b":", 1)[1].strip()
            assert key, req
            acc = base64.b64encode(hashlib.sha1(key + b"258EAFA5-E914-47DA-95CA-C5AB0DC85B11").digest())
            if good:
                resp = (b"HTTP/1.1 101 Switching Protocols\r\nUpgrade: websocket\r\nConnection: Upgrade\r\n"
                        b"Sec-WebSocket-Accept: " + acc + b"\r\n\r\n")
            else:
                resp = b"HTTP/1.1 400 Bad Request\r\n\r\n"
            self.feed(resp)

    # ---- one event ----
    def state(self):
        return self.c.state()

    def apply(self, ev):
        k = ev[0]
        st = self.state()
        c = self.c
        if k in ("hs", "badhs"):
            if self.gone or st != "CONNECTING":
                return False
            self.handshake(k == "hs")
        elif k in ("hsraise", "hsdeny"):
            if self.gone or st != "CONNECTING":
                return False
            self.p._on_connect = "raise" if k == "hsraise" else "deny"
            try:
                self.handshake(True)
            finally:
                self.p._on_connect = None
        elif k in ("proxyok", "proxybad"):
            if self.gone or st != "PROXY_CONNECTING":
                return False
            self.feed(b"HTTP/1.1 200 Connection established\r\n\r\n" if k == "proxyok" else b"HTTP/1.1 403 Forbidden\r\n\r\n")
        elif k in ("sendMessage", "sendPing", "sendPong", "sendPrepared", "beginMessage", "sendMessageFrame", "endMessage",
                   "sendMessageSync", "sendChopped") and st == "OPEN" and int(getattr(self.p, "send_state", 0)) == 3:
            return False        # the application itself writing into its own unfinished frame: API misuse
        elif k == "sendClose":
            code, rh = ev[1], ev[2]
            kw = {}
            if code is not None: kw["code"] = code
            if rh is not None: kw["reason"] = bytes.fromhex(rh).decode("utf8")
            c.call("sendClose", **kw); self.settle()
        elif k == "sendMessage":
            c.call("sendMessage", b"m", True); self.settle()
        elif k == "beginMessage":
            c.call("beginMessage", True); self.settle()
        elif k == "sendMessageFrame":
            # outside a message (send_state GROUND) in OPEN the call is API misuse: it raises Exception, or AttributeError
            # (send_compressed does not exist before the first beginMessage); not offered
            if st == "OPEN" and int(getattr(self.p, "send_state", 0)) == 0:
                return False
            c.call("sendMessageFrame", b"fr"); self.settle()
        elif k == "endMessage":
            # outside a message in OPEN: API misuse (AttributeError before the first beginMessage, afterwards a stray
            # continuation frame); not offered
            if st == "OPEN" and int(getattr(self.p, "send_state", 0)) == 0:
                return False
            c.call("endMessage"); self.settle()
        elif k == "beginMessageFrame":      # raw streaming calls (oracle-only family); offered only where the API allows them
            if st == "OPEN" and int(getattr(self.p, "send_state", 0)) not in (1, 2):
                return False
            c.call("beginMessageFrame", int(ev[1])); self.settle()
        elif k == "sendMessageFrameData":
            if st == "OPEN" and int(getattr(self.p, "send_state", 0)) != 3:
                return False
            c.call("sendMessageFrameData", b"x" * int(ev[1])); self.settle()
        elif k == "sendPrepared":
            pm = c.factory.prepareMessage(b"PM", isBinary=True)
            c.call("sendPreparedMessage", pm); self.settle()
        elif k == "sendMessageSync":        # trickled through send_queue/_trigger/_send (_QUEUED_WRITE_DELAY)
            self.nsync = getattr(self, "nsync", 0) + 1
            c.call("sendMessage", b"s%d" % self.nsync, True, None, True); self.settle()
        elif k == "sendChopped":            # a frame written in 1-octet chops through the same queue
            # sendFrame is the unguarded low-level (fuzzing) API: "deliberately allows to send invalid frames ... because
            # of protocol state"; use it only where sendMessage would send
            if st != "OPEN":
                return False
            c.call("sendFrame", opcode=2, payload=b"cc", chopsize=1); self.settle()
        elif k == "tickus":                 # advance by ev[1] microseconds
            self.resolved = None
            self.tick((round(self.env.now() * 1e6) + int(ev[1])) / 1000.0)
        elif k == "sendPing":
            c.call("sendPing", b"p"); self.settle()
        elif k == "sendPong":
            c.call("sendPong", b"q"); self.settle()
        elif k == "tick":
            self.tick(ev[1])
        elif k == "tickrel":     # ["tickrel", "next"] -> earliest pending deadline (now + 1 s if none); ["tickrel", ms]
            now = self.now_ms()
            if ev[1] == "next":
                ts = self.timers()
                t = max(now, ts[0]) if ts else now + 1000
            else:
                t = now + int(ev[1])
            self.resolved = t
            self.tick(t)
        elif k == "peerDrop":
            if self.gone:
                return False
            self.gone = True
            c.lost(clean=bool(ev[1])); self.settle()
        elif k == "ownDrop":
            if self.gone or not any(e[0] in ("lose", "abort") for e in self.log):
                return False
            self.gone = True
            c.lost(clean=True); self.settle()
        else:
            if self.gone or st in ("CONNECTING", "PROXY_CONNECTING"):
                return False
            flow = st in ("OPEN", "CLOSING")
            inmsg = bool(getattr(self.p, "inside_message", False))
            partial = self.rx_tail is not None
            if k == "peerTail":
                if not (flow and partial):
                    return False
                data, self.rx_tail = self.rx_tail, None
                self.feed(data)
                return True
            if flow and partial:
                return False                       # whatever we sent now would be read as payload of the unfinished frame
            if k in ("peerData", "peerInvalid", "peerBig") and flow and inmsg:
                return False
            if k == "peerBig":              # a binary message of ev[1] octets (beyond maxMessagePayloadSize / maxFramePayloadSize)
                self.peer_frame(2, b"B" * int(ev[1]))
                return True
            if k == "peerHead":
                if not flow or inmsg:
                    return False
                fr_ = frame(2, b"hd", masked=(self.role == "server"))
                self.rx_tail = fr_[-1:]
                self.feed(fr_[:-1])
                return True
            if k == "peerFrag":
                cont, fin = bool(ev[1]), bool(ev[2])
                if not flow or cont != inmsg:
                    return False
                self.peer_frame(0 if cont else 2, b"f", fin=fin)
                return True
            if k == "peerClose":
                code, rh = ev[1], ev[2]
                p = (struct.pack("!H", code) if code is not None else b"") + (bytes.fromhex(rh) if rh is not None else b"")
                self.peer_frame(8, p)
            elif k == "peerClose1":
                self.peer_frame(8, b"\x03")
            elif k == "peerData":
                self.peer_frame(2, b"d")
            elif k == "peerPing":
                self.peer_frame(9, b"pp")
            elif k == "peerPong":
                pend = getattr(self.p, "autoPingPending", None)
                if ev[1]:
                    self.peer_frame(10, pend if pend else b"late")
                else:
                    # same length as the pending ping, one octet different (so that only the comparison with
                    # autoPingPending, not the unpacking of the payload, tells it apart)
                    self.peer_frame(10, (bytes([pend[0] ^ 0xFF]) + pend[1:]) if pend else b"nomatch-nomatch")
            elif k == "peerViolation":
                self.peer_frame(11, b"")
            elif k == "peerInvalid":
                self.peer_frame(1, b"\xff")
            else:
                raise ValueError(k)
        return True

    # ---- observation ----
    def observe(self, applied=True):
        entries = self.log[self.pos:]
        base = self.pos
        self.pos = len(self.log)
        now = self.now_ms()

        def time_of(i):
            t = None
            for (j, tm) in self.marks:
                if j <= i:
                    t = tm
            return now if t is None else t
        out, txt = [], None
        for off, e in enumerate(entries):
            t = time_of(base + off)
            k = e[0]
            if k == "write":
                data = bytes.fromhex(e[1])
                if not self.tok.mid_frame() and (data[:4] in (b"GET ", b"HTTP", b"CONN") or data[:1] == b"<"):
                    out.append([t, "http"])
                    continue
                for tk in self.tok.feed(data):
                    if tk[0] == "wdata":
                        out.append([t, "wdata", tk[3]])
                    else:
                        out.append([t] + tk)
            elif k in ("lose", "abort"):
                out.append([t, k])
            elif k == "open":
                out.append([t, "cbopen"])
            elif k == "msg":
                out.append([t, "cbmessage"])
            elif k == "ping":
                out.append([t, "cbping"])
            elif k == "pong":
                out.append([t, "cbpong"])
            elif k == "close":
                wasClean, code, reason = e[1], e[2], e[3]
                if wasClean:
                    out.append([t, "cbclose", True, code, None if reason is None else reason.encode("utf8").hex(), "None"])
                else:
                    cls = "Other"
                    pre, post = 'connection was closed uncleanly ("', '")'
                    if isinstance(reason, str) and reason.startswith(pre) and reason.endswith(post):
                        inner = reason[len(pre):-len(post)]
                        cls = reason_class(None if inner == "None" else inner, hs_reason=True)
                    out.append([t, "cbclose", False, code, None, cls])
            elif k == "is_open":
                out.append([t, "isopen"])
            elif k == "is_closed":
                out.append([t, "isclosed"])
            elif k == "raised":
                out.append([t, "raised", e[1]])
            elif k == "escaped":
                out.append([t, "escaped", e[1], e[2]])
            elif k == "connect":
                pass
            else:
                out.append([t, "other", k])
        self.marks = []
        p = self.p
        flags = dict(closedByMe=bool(p.closedByMe), failedByMe=bool(p.failedByMe), droppedByMe=bool(p.droppedByMe),
                     wasClean=bool(p.wasClean), ncr=reason_class(p.wasNotCleanReason, hs_reason=True),
                     wasOpenTO=bool(p.wasOpenHandshakeTimeout), wasCloseTO=bool(p.wasCloseHandshakeTimeout),
                     wasDropTO=bool(p.wasServerConnectionDropTimeout),
                     localCode=p.localCloseCode, remoteCode=p.remoteCloseCode,
                     pingPending=bool(getattr(p, "autoPingPending", None)), pingSeq=p.autoPingPendingSeq,
                     inMsg=bool(getattr(p, "inside_message", False)), rxPartial=self.rx_tail is not None,
                     sendState=int(getattr(p, "send_state", 0)), midFrame=self.tok.mid_frame())
        r = dict(applied=applied, out=out, state=self.state(), now=now, timers=self.timers(), flags=flags)
        if getattr(self, "resolved", None) is not None:
            r["tick_to"] = self.resolved      # absolute time a relative tick was resolved to
            self.resolved = None
        return r


def run_case(case):
    k = Case(case["cfg"])
    steps = [k.observe()]
    for ev in case["events"]:
        applied = k.apply(ev)
        steps.append(k.observe(applied))
    return {"steps": steps}


_pfd = os.open(os.environ["AV_PROGRESS"], os.O_WRONLY | os.O_CREAT | os.O_TRUNC) if os.environ.get("AV_PROGRESS") else None
results = []
for i, case in enumerate(inp["cases"]):
    if _pfd is not None and i % 50 == 0:
        b = json.dumps({"index": i, "case": case}).encode()
        os.pwrite(_pfd, b + b" " * max(0, 4000 - len(b)), 0)
    try:
        results.append(run_case(case))
    except Exception as e:
        import traceback
        results.append({"error": f"{type(e).__name__}: {e}", "trace": traceback.format_exc()[-1500:]})
json.dump({"results": results, "fw": FW}, open(sys.argv[2], "w"))
