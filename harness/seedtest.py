"""Confirm a seeded change and run the checks against it.

  /venv/bin/python harness/seedtest.py confirm <patch.diff> <demo.py>
        in a scratch worktree under /tmp: pristine -> demo PASS; patched -> baseline 288 still pass, demo FAIL.
  /venv/bin/python harness/seedtest.py detect-iso <seeded/<id>/ dir> [quick|thorough] [Cxx ...]
        scratch worktree of /repo with the patch + a private copy of /verif under /tmp (removed afterwards): safe to run
        several at once, never touches /verif/evidence.
  /venv/bin/python harness/seedtest.py detect <seeded/<id>/ dir> [quick|thorough] [Cxx ...]
        apply seeded/<id>/patch.diff to /repo, run ./check for the property (or the listed ones), undo the patch
        (always), print per check: exit code + VIOLATION lines.
"""
import json, os, subprocess, sys, shutil, time

ROOT = os.path.dirname(os.path.dirname(os.path.abspath(__file__)))


def sh(cmd, **kw):
    p = subprocess.run(cmd, shell=isinstance(cmd, str), stdout=subprocess.PIPE, stderr=subprocess.STDOUT, text=True, **kw)
    return p.returncode, p.stdout


def confirm(patch, demo):
    wt = f"/tmp/seedconfirm_{os.getpid()}"
    rc, out = sh(f"git -C /repo worktree add --detach {wt} HEAD -q")
    assert rc == 0, out
    try:
        env = dict(os.environ, PYTHONPATH=f"{wt}/src", PYTHONHASHSEED="0")
        env.pop("AUTOBAHN_VERIF", None)
        rc0, out0 = sh(["/venv/bin/python", os.path.abspath(demo)], cwd=wt, env=env, timeout=900)
        rc, out = sh(["git", "apply", os.path.abspath(patch)], cwd=wt)
        assert rc == 0, "patch does not apply: " + out
        rcb, outb = sh(["/venv/bin/python", os.path.join(ROOT, "harness", "baseline.py"), wt], timeout=1800)
        rc1, out1 = sh(["/venv/bin/python", os.path.abspath(demo)], cwd=wt, env=env, timeout=900)
        res = {"demo_pristine_rc": rc0, "demo_patched_rc": rc1, "baseline_patched_ok": rcb == 0,
               "baseline_out": outb.strip().splitlines()[:3], "demo_patched_tail": out1.strip().splitlines()[-3:],
               "demo_pristine_tail": out0.strip().splitlines()[-2:]}
        res["confirmed"] = rc0 == 0 and rc1 != 0 and rcb == 0
        print(json.dumps(res, indent=1))
        return 0 if res["confirmed"] else 1
    finally:
        sh(f"git -C /repo worktree remove --force {wt}")
        shutil.rmtree(wt, ignore_errors=True)


def detect_scratch(sdir, tier, props):
    """like detect, but on a scratch worktree selected through AV_REPO (safe while others use /repo)"""
    meta = json.load(open(os.path.join(sdir, "meta.json")))
    props = props or [meta["property"]]
    wt = f"/tmp/seeddetect_{os.getpid()}"
    rc, out = sh(f"git -C /repo worktree add --detach {wt} HEAD -q")
    assert rc == 0, out
    results = {}
    try:
        rc, out = sh(["git", "apply", os.path.abspath(os.path.join(sdir, "patch.diff"))], cwd=wt)
        assert rc == 0, out
        for pid in props:
            t0 = time.time()
            rc, out = sh([os.path.join(ROOT, "check"), pid, tier], cwd=ROOT, timeout=3600, env=dict(os.environ, AV_REPO=wt))
            v = [l for l in out.splitlines() if l.startswith("VIOLATION") or l.startswith("KNOWN-FINDING")]
            results[pid] = {"rc": rc, "lines": [l[:300] for l in v], "wall_s": round(time.time() - t0, 1)}
    finally:
        sh(f"git -C /repo worktree remove --force {wt}")
        shutil.rmtree(wt, ignore_errors=True)
    print(json.dumps(results, indent=1))
    record(sdir, tier, results)
    return 0 if all(r["rc"] == 1 and any(l.startswith("VIOLATION") for l in r["lines"]) for r in results.values()) else 1


def detect_iso(sdir, tier, props):
    """like detect-scratch, but the checks run from a private copy of /verif (own coq/Gen, build/, evidence/), so several
    detections can run at once and /verif/evidence is never touched"""
    sdir = os.path.abspath(sdir)
    meta = json.load(open(os.path.join(sdir, "meta.json")))
    props = props or [meta["property"]]
    wt = f"/tmp/seeddetect_{os.getpid()}"
    iso = f"/tmp/verifiso_{os.getpid()}"
    rc, out = sh(f"git -C /repo worktree add --detach {wt} HEAD -q")
    assert rc == 0, out
    results = {}
    try:
        rc, out = sh(["git", "apply", os.path.join(sdir, "patch.diff")], cwd=wt)
        assert rc == 0, out
        rc, out = sh(["rsync", "-a", "--exclude", ".git", "--exclude", "build/cases", "--exclude", "build/io", "--exclude",
                      "build/*.log", "--exclude", "evidence", "--exclude", "seeded", ROOT + "/", iso + "/"])
        assert rc == 0, out
        for pid in props:
            t0 = time.time()
            rc, out = sh([os.path.join(iso, "check"), pid, tier], cwd=iso, timeout=7200, env=dict(os.environ, AV_REPO=wt))
            v = [l for l in out.splitlines() if l.startswith("VIOLATION") or l.startswith("KNOWN-FINDING")]
            results[pid] = {"rc": rc, "lines": [l[:300] for l in v], "wall_s": round(time.time() - t0, 1)}
    finally:
        sh(f"git -C /repo worktree remove --force {wt}")
        shutil.rmtree(wt, ignore_errors=True)
        shutil.rmtree(iso, ignore_errors=True)
    print(json.dumps(results, indent=1))
    record(sdir, tier, results)
    return 0 if all(r["rc"] == 1 and any(l.startswith("VIOLATION") for l in r["lines"]) for r in results.values()) else 1


def record(sdir, tier, results):
    mp = os.path.join(sdir, "meta.json")
    meta = json.load(open(mp))
    for pid, r in results.items():
        meta.setdefault("detected_by", {})[f"{pid}/{tier}"] = {
            "caught": r["rc"] == 1 and any(l.startswith("VIOLATION") for l in r["lines"]),
            "rc": r["rc"], "lines": r["lines"][:4], "wall_s": r["wall_s"]}
    json.dump(meta, open(mp, "w"), indent=1)


def detect(sdir, tier, props):
    meta = json.load(open(os.path.join(sdir, "meta.json")))
    props = props or [meta["property"]]
    rc, out = sh("git -C /repo status --short")
    assert out.strip() == "", "/repo is not clean: " + out
    rc, out = sh(["git", "-C", "/repo", "apply", os.path.abspath(os.path.join(sdir, "patch.diff"))])
    assert rc == 0, out
    results = {}
    try:
        for pid in props:
            t0 = time.time()
            rc, out = sh([os.path.join(ROOT, "check"), pid, tier], cwd=ROOT, timeout=3600)
            v = [l for l in out.splitlines() if l.startswith("VIOLATION") or l.startswith("KNOWN-FINDING")]
            results[pid] = {"rc": rc, "lines": [l[:300] for l in v], "wall_s": round(time.time() - t0, 1)}
    finally:
        sh("git -C /repo checkout -- .")
        rc, out = sh("git -C /repo status --short")
        assert out.strip() == "", "/repo not restored: " + out
    print(json.dumps(results, indent=1))
    record(sdir, tier, results)
    return 0 if all(r["rc"] == 1 and any(l.startswith("VIOLATION") for l in r["lines"]) for r in results.values()) else 1


def import_seed(pid, n, src_root="/tmp/seed/out", dest_n=None):
    """copy <src_root>/<pid>/{mut<n>.diff,demo<n>.py,note<n>.txt} to seeded/<pid>-<dest_n or n>/ after confirming it"""
    src = f"{src_root}/{pid}"
    dst = os.path.join(ROOT, "seeded", f"{pid}-{dest_n or n}")
    os.makedirs(dst, exist_ok=True)
    shutil.copy(f"{src}/mut{n}.diff", f"{dst}/patch.diff")
    shutil.copy(f"{src}/demo{n}.py", f"{dst}/demo.py")
    note = open(f"{src}/note{n}.txt").read() if os.path.exists(f"{src}/note{n}.txt") else ""
    import io, contextlib
    buf = io.StringIO()
    with contextlib.redirect_stdout(buf):
        rc = confirm(f"{dst}/patch.diff", f"{dst}/demo.py")
    res = json.loads(buf.getvalue())
    meta = {"property": pid, "origin": "independent sub-agent given only the property text and a scratch worktree",
            "needs_to_manifest": note.strip(), "confirmed": res,
            "what_i_ran": "harness/seedtest.py confirm: scratch worktree of /repo HEAD; demo on pristine tree (exit 0), "
                          "patch applied, pinned baseline (288 stable tests) via harness/baseline.py, demo again (exit 1)",
            "detected_by": {}}
    json.dump(meta, open(f"{dst}/meta.json", "w"), indent=1)
    print(pid, n, "confirmed" if rc == 0 else "NOT CONFIRMED", json.dumps(res)[:400])
    if rc != 0:
        shutil.rmtree(dst)
    return rc


if __name__ == "__main__":
    if sys.argv[1] == "import":
        sys.exit(import_seed(sys.argv[2], sys.argv[3], *(sys.argv[4:6])))
    if sys.argv[1] == "confirm":
        sys.exit(confirm(sys.argv[2], sys.argv[3]))
    elif sys.argv[1] == "detect-scratch":
        tier = sys.argv[3] if len(sys.argv) > 3 else "quick"
        sys.exit(detect_scratch(sys.argv[2], tier, sys.argv[4:]))
    elif sys.argv[1] == "detect-iso":
        tier = sys.argv[3] if len(sys.argv) > 3 else "quick"
        sys.exit(detect_iso(sys.argv[2], tier, sys.argv[4:]))
    elif sys.argv[1] == "detect":
        tier = sys.argv[3] if len(sys.argv) > 3 else "quick"
        sys.exit(detect(sys.argv[2], tier, sys.argv[4:]))
