"""Shared machinery for the /verif checks (see DESIGN.md section 2).

A property module (harness/props/cXX.py) defines  run(ck: Check)  and uses:
  ck.coq_props()                      build coq/Props/<id>.v (+closure), collect obligations/axioms
  ck.coq_cases(...)                   evaluate the Gallina model on cases inside Coq (vm_compute)
  ck.run_impl(driver, payload, ...)   run a driver against the REAL code in /venv/bin/python
  ck.violation(key, what, replay)     report a violation (honours known_findings.json)
  ck.note_cases(...)/ck.sample(...)   accounting for the evidence file
  ck.finish()                         write evidence/<id>.json, print result lines, exit code
"""
import fcntl
import hashlib
import json
import os
import random
import re
import subprocess
import sys
import time

ROOT = os.path.dirname(os.path.dirname(os.path.abspath(__file__)))
COQ = os.path.join(ROOT, "coq")
BUILD = os.path.join(ROOT, "build")
REPO = os.environ.get("AV_REPO", "/repo")   # tree under test (AV_REPO lets a scratch worktree be checked instead)
VENV_PY = "/venv/bin/python"
GUARD = "AUTOBAHN_VERIF"

FORBIDDEN = re.compile(
    r"\bAdmitted\b|\badmit\b|\bAxiom\b|\bAxioms\b|\bParameter\b|\bParameters\b|\bConjecture\b"
    r"|\bAdmit\s+Obligations\b|Unset\s+Guard|Unset\s+Positivity|Unset\s+Universe|bypass_check"
    r"|type-in-type|impredicative-set|\bnative_compute\b"
)
# stdlib axioms that a property file may depend on (must be named in DESIGN.md section 3).
# Empty: every property theorem of this development is expected to be closed.
AXIOM_ALLOW = set()

TRUSTED_BASE_COMMON = [
    "Coq 8.16.1 kernel (coqc); vm_compute used, native_compute not used",
    "no Axiom/Parameter/Admitted in the development (grep gate over coq/**/*.v, comments stripped)",
    "model<->code tie: correspondence run (harness drivers on the real /repo code vs the Gallina model "
    "evaluated by coqc/vm_compute) and, where listed, translators regenerating coq/Gen/*.v from /repo",
]


def sh(cmd, timeout=None, cwd=None, env=None, input=None):
    p = subprocess.run(cmd, shell=isinstance(cmd, str), cwd=cwd, env=env, input=input,
                       stdout=subprocess.PIPE, stderr=subprocess.STDOUT, timeout=timeout, text=True)
    return p.returncode, p.stdout


def impl_env(nvx=None, extra=None):
    env = dict(os.environ)
    env["PYTHONPATH"] = REPO + "/src" + (":" + os.path.join(ROOT, "harness"))
    env["AV_REPO"] = REPO
    env["PYTHONHASHSEED"] = "0"
    env["PIP_NO_INDEX"] = "1"
    env[GUARD] = "1"
    env["PYTHONWARNINGS"] = "ignore"
    if nvx is not None:
        env["AUTOBAHN_USE_NVX"] = "1" if nvx else "0"
    if extra:
        env.update(extra)
    return env


def strip_comments(src):
    out, depth, i, n = [], 0, 0, len(src)
    while i < n:
        if src.startswith("(*", i):
            depth += 1; i += 2
        elif src.startswith("*)", i) and depth:
            depth -= 1; i += 2
        else:
            if depth == 0:
                out.append(src[i])
            i += 1
    return "".join(out)


def coq_files():
    fs = []
    for d in ("Base", "Gen", "Model", "Proofs", "Props"):
        p = os.path.join(COQ, d)
        if os.path.isdir(p):
            fs += sorted(os.path.join(d, f) for f in os.listdir(p) if f.endswith(".v"))
    return fs


def closure(vfile):
    """.v files (relative to coq/) that vfile transitively Requires from this development (AV.*)."""
    seen, todo = [], [vfile]
    while todo:
        f = todo.pop()
        if f in seen or not os.path.exists(os.path.join(COQ, f)):
            continue
        seen.append(f)
        src = strip_comments(open(os.path.join(COQ, f)).read())
        for m in re.finditer(r"(?:From\s+(\S+)\s+)?Require\s+(?:Import\s+|Export\s+)?(.*?)\.(?=\s|$)", src, re.S):
            if m.group(1) not in (None, "AV"):
                continue
            for name in m.group(2).split():
                if name.startswith("AV."):
                    name = name[3:]
                cand = name.replace(".", "/") + ".v"
                if os.path.exists(os.path.join(COQ, cand)):
                    todo.append(cand)
    return seen


def grep_gate(vfile=None):
    """Reject forbidden vernacular in the closure of vfile (or the whole development). Returns offences."""
    bad = []
    for f in (closure(vfile) if vfile else coq_files()):
        src = strip_comments(open(os.path.join(COQ, f)).read())
        for m in FORBIDDEN.finditer(src):
            bad.append(f"{f}: {m.group(0)}")
        depth = 0
        for line in src.splitlines():
            s = line.strip()
            if re.match(r"(Section|Module)\b", s) and not re.match(r"Module\s+(Import|Export)\b", s): depth += 1
            elif re.match(r"End\b", s) and depth: depth -= 1
            elif depth == 0 and re.match(r"(Variable|Variables|Hypothesis|Hypotheses|Context)\b", s):
                bad.append(f"{f}: top-level {s.split()[0]}")
    return bad


class BuildLock:
    def __enter__(self):
        os.makedirs(BUILD, exist_ok=True)
        self.f = open(os.path.join(BUILD, ".lock"), "w")
        fcntl.flock(self.f, fcntl.LOCK_EX)
        return self

    def __exit__(self, *a):
        fcntl.flock(self.f, fcntl.LOCK_UN)
        self.f.close()


def write_if_changed(path, content):
    os.makedirs(os.path.dirname(path), exist_ok=True)
    if os.path.exists(path) and open(path).read() == content:
        return False
    with open(path, "w") as f:
        f.write(content)
    return True


def coq_make(targets, timeout=1500, jobs=16):
    """(Re)generate _CoqProject/Makefile and build the given .vo targets. Returns (ok, log)."""
    with BuildLock():
        proj = "-Q . AV\n" + "\n".join(coq_files()) + "\n"
        if write_if_changed(os.path.join(COQ, "_CoqProject"), proj) or not os.path.exists(os.path.join(COQ, "Makefile")):
            rc, out = sh("coq_makefile -f _CoqProject -o Makefile", cwd=COQ, timeout=120)
            if rc != 0:
                return False, out
        rc, out = sh(["timeout", str(timeout), "make", f"-j{jobs}"] + targets, cwd=COQ, timeout=timeout + 30)
        return rc == 0, out


def coqc_capture(vfile, timeout=1800):
    """Compile one file directly (dependencies must be built); returns (ok, stdout+stderr)."""
    rc, out = sh(["timeout", str(timeout), "coqc", "-Q", ".", "AV", vfile], cwd=COQ, timeout=timeout + 30)
    return rc == 0, out


def parse_props(vfile):
    """Names of the property statements and of the Print Assumptions commands in a Props file."""
    src = strip_comments(open(os.path.join(COQ, vfile)).read())
    thms = re.findall(r"^\s*(?:Theorem|Lemma|Corollary|Example)\s+([A-Za-z0-9_']+)", src, re.M)
    pas = re.findall(r"Print\s+Assumptions\s+([A-Za-z0-9_'.]+)\s*\.", src)
    return thms, pas


def parse_assumptions(out, names):
    """Split coqc output into one block per Print Assumptions, in order."""
    blocks, cur = [], None
    for line in out.splitlines():
        if line.startswith("Closed under the global context"):
            if cur is not None: blocks.append(cur)
            blocks.append([line]); cur = None
        elif line.startswith("Axioms:"):
            if cur is not None: blocks.append(cur)
            cur = [line]
        elif cur is not None:
            if line.startswith(" ") or line.strip() == "" or re.match(r"^[A-Za-z0-9_.']+\s*:", line) or line.startswith("  "):
                cur.append(line)
            else:
                blocks.append(cur); cur = None
    if cur is not None: blocks.append(cur)
    res = {}
    for i, n in enumerate(names):
        res[n] = "\n".join(blocks[i]).strip() if i < len(blocks) else "MISSING"
    return res


def axioms_of(block):
    if block.startswith("Closed under the global context"):
        return []
    ax = []
    for line in block.splitlines()[1:]:
        m = re.match(r"^([A-Za-z0-9_.']+)\s*:", line)
        if m: ax.append(m.group(1))
    return ax or ["UNPARSED"]


class DriverCrash(RuntimeError):
    """Implementation driver died; .progress = the last case it announced (if any), .rc, .out"""
    def __init__(self, msg, rc, out, progress):
        super().__init__(msg)
        self.rc, self.out, self.progress = rc, out, progress


class Check:
    def __init__(self, pid, tier="quick", seed=1):
        self.pid, self.tier, self.seed = pid, tier, int(seed)
        self.t0 = time.time()
        self.obligations = []       # (name, ok, detail)
        self.assumptions = {}
        self.evaluations = 0
        self.hashes = set()
        self.samples = []
        self.hist = {}
        self.rule = []
        self.exhaustive = None
        self.extra_tb = []
        self.notes = []
        self.viol = []              # (key, what, replay_path, found)
        self.known_hits = []
        self.checker_cmds = []
        kf = os.path.join(ROOT, "known_findings.json")
        self.known = json.load(open(kf)) if os.path.exists(kf) else []
        os.makedirs(os.path.join(ROOT, "evidence", "replay"), exist_ok=True)
        os.makedirs(os.path.join(BUILD, "cases", pid), exist_ok=True)

    # ---------- helpers ----------
    def quick(self):
        return self.tier == "quick"

    def rng(self, label=""):
        return random.Random(f"{self.seed}/{self.pid}/{label}")

    def log(self, *a):
        print(f"[{self.pid} {time.time() - self.t0:6.1f}s]", *a, flush=True)

    def bump(self, key, n=1):
        self.hist[key] = self.hist.get(key, 0) + n

    def note_cases(self, n, canon_iter=None, nontrivial=None):
        """n evaluations; canon_iter = canonical (hashable->str) forms of the non-trivial ones."""
        self.evaluations += n
        if canon_iter is not None:
            for c in canon_iter:
                self.hashes.add(hashlib.blake2b(repr(c).encode(), digest_size=8).digest())

    def sample(self, obj):
        if len(self.samples) < 8:
            self.samples.append(obj)

    # ---------- obligations ----------
    def obligation(self, name, ok, detail=""):
        self.obligations.append((name, bool(ok), detail))
        if not ok:
            self.log(f"OBLIGATION BROKEN: {name}: {detail[:2000]}")

    def coq_props(self, vfile=None, timeout=1500):
        """Build Props/<id>.v with its closure; every statement there is one obligation.
        Returns the list of broken obligation names ([] if all discharged)."""
        vfile = vfile or f"Props/{self.pid}.v"
        thms, pas = parse_props(vfile)
        bad = grep_gate(vfile)
        self.closure_files = closure(vfile)
        if bad:
            self.obligation("grep_gate", False, "; ".join(bad[:20]))
        vo = vfile[:-2] + ".vo"
        try:
            os.remove(os.path.join(COQ, vo))
        except FileNotFoundError:
            pass
        # build dependencies through make, then the property file itself directly to capture output
        ok, out = coq_make([vo], timeout=timeout)
        self.checker_cmds.append(f"cd coq && coq_makefile -f _CoqProject -o Makefile && make {vo}  (coqc 8.16.1, full .vo)")
        if not ok:
            m = re.search(r'File "\./([^"]+)", line (\d+)', out)
            where = f"{m.group(1)}:{m.group(2)}" if m else "?"
            tail = out[-3000:]
            failed_file = m.group(1) if m else None
            if failed_file and os.path.normpath(failed_file) == os.path.normpath(vfile):
                line = int(m.group(2))
                src = open(os.path.join(COQ, vfile)).read().splitlines()
                for t in thms:
                    ln = next((i + 1 for i, l in enumerate(src) if re.search(r"\b" + re.escape(t) + r"\b", l)), 0)
                    self.obligation(t, ln and ln + 0 < line and self._ends_before(src, ln, line), f"property file fails at {where}")
            else:
                for t in thms:
                    self.obligation(t, False, f"dependency fails at {where}: {tail[-600:]}")
            self.build_log = out
            return [n for n, ok_, _ in self.obligations if not ok_]
        ok2, out2 = coqc_capture(vfile)
        self.build_log = out + out2
        blocks = parse_assumptions(out2, pas)
        self.assumptions = blocks
        for t in thms:
            if t in blocks:
                ax = axioms_of(blocks[t])
                extra = [a for a in ax if a not in AXIOM_ALLOW]
                self.obligation(t, ok2 and not extra, "" if not extra else f"depends on axioms {extra}")
            else:
                # Examples (non-vacuity witnesses) need no Print Assumptions
                self.obligation(t, ok2, "")
        if self.tier == "thorough":
            mod = "AV." + vfile[:-2].replace("/", ".")
            rc, o = sh(["timeout", "1200", "coqchk", "-Q", ".", "AV", "-o", "-silent", mod], cwd=COQ, timeout=1300)
            self.checker_cmds.append(f"coqchk -Q . AV -o {mod}")
            tail = o[-1500:]
            self.obligation("coqchk", rc == 0, tail if rc else "")
            self.notes.append("coqchk: " + tail.replace("\n", " | ")[-800:])
        return [n for n, ok_, _ in self.obligations if not ok_]

    @staticmethod
    def _ends_before(src, start, errline):
        for i in range(start - 1, min(len(src), errline - 1)):
            if re.search(r"\b(Qed|Defined)\s*\.", src[i]):
                return True
        return False

    # ---------- model evaluation inside Coq ----------
    def coq_cases(self, name, imports, check, cases, ty=None, defs="", shard=400, timeout=900, jobs=16):
        """cases: list of Coq terms (strings) of one type; check: Coq term of type (ty -> bool).
        Each shard file computes the indices i where  check case_i = false  with vm_compute.
        Returns sorted list of failing indices; raises RuntimeError if Coq fails."""
        d = os.path.join(BUILD, "cases", self.pid)
        files = []
        for si in range(0, max(1, len(cases)), shard):
            chunk = cases[si:si + shard]
            fn = os.path.join(d, f"{name}_{si // shard}.v")
            body = [imports, "From Coq Require Import List NArith ZArith Bool String.", "Import ListNotations.",
                    defs,
                    "Fixpoint av_failing {A} (f : A -> bool) (i : N) (l : list A) : list N :=",
                    "  match l with [] => [] | x :: r => if f x then av_failing f (N.succ i) r else i :: av_failing f (N.succ i) r end.",
                    "Definition av_cases" + (f" : list ({ty})" if ty else "") + " := ["]
            body.append(";\n".join(chunk))
            body.append("].")
            body.append(f"Eval vm_compute in (av_failing ({check}) {si}%N av_cases).")
            open(fn, "w").write("\n".join(body) + "\n")
            files.append(fn)
        procs, outs = [], {}
        pending = list(files)
        failing = []
        while pending or procs:
            while pending and len(procs) < jobs:
                fn = pending.pop(0)
                p = subprocess.Popen(["timeout", str(timeout), "coqc", "-Q", COQ, "AV", fn], stdout=subprocess.PIPE,
                                     stderr=subprocess.STDOUT, text=True, cwd=d)
                procs.append((fn, p))
            fn, p = procs.pop(0)
            out, _ = p.communicate()
            if p.returncode != 0:
                for _, q in procs:
                    q.kill()
                raise RuntimeError(f"coqc failed on {fn}: {out[-2000:]}")
            flat = " ".join(out.split())
            m = re.search(r"= \[(.*?)\]\s*: list N", flat)
            if not m:
                raise RuntimeError(f"cannot parse coqc output for {fn}: {out[-1000:]}")
            failing += [int(x) for x in re.findall(r"\d+", m.group(1))]
            for ext in (".vo", ".vok", ".vos", ".glob"):
                try: os.remove(fn[:-2] + ext)
                except FileNotFoundError: pass
            try: os.remove(os.path.join(d, "." + os.path.basename(fn)[:-2] + ".aux"))
            except FileNotFoundError: pass
        return sorted(failing)

    def coq_eval(self, imports, terms, timeout=600):
        """Evaluate terms with vm_compute and return Coq's printed values (for replays / diagnostics)."""
        d = os.path.join(BUILD, "cases", self.pid)
        fn = os.path.join(d, f"eval_{os.getpid()}.v")
        body = [imports, "From Coq Require Import List NArith ZArith Bool String.", "Import ListNotations."]
        for t in terms:
            body.append(f"Eval vm_compute in ({t}).")
        open(fn, "w").write("\n".join(body) + "\n")
        rc, out = sh(["timeout", str(timeout), "coqc", "-Q", COQ, "AV", fn], cwd=d, timeout=timeout + 30)
        if rc != 0:
            raise RuntimeError(out[-2000:])
        vals = [" ".join(v.split()) for v in re.split(r"^\s*= ", out, flags=re.M)[1:]]
        return vals

    # ---------- implementation ----------
    def run_impl(self, driver, payload, nvx=None, extra_env=None, timeout=3600, pyargs=()):
        """Run harness/impl/<driver> in /venv/bin/python against /repo/src; JSON in, JSON out (files)."""
        d = os.path.join(BUILD, "io", self.pid)
        os.makedirs(d, exist_ok=True)
        tag = f"{os.getpid()}_{time.time_ns()}"
        fin, fout = os.path.join(d, f"in_{tag}.json"), os.path.join(d, f"out_{tag}.json")
        json.dump(payload, open(fin, "w"))
        path = driver if os.path.isabs(driver) else os.path.join(ROOT, "harness", "impl", driver)
        fprog = os.path.join(d, f"progress_{tag}.json")
        env = impl_env(nvx, extra_env)
        env["AV_PROGRESS"] = fprog
        rc, out = sh([VENV_PY, *pyargs, path, fin, fout], env=env, timeout=timeout, cwd=ROOT)
        try:
            if rc != 0 or not os.path.exists(fout):
                prog = None
                if os.path.exists(fprog):
                    try:
                        prog = json.loads(open(fprog).read().strip() or "null")
                    except Exception:
                        prog = None
                raise DriverCrash(f"driver {driver} failed rc={rc}: {out[-3000:]}", rc, out, prog)
            return json.load(open(fout))
        finally:
            for f in (fin, fout, fprog):
                try: os.remove(f)
                except FileNotFoundError: pass

    # ---------- reporting ----------
    def violation(self, key, what, replay, found_input=True):
        """key: stable identity of WHAT fails (call site / parameter tuple), not of the random input."""
        what = " ".join(str(what).split())
        for k in self.known:
            if k.get("property") == self.pid and k.get("status") == "known" and k.get("key") == key:
                if key not in self.known_hits:
                    self.known_hits.append(key)
                    print(f"KNOWN-FINDING: property={self.pid} {k.get('what', what)}", flush=True)
                return False
        if any(v[0] == key for v in self.viol):
            return True
        safe = re.sub(r"[^A-Za-z0-9_.-]+", "_", key)[:80]
        path = os.path.join(ROOT, "evidence", "replay", f"{self.pid}-{safe}.json")
        json.dump({"property": self.pid, "key": key, "what": what, "seed": self.seed, "tier": self.tier,
                   "found_failing_input": bool(found_input), "replay": replay}, open(path, "w"), indent=1, default=str)
        self.viol.append((key, what, path, found_input))
        return True

    def finish(self):
        n_ob = len(self.obligations)
        n_ok = sum(1 for _, ok, _ in self.obligations if ok)
        if n_ok < n_ob and not self.viol:
            broken = [(n, d) for n, ok, d in self.obligations if not ok]
            self.violation("obligation/" + broken[0][0],
                           f"proof obligation(s) no longer check: {[n for n, _ in broken]}",
                           {"broken_obligations": [{"name": n, "detail": d[:1500]} for n, d in broken]},
                           found_input=False)
        tb = list(TRUSTED_BASE_COMMON) + self.extra_tb
        for t, b in self.assumptions.items():
            tb.append(f"Print Assumptions {t}: {b}")
        cov = {
            "obligations": n_ob, "discharged": n_ok,
            "checker_cmd": " ; ".join(self.checker_cmds) or "none",
            "trusted_base": tb,
            "evaluations": self.evaluations,
            "distinct_nontrivial": len(self.hashes),
            "rule": " | ".join(self.rule),
            "samples": self.samples or [{"obligations": [o[0] for o in self.obligations][:10]}],
            "obligation_names": [o[0] for o in self.obligations],
            "broken_obligations": [{"name": n, "detail": d[:500]} for n, ok, d in self.obligations if not ok],
            "histogram": self.hist,
            "known_findings_hit": self.known_hits,
            "notes": self.notes,
        }
        if self.exhaustive is not None:
            cov["exhaustive"] = bool(self.exhaustive)
        ev = {"property_id": self.pid, "tier": self.tier, "seed": self.seed, "level": "proof",
              "coverage": cov, "assumptions": tb, "wall_s": round(time.time() - self.t0, 2),
              "violations": len(self.viol)}
        json.dump(ev, open(os.path.join(ROOT, "evidence", f"{self.pid}.json"), "w"), indent=1, default=str)
        for key, what, path, found in self.viol:
            rel = os.path.relpath(path, ROOT)
            tail = "" if found else " no-failing-input-found"
            print(f"VIOLATION property={self.pid} replay={rel} key={key} :: {what[:300]}{tail}", flush=True)
        self.log(f"done: obligations {n_ok}/{n_ob}, evaluations {self.evaluations}, distinct {len(self.hashes)}, "
                 f"violations {len(self.viol)}, known {len(self.known_hits)}")
        return 1 if self.viol else 0
