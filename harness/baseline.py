"""Run the pinned baseline suite in a repo directory and check that all stable tests still pass.
usage: /venv/bin/python harness/baseline.py [repo_dir]   (default /repo) -> exit 0 iff all 288 stable tests pass"""
import json, os, subprocess, sys, tempfile
import xml.etree.ElementTree as ET

def main():
    repo = sys.argv[1] if len(sys.argv) > 1 else "/repo"
    base = json.load(open("/root/.vp/BASELINE.json"))
    out = os.path.join(os.path.dirname(os.path.dirname(os.path.abspath(__file__))), "build", f"baseline_{os.getpid()}.xml")
    os.makedirs(os.path.dirname(out), exist_ok=True)
    env = dict(os.environ); env.pop("AUTOBAHN_VERIF", None)
    env["PYTHONPATH"] = os.path.join(repo, "src")
    subprocess.run(["/venv/bin/python", "-m", "pytest", "-ra", "-q", "-p", "no:cacheprovider", "--timeout=900",
                    "--continue-on-collection-errors", f"--junitxml={out}"], cwd=repo, env=env,
                   stdout=subprocess.DEVNULL, stderr=subprocess.DEVNULL)
    passed = set()
    for tc in ET.parse(out).getroot().iter("testcase"):
        if not any(ch.tag in ("failure", "error", "skipped") for ch in tc):
            passed.add(f"{tc.get('classname')}::{tc.get('name')}")
    os.remove(out)
    missing = [t for t in base["stable_pass"] if t not in passed]
    print(f"stable tests passing: {len(base['stable_pass']) - len(missing)}/{len(base['stable_pass'])}")
    for t in missing[:20]:
        print("  NOT PASSING:", t)
    return 1 if missing else 0

if __name__ == "__main__":
    sys.exit(main())
