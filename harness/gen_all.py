"""Run every translator (translators/*.py) as a script so that coq/Gen/*.v exists before a full build.
Each property check regenerates its own Gen files again on every run; this is only for ./check --setup."""
import glob, os, subprocess, sys
import vlib


def main():
    ok = True
    for t in sorted(glob.glob(os.path.join(vlib.ROOT, "translators", "*.py"))):
        p = subprocess.run([vlib.VENV_PY, t], cwd=vlib.ROOT, env=vlib.impl_env(), stdout=subprocess.PIPE,
                           stderr=subprocess.STDOUT, text=True, timeout=600)
        print(f"translator {os.path.basename(t)}: {'ok' if p.returncode == 0 else 'FAILED rc=%d' % p.returncode}")
        if p.returncode != 0:
            print(p.stdout[-800:])
            ok = False
    return ok


if __name__ == "__main__":
    sys.exit(0 if main() else 1)
