"""./check --setup : build everything that can be built ahead of time (offline, from files on disk)."""
import os, sys
import vlib


def main():
    # freshly compiled NVX modules (from /repo's current C sources)
    rc, out = vlib.sh([vlib.VENV_PY, os.path.join(vlib.ROOT, "harness", "impl", "nvxbuild.py")], env=vlib.impl_env())
    print("nvx:", out.strip().splitlines()[-1] if out.strip() else rc)
    # translators that have a generator registered
    try:
        import gen_all
        gen_all.main()
    except ImportError:
        pass
    targets = [f[:-2] + ".vo" for f in vlib.coq_files()]
    ok, out = vlib.coq_make(targets, timeout=3000)
    print(out[-3000:])
    print("coq build:", "ok" if ok else "FAILED")
    return 0 if ok else 1


if __name__ == "__main__":
    sys.exit(main())
