"""./check --setup : build everything that can be built ahead of time (offline, from files on disk)."""
import os, sys
import vlib


def main():
    # freshly compiled NVX modules (from /repo's current C sources)
    rc, out = vlib.sh([vlib.VENV_PY, os.path.join(vlib.ROOT, "harness", "impl", "nvxbuild.py")], env=vlib.impl_env())
    print("nvx:", out.strip().splitlines()[-1] if out.strip() else rc)
    # translators that have a generator registered
    try:
        import gen_all
        gen_all.main()
    except ImportError:
        pass
    import json
    man = json.load(open(os.path.join(vlib.ROOT, "MANIFEST.json")))
    claimed = [c["property_id"] for c in man["checks"]]
    need = []
    for pid in claimed:
        for f in vlib.coq_files():
            if f.startswith("Props/" + pid) and f.endswith(".v"):
                need += [g[:-2] + ".vo" for g in vlib.closure(f)]
    need = sorted(set(need))
    # everything that exists is attempted (-k: keep going), but only the closures of claimed property files must succeed
    targets = [f[:-2] + ".vo" for f in vlib.coq_files()]
    with vlib.BuildLock():
        pass
    ok, out = vlib.coq_make(["-k"] + targets, timeout=3000)
    missing = [t for t in need if not os.path.exists(os.path.join(vlib.COQ, t))]
    print(out[-1500:])
    print(f"coq build: {len(need) - len(missing)}/{len(need)} objects needed by claimed properties built; all-files build {'ok' if ok else 'had failures'}")
    for t in missing:
        print("  MISSING:", t)
    return 1 if missing else 0


if __name__ == "__main__":
    sys.exit(main())
