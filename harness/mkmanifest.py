"""Regenerate MANIFEST.json from the table below (run: /venv/bin/python harness/mkmanifest.py)."""
import json, os
ROOT = os.path.dirname(os.path.dirname(os.path.abspath(__file__)))
BASELINE = ("cd /repo && AUTOBAHN_VERIF= /venv/bin/python -m pytest -ra -q -p no:cacheprovider --timeout=900 "
            "--continue-on-collection-errors --junitxml=/verif/build/baseline.junit.xml")

# id -> (design section, level text, level note, technique)
CLAIMS = {
 "C15": ("5 C15",
         "Coq theorems (unbounded payload/key/offset/alignment/chunking): all four masker models compute the byte-wise XOR "
         "spec, involution, pointer = bytes processed; models tied to the code by a differential sweep of the real pure-Python "
         "and freshly compiled NVX maskers (forced buffer alignments) against naive XOR and the Gallina model. Role policy: "
         "client frames carry the MASK bit, the next key and payload XOR key, server frames none (theorems over the send "
         "model); 'by default' is carried by a plumbing table regenerated from the real factories on every run "
         "(setProtocolOptions per masking keyword x prior value x absent/True/False, neutrality of all other keywords, "
         "factory->connection copy) with theorems that any sequence of calls naming no masking option leaves the generated "
         "defaults = the model's defaults; run on the real protocols over configurations x every send API (whole, "
         "fragmented, frame API, streaming API, prepared messages, ping/pong/close), both roles and frameworks.",
         "Trusted: Coq kernel; hand-written model of xormasker.py/_xormasker.c tied by differential runs (not a translator); "
         "C memory safety not modelled. The send-frame model (WsSend.build_frame) is tied to sendFrame by C01's run; the "
         "option-plumbing translator reads values by evaluation and assumes the factories are deterministic.",
         "Coq proof by list induction + correspondence sweep vs real code"),
 "C09": ("5 C09",
         "Coq theorems over tables regenerated from the source on every run: all 2304 transitions of the Python table, the C "
         "table (values dumped by a compiled program that #includes the C file) and the compiled DFA_TRANSITION macro equal "
         "RFC 3629. By induction on unbounded input: validate accepts exactly well-formed UTF-8 (= concatenations of encodings "
         "of scalar values), boundary flag and first-offender index exact; for every chunking (empty chunks and chunks after a "
         "reject included) every call's 4-tuple equals the reference, for pure Python and every NVX selector (so NVX = Python on "
         "every call). Correspondence: all strings <= 2 (thorough: <= 3) octets and generated mixtures under random chunkings on "
         "six implementation configurations against CPython's strict codec and the Gallina model.",
         "Trusted: Coq kernel; translator (values read by import / compiled dumper); CPython utf-8 codec as oracle. Modelled, not "
         "verified: bytes/int semantics, size_t wrap, C memory safety, cffi buffer passing; SSE2/SSE4.1 bodies are dead code.",
         "generated-table sweeps by vm_compute, list induction, differential runs vs CPython codec"),
 "C18": ("5 C18",
         "Coq theorems over an executable model of define(), _message_from_exception, _exception_from_message and the ERROR branch, "
         "for all registries, exception values, payloads and constructor behaviours (constructors are a quantified oracle): URI "
         "selection, payload preservation (with/without traceback forwarding), class-or-fallback, call completion, end-to-end "
         "composition; refuted parts proved with witnesses (reserved kwarg names, own 'traceback' kwarg, read-only detail "
         "attribute). Differential run: two real sessions back to back through real json/msgpack/cbor on both frameworks, "
         "incl. exceptions raised on the call-cancelling path (C18_error_after_interrupts) and registered ApplicationError "
         "subclasses carrying another URI.",
         "Trusted: Coq kernel; hand-written model tied by differential runs. Application values opaque (serializer fidelity is C03); "
         "constructors = oracle returning an instance or raising an Exception subclass; uri.Pattern acceptance a predicate. "
         "Known findings: reserved-kwarg-dropped, traceback-overwrites-kwarg, read-only-detail-attribute.",
         "Coq over association-map models + vm_compute correspondence"),
 "C20": ("5 C20",
         "Coq theorems (partial: cryptographic strength assumed) over a model of KeyRing lookup/encode/decode and the four "
         "payload-carrying directions through the session, with the cipher as a Section oracle satisfying aead_ok (open of a "
         "sealed box under the paired key recovers it, anything else opens to None): exact recovery, no clear payload in the "
         "message, URI binding, no delivery on failure, authenticity of everything delivered, longest-prefix keyring lookup; "
         "refuted with witnesses: clear YIELD on encode failure, ERROR keyed by error URI. Differential run with real PyNaCl: "
         "keyring layouts x directions x faults, every single-octet alteration of a ciphertext, histories of set_key "
         "interleaved with traffic on one KeyRing object (C20_lookup_after_history, ...), every way of registering "
         "the procedure the ciphertext is bound to.",
         "Trusted: Coq kernel; aead_ok (NaCl crypto_box authenticity) and json_ok are premises, not proved; the model run uses a "
         "toy cipher proved to satisfy aead_ok; confidentiality is NaCl's; pytrie longest-prefix semantics mirrored.",
         "Coq with oracle premises + real-crypto differential and tamper sweep"),
 "C11": ("5 C11",
         "Coq theorems over an executable model of the subscriber side of ApplicationSession, for all op histories and both "
         "callback flavours: exact fan-out as an inductive dispatch relation (snapshot at arrival, subscription order, once each, "
         "published args/kwargs + own details only, handlers deactivated mid-dispatch passed over), isolation of raising "
         "handlers, never-after-unsubscribe, UNSUBSCRIBE iff last handler, racing events dropped, unknown id = ProtocolError. "
         "Differential run: generated histories (re-entrant handlers, decorated objects, all payload shapes) on the real "
         "session under Twisted and asyncio vs the model, plus an oracle recomputing deliveries from the property text; "
         "SubscribeOptions normalisation over its whole argument grid (C11_options_normalisation), replies and events "
         "delivered re-entrantly from inside send() (C11_subscribed_inside_send, C11_unsubscribed_inside_send).",
         "Trusted: Coq kernel; hand-written model tied by differential runs; CPython dict/list semantics and txaio callback "
         "ordering mirrored. Not modelled/generated: encrypted payloads, coroutine handlers, id wrap at 2^53, re-join.",
         "invariant + inductive dispatch relation over a Gallina state machine; differential run on virtual time"),
 "C01": ("5 C01",
         "Coq theorems over Gallina models of the frame encoder, sendMessage fragmentation, streaming/prepared send APIs and the "
         "write queue, for every payload, option, key stream and legal call sequence: length and frame round trip through an RFC "
         "6455 reference parser written from the RFC, wire = well-formed frame sequence reassembling to exactly the sent "
         "messages in order, FIFO of chopped/synced writes, role policy; the full-strength duplex statement (peer ping arriving "
         "inside a streaming-API frame) is refuted with a witness (known finding). Differential run: call-by-call octets of the "
         "real protocol (both roles, Twisted+asyncio, NVX) vs the model, independent frame parser, and end-to-end delivery of "
         "re-segmented streams to a real peer endpoint.",
         "Trusted: Coq kernel; hand-written model tied by differential runs. Modelled, not verified: CPython bytes/int/deque, "
         "txaio.call_later. Delivery to the peer is a joint theorem (Props/C01Join.v): the send model's wire, cut into ANY "
         "segments, drives C02's receive model (both failure policies, both roles, compatible options) to deliver exactly the sent "
         "messages in order without failing; the real receive loop is tied to that model by C02's runs and by the end-to-end "
         "re-segmentation runs here. Compression is C12, closing is C05. Known findings: duplex/*/peer-ping-inside-streaming-frame.",
         "executable model + refinement invariants + differential runs + independent RFC parser + e2e re-segmentation"),
 "C10": ("5 C10",
         "Coq theorems over an executable model of the callee path of ApplicationSession, for all op histories, transports "
         "(send classified by an oracle), registries and both callback flavours: exactly one terminal reply per accepted "
         "invocation while the transport is up and classifies correctly, at most one unconditionally, the three real send() "
         "implementations classified, progress only if requested, argument fidelity, INTERRUPT gives ERROR; progress-before-"
         "terminal refuted with a witness (known finding). Differential run: real session on scripted and on the four real "
         "transports (octets in, octets out), both frameworks, vs the model + an oracle from the property text; tri-state "
         "invocation details (absent/false/true), object registrations with per-method options.",
         "Trusted: Coq kernel; hand-written model tied by differential runs. Modelled, not verified: txaio callback semantics, "
         "asyncio Task ordering, payload size/serializability as abstract flags. Outside the model: payload encryption (C20), "
         "traceback_app (C18). Known finding: session.progress/after-terminal-reply.",
         "invariant proofs over all op histories with monitor functions + correspondence run with independent oracle"),
 "C14": ("5 C14",
         "Coq theorems over an executable model of _Transport and Component._start/_connect_once/stop as a callback transition "
         "system, for all callback sequences and all normalvariate samples: round robin, budget (attempts since last join <= "
         "max_retries+1), fatal stops, first attempt immediate, every wait <= max_retry_delay, done at most once, listeners "
         "bubble; the statements the code violates are proved refuted with witnesses (known findings: main raises, stop paths, "
         "negative delay). Defaults regenerated from the source. Differential run: real Component + real client protocols + "
         "real session on Twisted MemoryReactorClock and an asyncio virtual loop vs the model + a property oracle.",
         "Trusted: Coq kernel; model tied by differential runs and a fail-closed translator for _Transport defaults. The "
         "transport/session stack and the reactor are the model's environment; delays are exact rationals vs doubles (dyadic "
         "parameters). Not exercised: real sockets, DNS, TLS.",
         "invariant proof over a callback transition system + differential runs on virtual clocks + property oracle"),
 "C19": ("5 C19",
         "Coq theorems (partial: cryptographic strength assumed) over an executable model of the auth glue, quantified over all "
         "hash/HMAC/KDF/signature oracles satisfying length and sign-verify laws: WAMP-CRA = the router's computation, TOTP = "
         "RFC 4226 truncation (offset <= 15, six digits, +-1 window), SCRAM proof accepted by the RFC 5802 server equation (xor "
         "involution) with RFC 5802 AuthMessage assembly and pbkdf2/argon2id dispatch, on_welcome accepts iff the exact server "
         "signature, cryptosign signs challenge XOR channel id; hex/base64 codecs concrete with proved round trips. "
         "Differential run: the model evaluated with the recorded primitive calls as oracle tables reproduces the real code byte "
         "for byte; independent RFC verifiers (PBKDF2, HOTP/TOTP, SCRAM server, Ed25519) and single-bit alteration sweeps; "
         "full HELLO/CHALLENGE/AUTHENTICATE/WELCOME conversations through the real session and its onWelcome gate over "
         "every WELCOME shape (C19_session_join_implies_verified, C19_session_scram_only_mutual).",
         "Partial: 'any alteration yields a different signature' is collision resistance/unforgeability of the primitives - assumed, "
         "sampled by bit flips, not proved. Trusted: Coq kernel; model tied by recorded-oracle correspondence plus one AST-read "
         "flag (fail-closed); saslprep, repr(bytes) are oracles.",
         "Coq proof over oracle-parametric glue model + recorded-oracle correspondence + RFC verifiers / bit-flip sweep"),
 "C13": ("5 C13",
         "Coq theorems over executable models: the RawSocket handshake decision of all four implementation x role functions equals "
         "the arithmetic table (general lemma + 2^16-case vm_compute sweep over octets 1-2 x reserved variants x configurations), "
         "attach iff magic 0x7F, supported serializer and zero reserved octets, refusals never escape; segmentation independence "
         "and round trip of both framing machines (Twisted Int32StringReceiver modelled from its source, asyncio PrefixProtocol) "
         "and of the whole connection machine; send/receive limits; WebSocket subprotocol = first of the client's list the "
         "server speaks, same serializer and framing on both ends; error mapping 1002/1011/abort; session told exactly once. "
         "Serializer ids, BINARY flags, defaults regenerated from the source. Differential run: all 2^16 handshake octet pairs x "
         "reserved x segmentation x role x framework, framing streams under every split, all four client/server framework "
         "pairings, corruption at every position, malformed-but-decodable messages (C13_protocol_violation_closes), announced "
         "vs enforced receive limit for sizes that are not powers of two (C13_rs_announced_is_enforced), several reads per "
         "asyncio loop iteration (C13_ws_adapter_order), on the real classes.",
         "Partial: Twisted IntNStringReceiver and the serializers are library code modelled/oracle; the WebSocket engine under the "
         "WAMP mixins is C01/C02/C05/C07; int() is an oracle. Known finding (thorough tier): 2^24-octet boundary with an asyncio "
         "receiver.",
         "Gallina models + induction/invariants + vm_compute sweep; translator; sharded correspondence runs"),
 "C12": ("5 C12",
         "Coq theorems (unbounded in messages, sizes, fragmentations, chunkings): negotiation soundness for deflate (per direction "
         "decompressor window >= compressor window, context-takeover agreement, zlib-permissible values) proved generally and as an "
         "exhaustive in-Coq vm_compute sweep of the generated 589,824-point offer x accept x response-accept lattice, likewise "
         "bzip2/brotli/snappy; answer within offer; exact characterisation of what the client accepts/rejects (unknown extension, "
         "repeated PMCE, unknown/duplicated/out-of-range parameters, policy None); handle typestate for all codecs and takeover "
         "modes; losslessness under an explicit codec stream law; doNotCompress; RSV1 placement and rejection. Permissible sets, "
         "defaults, names regenerated from the source. Differential run: real client+server handshakes over the lattice and real "
         "zlib/bz2/brotli traffic under fragmentation and re-segmentation, both frameworks.",
         "Partial: the compression libraries enter as a Section oracle (codec stream law), exercised for real only in the runs; "
         "Python int() is an oracle; snappy proved but not run (not installed); the frame-level streaming API is oracle-only "
         "(known finding streaming.beginMessageFrame/compressed/raw-octets-flagged-RSV1).",
         "Coq proof (induction, invariants, vm_compute lattice sweep) + translator + correspondence run"),
 "C05": ("5 C05",
         "Coq invariants over arbitrary event lists of a connection-level model (states, close bookkeeping flags, timers with "
         "absolute virtual deadlines incl. txaio batched-timer quantisation, output log): forward-only, onClose exactly once and "
         "silence after it, at most one close frame with nothing after it, legal close payloads (encode_truncate proved to yield "
         "well-formed UTF-8 <= 123 octets), clean-report characterisation (full statement refuted on 2 known paths, partial "
         "theorem for every run), bounded closing with clock fairness proved, send-after-close. Close codes and timer constants "
         "regenerated from the source. Differential run: all event sequences up to length 4 (thorough 5) over the event "
         "alphabet x role x failByDrop x echo x timeout grid plus random walks, per-step, on Twisted Clock and an asyncio "
         "virtual loop, plus an oracle written from the property text; every send API in every state incl. the streaming "
         "API mid-message; every close code the library itself chooses is a generated table (AST walk over all "
         "_fail_connection/sendClose sites, fail-closed) proved wire-legal (C05_library_close_codes_wire_legal), with "
         "application callbacks raising during the handshake as events.",
         "Partial: that a real reactor fires timers and the OS closes the socket is assumed (virtual clocks). Trusted: hand-"
         "written model tied by differential runs; incoming traffic modelled as already parsed events; sync/chopped writes not "
         "modelled. Known findings: 1-octet-peer-close-reported-clean, later-invalid-close-overwrites-report.",
         "Coq proof by compositional invariants over (log, state) + correspondence + independent oracle"),
 "C17": ("5 C17",
         "Coq theorems over the same connection model: batched-timer quantisation (never late, < 1 s early), opening-handshake "
         "timer silent/responsive, every pending dropping timeout fires by its deadline and closes the connection, Tick "
         "completeness, bounded close/drop, no timer has any effect after CLOSED, auto-ping unique/periodic/responsive. "
         "Differential run: timelines on a 125 ms grid with every placement of each peer reaction (every kind of incoming "
         "frame: whole, first/middle/last fragment, header only, ping, matching and non-matching pong) before/at/after each "
         "deadline for settings {0,1,2,5} s, restart-on-traffic on and off, both roles and frameworks.",
         "Partial only in that wall-clock behaviour of real reactors is assumed (virtual clocks). Responsiveness is proved for the "
         "open, close, drop and auto-ping timers (C17_responsive_ping: after any event list a matching pong leaves no timeout "
         "call pending and exactly one next ping within the interval), ping uniqueness and periodicity are general invariants "
         "over all reachable states (C17_ping_unique, C17_ping_periodic), any data frame restarts the timeout when "
         "autoPingRestartOnAnyTraffic is on (C17_any_data_frame_restarts). Same trusted base as C05.",
         "Coq invariants over a timed transition system + grid correspondence on virtual clocks"),
 "C07": ("5 C07",
         "Coq theorems over an executable model of parseHttpHeader, both processHandshake chains, succeedHandshake, request "
         "rendering, wildcard origins and the connection counter: admission is exactly a declarative RFC 6455 4.2.1 + "
         "configuration predicate (full-strength RFC line structure refuted by a witness, exact on CRLF/LF-only header blocks), "
         "reply digest/subprotocol/extension soundness, origin patterns match the whole origin, never an escaping exception for "
         "all octets, segmentations and oracle behaviours, own client and server interoperate under spelled-out compatibility, "
         "connection count <= limit for all histories. latin-1 strip/lower/splitlines tables and constants regenerated from the "
         "interpreter and source. Differential run: ~390 single mutations of valid requests/responses, arbitrary octets under "
         "all splits, multi-connection histories, end-to-end client x server option matrix, origin/port matrix (origin as the "
         "triple scheme, host, port-or-absent), configuration plumbing of every handshake option with probing requests "
         "(C07_config_unrelated/_interleave/_last_wins), on both frameworks.",
         "Partial: urllib.parse, hyperlink, hashlib.sha1 and the PMCE classes are oracles (their raising behaviour included), "
         "recorded from the real libraries in the runs. Not modelled: TLS, proxies, unix URLs. Known findings: origin not checked "
         "for draft versions 11/12; linebreak-in-value (server and client).",
         "Coq proof (chain = conjunction, parse-render, list induction, finite sweeps in Coq) + differential correspondence + generated tables"),
 "C04": ("5 C04",
         "Coq invariants over ALL op histories of an executable model of ApplicationSession's request side (six pending tables, "
         "id generator, ghost ledger of futures; Twisted and asyncio continuation flavours): request ids sequential 1..2^53 over "
         "any trace, exactly one request message per API call with the given URI/args/options, every future completes at most "
         "once and only with the reply bearing its (type, id) or that reply's error, no cross-completion (table disjointness), "
         "progressive results local to their call, unmatched reply = ProtocolError, only ProtocolError ever leaves onMessage. "
         "Message type codes and id bounds regenerated from the source. Differential run: generated histories (six request kinds, "
         "replies success/error/progressive/duplicated/unknown/wrong-type in adversarial orders, events and invocations "
         "interleaved; send() failing in each of its ways for each request kind; several lives of one session object with "
         "ids restarting at 1) on the real session under both frameworks vs the model + an oracle from the property text.",
         "Trusted: Coq kernel; hand-written model tied by differential runs; txaio continuation semantics, dict order, URI "
         "validation, payload codec and exception-class lookup are mirrored/abstract; the transport is a fake ITransport. "
         "Known finding: duplicate registration id -> future never completes.",
         "Coq invariants + trace monitors over a Gallina state machine; differential histories on virtual time"),
 "C06": ("5 C06",
         "Coq theorems over all op histories of the same session model: Twisted flavour - callback and GOODBYE traces are words of "
         "the life-cycle automaton (connect <= join <= leave <= disconnect, each at most once), leave iff a joined session ends or "
         "the router aborts, GOODBYE at most once; both flavours - phase gate, GOODBYE answered iff not initiated, nothing "
         "pending after the session ends (every table empty, every future completed or accounted), API calls after the end "
         "raise; asyncio - the life cycle equals Twisted's whenever the loop settles between events (proved), and the unsettled "
         "schedules are refuted with witnesses (known findings). Differential run: router conversations + one illegal message "
         "at every position, local leave/disconnect, raising callbacks, transport loss at every position, table populations, "
         "three asyncio turn spacings, sequences of lives of one session object (every per-life statement holds in each "
         "life), every API x every local-state shape after the end, on the real session.",
         "Partial for asyncio: ordering/goodbye-once hold only for settled schedules. Trusted: as C04; one transport connection "
         "per session object, no re-entrant API calls from callbacks; an asyncio loop iteration is modelled as _run_once. Known "
         "findings: phase gate after the end, asyncio deferred continuation (6 keys), pending future on duplicate registration, "
         "API after end on a closing transport.",
         "Coq invariants + life-cycle automaton refinement; differential histories with fault injection at every position"),
 "C03": ("5 C03",
         "Coq theorems over a schema-language model of all 25 message classes (value universe with ints, strings, bytes, lists, "
         "string-keyed dicts): generic parse(marshal m) = Ok m for every valid message of every class and every URI validator, "
         "fields-preserved for all options of all classes, payload-transparency triple, batching framing (JSON 0x18 separator; "
         "32-bit length prefix) for unbounded batches, BINARY flag. The per-class shape (type code, admissible lengths, options "
         "tested in parse, keys written in marshal) is re-derived from the Python AST on every run and proved equal to the "
         "schemas' shape. Differential run: constructed messages (all classes x option subsets x boundary ids x payload shapes) "
         "through the real JSON/MsgPack/CBOR serializers, batched and unbatched, compared attribute by attribute with the model.",
         "Partial: json/msgpack/cbor2 byte formats are oracles; UBJSON not installed (bjdata import broken in the sandbox); floats "
         "opaque. Trusted: hand-written schemas tied by shape translator + differential runs. Known findings: enc_algo lost with "
         "an empty payload (7 classes).",
         "Coq proof generic over well-formed schemas + AST shape translator + differential correspondence"),
 "C08": ("5 C08",
         "Coq theorems: (identifier part, Props/C08Uri.v) each of the 11 URI/realm/attribute regexes - regenerated from the "
         "source through the interpreter's own regex parser into a Coq regex AST whose derivative matcher is proved equal to "
         "its denotation - accepts exactly its declarative WAMP grammar for all strings; check_or_raise_uri/realm/id/extra/"
         "kwargs accept exactly grammatical strings, ints in 0..2^53 and str-keyed dicts and raise only the library's two "
         "errors for every value kind. (Schema part, Props/C08.v) every non-protocol exception of Serializer.unserialize is "
         "characterised (constructor assertion or roles TypeError; totality refuted with the remaining witnesses), strictness "
         "inversion of accepted messages (ids, URIs, option kinds, counts, type code; refuted at in-option session ids), "
         "re-marshal equivalence. Differential run: all strings <= 3 (thorough 4) over an 18-symbol alphabet, mutation grid "
         "(each position/option replaced by 19 boundary values), octet fuzz per serializer, vs model and a spec oracle.",
         "Trusted: regex2coq translator (re._parser tree -> Coq regex; sre backtracking taken as language membership), schema "
         "shape translator, CPython type/truthiness/== semantics mirrored. Known findings: 58 keys in 12 families (session ids "
         "inside options not range-checked, enc_* asserts, Welcome details unvalidated, ...) listed in known_findings.json.",
         "generated regex AST + Brzozowski derivatives in Coq; schema-language proofs; mutation-grid/octet-fuzz correspondence with spec oracle"),
 "C02": ("5 C02",
         "Coq theorems over a Gallina model of the receive path (processData loop, frame/message/control handling, failure "
         "policy) whose every integer comparison and the allowed close-code set are regenerated from protocol.py on each run: "
         "header verdict = RFC 6455/7692 verdict for all configurations, both fragmentation states and all 65536 first-two-octet "
         "values; length rules; close payload; incremental UTF-8 fail-fast; trace-level pong echo; failure policy "
         "(drop/unclean vs close 1002/1007/1009); nothing delivered after a failure; for both policies and all streams one read "
         "terminates and is judged exactly as the declarative RFC reference (C02_sequence); segmentation independence proved "
         "for failByDrop=true from every reachable state, refuted with a witness for failByDrop=false (known finding). "
         "Differential run: header sweep in 64 receiver contexts (thorough: all 65536 values), mutated frame sequences under "
         "every split, both roles and frameworks, judged by an independent RFC oracle and re-evaluated by the model; "
         "configuration plumbing (every option alone / before / after / together / set back on both factories vs the "
         "protocol's effective options), the three receive APIs with application hooks that do not chain (nothing "
         "reaches the application after a failure), several connections in one process with interleaved reads "
         "(C02_connections_independent), the negotiated permessage-deflate parameter grid with a real zlib peer, "
         "failure paths with sync/chopped writes still queued.",
         "Trusted: Coq kernel, the ast/import translator (fail-closed), CPython utf-8 codec and zlib as oracles. Modelled, not "
         "verified: the UTF-8 validator as the RFC 3629 automaton (table equality is C09), the masker as xor_spec (C15), the "
         "decompressor as a TOTAL Section oracle: the branch that fails the connection when the codec rejects the compressed "
         "payload (/repo d7bccdc3) is outside the theorems and decided by differential testing against the RFC oracle "
         "(codec_error_stage); timers, statistics, asyncio receive queue unmodelled. Known findings: split-dependent/"
         "failByDrop=False, client/processing-after-close-frame, control-callback-after-violation (2).",
         "generated constants, field-level vm_compute sweep, invariant and simulation proofs, differential runs"),
 "C16": ("5 C16",
         "Coq theorems over the same receive model: no message above maxMessagePayloadSize is ever delivered (all streams, "
         "segmentations, policies; uncompressed connections), the 1009 failure is raised in the step that completes the "
         "offending header (header octets alone suffice), running total over fragments, runs without a 1009 are identical to "
         "runs without limits, over-limit sendMessage raises and writes nothing; the decompression cap statement is refuted on "
         "the model with a witness (known findings), with the partial positive for chunks within the cap. Differential run: "
         "limits grid x sizes L-1/L/L+1/10L x fragment layouts x role x policy x delivery shapes, real-zlib cap; every send API "
         "(sendMessage whole/fragmented/doNotCompress, prepared messages) x deflate on/off x limits with a real inflater as "
         "peer (theorems C16_send_refused_all_apis, C16_send_whole_or_nothing, C16_peer_reads_accepted over any "
         "compressor/inflater pair obeying the context-takeover laws); configuration plumbing incl. reconfiguring the "
         "factory after the connection is up; three receive APIs; the 1009 close frame reaches the wire behind queued "
         "writes (C16_close_frame_reaches_wire).",
         "Partial: zlib is an oracle (stream laws in theorems, replay tape in runs); limits bound the wire payload. Known "
         "findings: decompress-cap/truncated, decompress-cap/escaped-error.",
         "invariants, simulation, refutation witness, differential runs"),
}
NOT_YET = {}


def main():
    props = [json.loads(l) for l in open(os.path.join(ROOT, "properties.jsonl"))]
    checks, na = [], []
    for p in props:
        pid = p["id"]
        if pid in CLAIMS:
            sec, text, note, tech = CLAIMS[pid]
            checks.append({
                "property_id": pid,
                "quick_cmd": f"./check {pid} quick",
                "thorough_cmd": f"./check {pid} thorough",
                "evidence_file": f"/verif/evidence/{pid}.json",
                "replay_cmd_template": f"./check {pid} --replay {{path}}",
                "engine": "coq-proof+correspondence",
                "level_claimed": {"category": "proof", "text": text, "design_ref": "DESIGN.md section " + sec},
                "level_note": note,
                "technique": tech,
            })
        else:
            na.append({"property_id": pid, "reason": NOT_YET.get(pid, "not yet built in this development (planned, see DESIGN.md section 8); no check is registered, nothing is claimed")})
    m = {
        "version": 1,
        "setup_cmd": "./check --setup",
        "hooks": {"guard": "AUTOBAHN_VERIF", "enable": "checks export AUTOBAHN_VERIF=1; no hook exists in /repo (all observation through subclassing, fake transports and virtual clocks)",
                  "baseline_off_cmd": BASELINE, "source_commits": [], "add_only": True},
        "engines": [{"name": "coq-proof+correspondence", "path": "/verif/check",
                     "serves_properties": [c["property_id"] for c in checks],
                     "kind_free_text": "Coq 8.16.1 theorems over hand-written/generated Gallina models; models evaluated by coqc vm_compute against the real code driven in /venv/bin/python"}],
        "checks": checks,
        "not_applicable": na,
        "notes": "See DESIGN.md. known_findings.json lists recorded genuine defects; seeded/ holds mutation patches used to test the checks.",
    }
    json.dump(m, open(os.path.join(ROOT, "MANIFEST.json"), "w"), indent=1)
    print(f"{len(checks)} checks, {len(na)} not claimed")


if __name__ == "__main__":
    main()
