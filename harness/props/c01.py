"""C01 — WebSocket messages arrive intact, exactly once and in order (sender side, wire format, end-to-end delivery)."""
import json, os, random, re
from concurrent.futures import ThreadPoolExecutor
import vlib

IMPORTS = "From AV Require Import Model.Masker Model.WsFrame Model.WsSend Model.WsSendRun."
RAISES = {"Exception": "ExException", "Disconnected": "ExDisconnected", "PayloadExceededError": "ExPayloadExceeded",
          "AssertionError": "ExAssertion", "AttributeError": "ExAttribute"}
PSTATE = {"CLOSED": "PClosed", "CONNECTING": "PConnecting", "CLOSING": "PClosing", "OPEN": "POpen",
          "PROXY_CONNECTING": "PProxyConnecting"}
UTF8_SAMPLES = ["héllo wörld ✓", "κόσμε", "日本語テキスト", "a😀b", "ÿ", "x"]


# ------------------------------------------------------------------------------------------------ Coq terms
def nlist(b):
    b = bytes(b)
    if not b:
        return "[]"
    return "(hx %d 0x%s)" % (len(b), b.hex())


def zlit(z):
    return "(%d)%%Z" % z


def optz(z):
    return "None" if z is None else "(Some %s)" % zlit(z)


def optn(n):
    return "None" if n is None else "(Some %d)" % n


def cbool(b):
    return "true" if b else "false"


def pl_term(p):
    if p is None:
        return "[]"
    if "hex" in p:
        return nlist(bytes.fromhex(p["hex"]))
    if "pat" in p:
        return "(pat %d %d)" % tuple(p["pat"])
    return "(apat %d %d)" % tuple(p["apat"])


def pl_len(p):
    if p is None:
        return 0
    if "hex" in p:
        return len(p["hex"]) // 2
    return (p.get("pat") or p.get("apat"))[1]


def op_term(op):
    k = op[0]
    if k == "sendMessage":
        return "OSendMessage %s %s %s %s" % (pl_term(op[1]), cbool(op[2]), optz(op[3]), cbool(op[4]))
    if k == "sendFrame":
        mask = nlist(bytes.fromhex(op[5])) if op[5] else "[]"
        return "OSendFrame %d %s %s %d %s %s %s %s" % (op[1], pl_term(op[2]), cbool(op[3]), op[4], mask, optn(op[6]),
                                                     optz(op[7]), cbool(op[8]))
    if k == "prepare":
        return "OPrepare %s %s" % (pl_term(op[1]), cbool(op[2]))
    if k == "sendPrepared":
        return "OSendPrepared %d" % op[1]
    if k == "beginMessage":
        return "OBeginMessage %s" % cbool(op[1])
    if k == "beginMessageFrame":
        return "OBeginMessageFrame %s" % zlit(op[1])
    if k == "frameData":
        return "OSendMessageFrameData %s %s" % (pl_term(op[1]), cbool(op[2]))
    if k == "endMessage":
        return "OEndMessage"
    if k == "sendMessageFrame":
        return "OSendMessageFrame %s %s" % (pl_term(op[1]), cbool(op[2]))
    if k == "ping":
        return "OSendPing %s" % pl_term(op[1])
    if k == "pong":
        return "OSendPong %s" % pl_term(op[1])
    if k == "peerPing":
        return "OPeerPing %s" % pl_term(op[1])
    if k == "sendData":
        return "OSendData %s %s %s" % (pl_term(op[1]), cbool(op[2]), optz(op[3]))
    if k == "tick":
        return "OTick"
    if k == "setState":
        return "OSetState %s" % PSTATE[op[1]]
    raise ValueError(k)


def cfg_term(case):
    o = case.get("options") or {}
    srv = case["role"] == "server"
    return "(%s, %s, %s, %s, %s, %d)" % (cbool(srv), cbool(o.get("maskClientFrames", True)),
                                         cbool(o.get("maskServerFrames", False)), cbool(o.get("applyMask", True)),
                                         zlit(o.get("autoFragmentSize", 0)), o.get("maxMessagePayloadSize", 0))


def wd_term(w):
    if "hex" in w:
        b = bytes.fromhex(w["hex"])
        if len(b) <= 24:
            return "WLit " + nlist(b)
        import zlib
        return "WSum %d %d" % (len(b), zlib.adler32(b) & 0xFFFFFFFF)     # keeps the Coq literals small
    return "WSum %d %d" % (w["len"], w["adler"])


def ret_term(r):
    if r is None:
        return "RNone"
    if isinstance(r, int):
        return "RInt " + zlit(r)
    e = RAISES.get(r.get("raise"))
    return "RRaise " + e if e else "ROutOfFuel"     # an unknown exception class can never match the model


def case_term(case, res):
    ops = list(case["ops"]) + [["tick"]] * res["executed_ticks"]
    exp = ";".join("([%s], %s)" % (";".join(wd_term(w) for w in o["w"]), ret_term(o["ret"])) for o in res["outs"])
    return "(%s, [%s], [%s], [%s])" % (cfg_term(case), ";".join(nlist(bytes.fromhex(k)) for k in res["keys"]),
                                       ";".join(op_term(o) for o in ops), exp)


# ------------------------------------------------------------------------------------------------ generators
SMALL_B = [0, 0, 1, 1, 2, 3, 4, 5, 7, 8, 15, 16, 17, 31, 32, 33, 63, 64, 100, 123, 124, 125, 125, 126, 126, 127, 127, 128, 129]
BIG_B = [65534, 65535, 65535, 65536, 65536, 65537, 65538, 65536 + 125, 65536 + 126, 66000, 70000]


class Gen:
    def __init__(self, rng, big_budget):
        self.rng = rng
        self.big_budget = big_budget     # how many big payloads may still be generated
        self.seedctr = rng.randint(1, 1 << 20)
        self.duplex = False      # set per case: may a peer ping arrive in the middle of a streaming frame?
        self.midframe = False
        self.xconn = False       # members of multi-connection groups: small, mostly non-ASCII text, never duplex

    def size(self, allow_big=True, cap=None):
        if self.xconn:
            allow_big, cap = False, min(cap or 150, 150)
        r = self.rng.random()
        if allow_big and self.big_budget > 0 and r < 0.12:
            self.big_budget -= 1
            n = self.rng.choice(BIG_B)
        elif r < 0.6:
            n = self.rng.choice(SMALL_B)
        elif r < 0.9:
            n = min(300, int(self.rng.expovariate(1 / 40.0)))
        else:
            n = self.rng.randint(129, 400)
        return min(n, cap) if cap is not None else n

    def payload(self, n, text=False):
        rng = self.rng
        if text:
            if self.xconn or (n <= 64 and rng.random() < 0.4):
                s = rng.choice(UTF8_SAMPLES).encode()
                b = (s * (n // len(s) + 1))
                # cut on a character boundary
                b = b[:n]
                while True:
                    try:
                        b.decode("utf8"); break
                    except UnicodeDecodeError:
                        b = b[:-1]
                return {"hex": b.hex()}
            if n <= 48:
                return {"hex": bytes(rng.randint(32, 126) for _ in range(n)).hex()}
            self.seedctr += 1
            return {"apat": [self.seedctr, n]}
        if n <= 48:
            return {"hex": bytes(rng.getrandbits(8) for _ in range(n)).hex()}
        self.seedctr += 1
        return {"pat": [self.seedctr, n]}

    def frag_size(self, n):
        rng = self.rng
        c = [max(1, n - 1), n, n + 1, 125, 126, 127, 65535, 65536, 65537]
        if n <= 300:
            c += [1, 2, 3]
        c += [d for d in range(2, 40) if n and n % d == 0][:4]
        if n > 4:
            c += [n // 2, n // 2 + 1, (n + 2) // 3]
        f = rng.choice(c)
        # keep the number of frames bounded
        if f > 0 and n // f > 400:
            f = max(1, n // 400)
        return f

    def control(self, ops, expect):
        rng = self.rng
        if rng.random() < 0.25:
            kind = rng.choice(["ping", "pong"])
            n = rng.choice([0, 0, 1, 5, 124, 125])
            p = self.payload(n) if n else None
            ops.append([kind, p])
            expect.append([kind, p or {"hex": ""}, None])
        if rng.random() < 0.12:
            # the peer pings us while we are at a frame boundary: the automatic pong goes out here
            n = rng.choice([0, 1, 4, 125])
            p = self.payload(n) if n else {"hex": ""}
            ops.append(["peerPing", p])
            expect.append(["pong", p, None])
        if rng.random() < 0.15:
            ops.append(["tick"])

    def slice_payload(self, p, a, b):
        """payload descriptor of octets [a:b) of descriptor p -- only literal payloads can be sliced exactly; for
        pattern payloads the harness materialises them"""
        data = materialise(p)[a:b]
        if len(data) <= 96:
            return {"hex": data.hex()}
        return None

    def legal(self, role):
        """a legal application-level call sequence and the events it must produce on the wire"""
        rng = self.rng
        ops, expect = [], []
        options = {}
        self.duplex = (not self.xconn) and rng.random() < 0.06
        self.midframe = False
        if rng.random() < 0.25:
            options["autoFragmentSize"] = rng.choice([1, 2, 7, 125, 126, 127, 1000, 65535, 65536])
        peer_options = {}
        if rng.random() < 0.08:
            # non-default mask options with a peer configured to accept them (theorem: policy AnyMask)
            if role == "client":
                options["maskClientFrames"] = False
                peer_options["requireMaskedClientFrames"] = False
            else:
                options["maskServerFrames"] = True
                peer_options["acceptMaskedServerFrames"] = True
        nprep = 0
        for _ in range(rng.randint(1, 4)):
            self.control(ops, expect)
            api = rng.choice(["sendMessage", "sendMessage", "fragment", "frameapi", "streaming", "streaming", "prepared"])
            binary = rng.random() < (0.2 if self.xconn else 0.6)
            sync = rng.random() < 0.25
            if api in ("sendMessage", "fragment"):
                n = self.size()
                if options.get("autoFragmentSize") and n // options["autoFragmentSize"] > 400:
                    n = 300
                p = self.payload(n, text=not binary)
                fs = self.frag_size(n) if api == "fragment" else None
                ops.append(["sendMessage", p, binary, fs, sync])
                expect.append(["msg", p, binary])
            elif api == "prepared":
                n = self.size()
                p = self.payload(n, text=not binary)
                ops.append(["prepare", p, binary])
                idx = nprep; nprep += 1
                for _ in range(rng.choice([1, 1, 2])):
                    ops.append(["sendPrepared", idx])
                    expect.append(["msg", p, binary])
                    self.control(ops, expect)
            elif api == "frameapi":
                n = self.size(cap=400)
                data = os_random(rng, n, not binary, self.xconn)
                n = len(data)
                ops.append(["beginMessage", binary])
                k = rng.randint(1, 4)
                cuts = utf8_safe_cuts(data, sorted(rng.randint(0, n) for _ in range(k - 1)), False)
                for a, b in zip([0] + cuts, cuts + [n]):
                    ops.append(["sendMessageFrame", {"hex": data[a:b].hex()}, rng.random() < 0.2])
                    self.control(ops, expect)
                ops.append(["endMessage"])
                expect.append(["msg", {"hex": data.hex()}, binary])
            else:   # streaming API with arbitrary frame lengths and data chunkings
                big = self.big_budget > 0 and rng.random() < 0.08
                if big:
                    self.big_budget -= 1
                    n = rng.choice(BIG_B)
                    self.seedctr += 1
                    desc = {"pat": [self.seedctr, n]} if binary else {"apat": [self.seedctr, n]}
                    ops.append(["beginMessage", binary])
                    ops.append(["beginMessageFrame", n])
                    ops.append(["frameData", desc, sync])
                    ops.append(["endMessage"])
                    expect.append(["msg", desc, binary])
                else:
                    n = self.size(allow_big=False, cap=400)
                    data = os_random(rng, n, not binary, self.xconn)
                    n = len(data)
                    ops.append(["beginMessage", binary])
                    k = rng.randint(1, 4)
                    cuts = sorted(rng.randint(0, n) for _ in range(k - 1))
                    for a, b in zip([0] + cuts, cuts + [n]):
                        ops.append(["beginMessageFrame", b - a])
                        fr = data[a:b]
                        m = rng.randint(1, 3)
                        cc = sorted(rng.randint(0, len(fr)) for _ in range(m - 1))
                        pieces = [fr[x:y] for x, y in zip([0] + cc, cc + [len(fr)])]
                        if rng.random() < 0.25:      # the last call offers more than the frame can take
                            pieces[-1] = pieces[-1] + bytes(rng.getrandbits(8) for _ in range(rng.randint(1, 5)))
                        remaining = len(fr)
                        for pc in pieces:        # a frame is complete as soon as its length is reached
                            ops.append(["frameData", {"hex": pc.hex()}, rng.random() < 0.2])
                            if rng.random() < 0.1:
                                ops.append(["tick"])
                            remaining -= len(pc)
                            if remaining <= 0:
                                break
                            if self.duplex and rng.random() < 0.5:
                                # full duplex: the peer's ping arrives while this frame is unfinished
                                pp = self.payload(rng.choice([0, 1, 3]))
                                ops.append(["peerPing", pp])
                                expect.append(["pong", pp, None])
                                self.midframe = True
                        self.control(ops, expect)
                    ops.append(["endMessage"])
                    expect.append(["msg", {"hex": data.hex()}, binary])
        self.control(ops, expect)
        case = {"role": role, "options": options, "ops": ops, "expect": expect, "kind": "legal",
                "peer_options": peer_options}
        if self.midframe:
            case["float_pongs"] = True
            case["kind"] = "legal-duplex"
        return case

    def wild(self, role):
        """arbitrary calls, legal or not: only model = implementation is claimed"""
        rng = self.rng
        ops = []
        options = {}
        if rng.random() < 0.3:
            options["autoFragmentSize"] = rng.choice([0, 1, 3, 126])
        if rng.random() < 0.2:
            options["maxMessagePayloadSize"] = rng.choice([1, 10, 125, 126])
        if rng.random() < 0.15:
            options["applyMask"] = False
        if rng.random() < 0.15:
            options["maskClientFrames" if role == "client" else "maskServerFrames"] = (role != "client")
        nprep = 0
        for _ in range(rng.randint(1, 10)):
            k = rng.choice(["sendMessage", "sendFrame", "sendFrame", "prepare", "sendPrepared", "beginMessage",
                            "beginMessageFrame", "frameData", "endMessage", "sendMessageFrame", "ping", "pong",
                            "sendData", "sendData", "tick", "tick", "setState"])
            n = self.size(allow_big=False, cap=200)
            p = self.payload(n)
            sync = rng.random() < 0.3
            if k == "sendMessage":
                fs = rng.choice([None, None, -1, 0, 1, 2, 5, n, n + 1, max(0, n - 1)])
                if fs and n // fs > 200:
                    fs = None
                ops.append([k, p, rng.random() < 0.5, fs, sync])
            elif k == "sendFrame":
                mask = rng.choice([None, None, None, "", "01020304", "00000000", "a1b2c3d4", "0102", "0102030405"])
                plen = rng.choice([None, None, None, 0, 1, n, n + 1, 2 * n + 3, 125, 126, 300])
                chop = rng.choice([None, None, None, -1, 0, 1, 2, 3, 7, 1000])
                ops.append([k, rng.choice([0, 1, 2, 8, 9, 10, 3, 15, 16, 127, 128, 200]), p, rng.random() < 0.7,
                            rng.choice([0, 0, 0, 1, 4, 7, 8, 9]), mask, plen, chop, sync])
            elif k == "prepare":
                ops.append([k, p, rng.random() < 0.5]); nprep += 1
            elif k == "sendPrepared":
                if nprep:
                    ops.append([k, rng.randrange(nprep)])
            elif k == "beginMessage":
                ops.append([k, rng.random() < 0.5])
            elif k == "beginMessageFrame":
                ops.append([k, rng.choice([-1, 0, 0, 1, 2, 5, n, 125, 126, 127, 65535, 65536, 2 ** 63 - 1, 2 ** 63])])
            elif k in ("frameData", "sendMessageFrame"):
                ops.append([k, p, sync])
            elif k == "endMessage":
                ops.append([k])
            elif k in ("ping", "pong"):
                ops.append([k, p if rng.random() < 0.8 else None])
            elif k == "sendData":
                ops.append([k, p, sync, rng.choice([None, None, -1, 0, 1, 2, 3, 7, n, n + 1, 1000])])
            elif k == "tick":
                ops.append([k])
            else:
                ops.append([k, rng.choice(["OPEN", "OPEN", "CLOSING", "CLOSED", "CONNECTING"])])
        return {"role": role, "options": options, "ops": ops, "expect": None, "kind": "wild"}

    def fifo(self, role):
        """sendData only, any chopsize / sync mix, timer firings in between: FIFO oracle in the driver"""
        rng = self.rng
        ops = []
        for _ in range(rng.randint(1, 12)):
            if rng.random() < 0.25:
                ops.append(["tick"])
                continue
            n = self.size(allow_big=False, cap=300)
            ops.append(["sendData", self.payload(n), rng.random() < 0.4,
                        rng.choice([None, None, 1, 2, 3, 5, 8, max(1, n - 1), n, n + 1, 64, 1000]) if n <= 120 or rng.random() < 0.5
                        else rng.choice([None, 50, 64, n])])
        return {"role": role, "options": {}, "ops": ops, "expect": None, "fifo": True, "kind": "fifo"}


def os_random(rng, n, text, always_utf8=False):
    if text:
        if always_utf8 or rng.random() < 0.4:
            s = rng.choice(UTF8_SAMPLES).encode()
            b = (s * (n // len(s) + 1))[:n]
            while True:
                try:
                    b.decode("utf8"); return b
                except UnicodeDecodeError:
                    b = b[:-1]
        return bytes(rng.randint(32, 126) for _ in range(n))
    return bytes(rng.getrandbits(8) for _ in range(n))


def utf8_safe_cuts(data, cuts, _):
    # fragment boundaries may fall inside a code point (legal for the sender; the receiver validates incrementally)
    return [min(c, len(data)) for c in cuts]


def pat_bytes(seed, n):
    x = seed
    out = bytearray(n)
    for i in range(n):
        x ^= (x << 13) & 0xFFFFFFFF
        x ^= x >> 17
        x ^= (x << 5) & 0xFFFFFFFF
        out[i] = x & 255
    return bytes(out)


def materialise(p):
    if p is None:
        return b""
    if "hex" in p:
        return bytes.fromhex(p["hex"])
    if "pat" in p:
        return pat_bytes(*p["pat"])
    return bytes(x & 127 for x in pat_bytes(*p["apat"]))


def spec_py(ops, options):
    """application-level meaning of a call sequence (harness-side mirror of spec_step in Model/WsSend.v): the events it
    must produce, or None if the sequence is not a legal use of the send APIs.  Used to keep shrunk cases legal and
    to self-check the generator."""
    state, binary, acc, rem, prepared, ev = "G", None, b"", 0, [], []
    auto = options.get("autoFragmentSize", 0)
    maxp = options.get("maxMessagePayloadSize", 0)
    for op in ops:
        k = op[0]
        if k == "sendMessage":
            n = pl_len(op[1])
            fs = op[3] if op[3] is not None else (auto if auto > 0 else None)
            if state != "G" or (fs is not None and not (n <= fs or fs >= 1)) or (maxp and n > maxp):
                return None
            ev.append(["msg", op[1], op[2]])
        elif k == "prepare":
            prepared.append((op[1], op[2]))
        elif k == "sendPrepared":
            if state != "G" or op[1] >= len(prepared):
                return None
            ev.append(["msg", prepared[op[1]][0], prepared[op[1]][1]])
        elif k == "beginMessage":
            if state != "G":
                return None
            state, binary, acc = "B", op[1], b""
        elif k == "beginMessageFrame":
            if state not in "BM" or not (0 <= op[1] < 2 ** 63):
                return None
            state, rem = "F", op[1]
        elif k == "frameData":
            if state != "F":
                return None
            p = materialise(op[1])
            acc += p[:rem]
            if rem <= len(p):
                state = "M"
            else:
                rem -= len(p)
        elif k == "sendMessageFrame":
            if state not in "BM":
                return None
            acc += materialise(op[1]); state = "M"
        elif k == "endMessage":
            if state != "M":
                return None
            ev.append(["msg", {"hex": acc.hex()}, binary]); state = "G"
        elif k in ("ping", "pong"):
            if state == "F" or pl_len(op[1]) > 125:
                return None
            ev.append([k, op[1] or {"hex": ""}, None])
        elif k == "peerPing":           # not under the application's control: legal at any moment
            if pl_len(op[1]) > 125:
                return None
            ev.append(["pong", op[1] or {"hex": ""}, None])
        elif k != "tick":
            return None
    return ev if state == "G" else None


def same_events(a, b):
    return a is not None and b is not None and len(a) == len(b) and all(
        x[0] == y[0] and x[2] == y[2] and materialise(x[1]) == materialise(y[1]) for x, y in zip(a, b))


def case_weight(case):
    return sum(pl_len(x) for op in case["ops"] for x in op[1:] if isinstance(x, dict))


def e2e_plan(case, quick, rng, fw="tx"):
    if case.get("expect") is None:
        return None
    plan = e2e_plan_base(case, quick, rng)
    if fw.startswith("aio"):
        # asyncio adapter: reads queue up in receive_queue until the consumer task runs; every re-segmentation is also
        # delivered as a burst (all data_received calls before the loop turns), plus bursts of whole frames
        extra = ["burst+" + m for m in plan["modes"] if not m.startswith("hs+") and m != "whole"]
        plan["modes"] = plan["modes"] + extra + ["burst+frames", "burst+frames"]
    return plan


def e2e_plan_base(case, quick, rng):
    w = case_weight(case)
    if w <= (24 if quick else 60):
        modes = ["all_splits", "drip", "whole", "hs+whole", "hs+cuts"]
    elif w <= 3000:
        modes = ["drip", "cuts", "cuts", "whole", "hs+whole", "hs+cuts"]
    else:
        modes = ["cuts", "cuts", "whole", "hs+cuts"]
    return {"modes": modes, "seed": rng.randint(0, 1 << 30), "peer_options": case.get("peer_options") or {}}


def corpus_cases():
    d = os.path.join(vlib.ROOT, "corpus", "C01")
    out = []
    if os.path.isdir(d):
        for f in sorted(os.listdir(d)):
            if f.endswith(".json"):
                c = json.load(open(os.path.join(d, f)))
                c["kind"] = "corpus:" + f
                out.append(c)
    return out


def gen_xconn(ck, fw):
    """groups of 2-3 connections (both roles) that live in ONE driver process: interleaved send calls, then the
    segments of all wires delivered interleaved to their same-process peers; mostly non-ASCII text, so that cuts fall
    inside code points while another connection receives text in between"""
    rng = ck.rng(f"xconn/{fw}")
    g = Gen(rng, big_budget=0)
    g.xconn = True
    n = 36 if ck.quick() else 400
    groups = []
    for gi in range(n):
        members = []
        for _ in range(rng.choice([2, 2, 3])):
            m = g.legal(rng.choice(["client", "server"]))
            assert same_events(spec_py(m["ops"], m.get("options") or {}), m["expect"])
            members.append(m)
        mode = ["drip", "cuts", "drip", "cuts", "drip", "whole"][gi % 6]
        groups.append({"members": members, "mode": mode, "seed": rng.randint(0, 1 << 30),
                       "order": "round_robin" if gi % 2 == 0 else "random",
                       "burst": fw == "aio" and gi % 3 == 0})
    return groups


def gen_cases(ck, fw, role, nvx=False):
    quick = ck.quick()
    rng = ck.rng(f"gen/{fw}/{role}/{nvx}")
    g = Gen(rng, big_budget=(6 if quick else 40))
    n_legal, n_wild, n_fifo = (200, 120, 40) if quick else (2000, 1200, 400)
    if nvx:     # NVX masker / validator on both endpoints: legal sequences only (the frames are what is masked)
        n_legal, n_wild, n_fifo = (60, 0, 0) if quick else (600, 0, 0)
        g.big_budget = 3 if quick else 12
    cases = [dict(c) for c in corpus_cases() if c["role"] == role and not (nvx and c.get("expect") is None)]
    for _ in range(n_legal):
        cases.append(g.legal(role))
    for _ in range(n_wild):
        cases.append(g.wild(role))
    for _ in range(n_fifo):
        cases.append(g.fifo(role))
    if not nvx and (not quick and role == "client" and fw == "tx" or (not quick and role == "server" and fw == "aio")):
        # one message >= 1 MiB, fragmented over the 64 KiB boundary
        n = (1 << 20) + 17
        p = {"pat": [424242, n]}
        cases.append({"role": role, "options": {}, "ops": [["sendMessage", p, True, 65536 * 3 + 1, False],
                                                          ["sendMessage", p, True, None, True]],
                      "expect": [["msg", p, True], ["msg", p, True]], "kind": "legal-1MiB"})
    for c in cases:
        if c.get("expect") is not None and c["kind"] != "legal-1MiB":
            assert same_events(spec_py(c["ops"], c.get("options") or {}), c["expect"]), ("generator self-check", c["kind"], c["ops"][:8])
    erng = ck.rng(f"e2e/{fw}/{role}/{nvx}")
    for c in cases:
        if "e2e" not in c:
            c["e2e"] = e2e_plan(c, quick, erng, fw)
    return cases


# ------------------------------------------------------------------------------------------------ the check
def shape(case):
    """what kind of call sequence this is (for violation keys): the set of API entry points used"""
    return "+".join(sorted({op[0] for op in case["ops"] if op[0] != "tick"}))


def run_driver(ck, fw, cases, timeout=3000, nvx=False):
    if fw.endswith("+nvx"):
        fw, nvx = fw[:-4], True
    return ck.run_impl("ws_send.py", {"fw": fw, "cases": cases}, nvx=nvx, timeout=timeout)


def shrink(ck, fw, case, still_fails):
    """greedy delta debugging over the op list; only LEGAL sub-sequences are tried (their expected events are
    recomputed by spec_py), each candidate runs on the real code"""
    best = case
    for _ in range(30):
        cands = []
        ops = best["ops"]
        for i in range(len(ops)):
            sub = ops[:i] + ops[i + 1:]
            ev = spec_py(sub, best.get("options") or {})
            if ev is not None and sub:
                cands.append(dict(best, ops=sub, expect=ev))
        if not cands:
            break
        try:
            rs = run_driver(ck, fw, cands[:40], timeout=600)["results"]
        except Exception:
            break
        nxt = next((c for c, r in zip(cands, rs) if still_fails(c, r)), None)
        if nxt is None:
            break
        best = nxt
    return best


def run(ck):
    ck.rule.append(
        "per framework (tx, aio) x role (client, server): (a) LEGAL application-level call sequences generated by a "
        "grammar walk over sendMessage (fragmentSize None/1/n-1/n/n+1/divisors/125..127/65535..65537, autoFragmentSize), "
        "frame API, streaming API (arbitrary frame lengths incl. 0, arbitrary data chunkings incl. over-long last chunk), "
        "prepared messages (sent once or twice), pings/pongs between frames, sync flags and timer firings; payload sizes "
        "biased to 0,1,124..129,65534..65538,2^16+k, one > 1 MiB in thorough; (b) WILD sequences over the whole send "
        "alphabet incl. illegal orders, sendFrame with explicit mask/payload_len/chopsize/odd opcodes, non-default mask "
        "options, state changes; (c) sendData-only FIFO sequences with chopsize/sync mixes. Each call's transport.write "
        "arguments and result are compared with the Gallina model (coqc vm_compute); legal cases are also judged by an "
        "independent RFC 6455 parser and delivered to a real peer of the opposite role under re-segmentation (every split "
        "position for short streams, 1-octet drip, random cuts; on asyncio also as bursts); (d) XCONN groups: 2-3 real connections "
        "of both roles in ONE process, send calls interleaved, segments (drip / random cuts) of all wires delivered "
        "interleaved to their same-process peers, mostly non-ASCII text so that cuts fall inside code points -- each "
        "connection must deliver exactly its own messages (a failure is re-run alone to tell a leak from a plain defect). "
        "non-trivial = case reached the send path (>= 1 write); "
        "distinct = distinct (framework, role, options, op list)")
    ck.extra_tb += [
        "modelled, not verified: CPython bytes/int/deque semantics as mirrored in Model/WsSend.v; txaio.call_later "
        "firing (one pending _send timer iff self.triggered); struct.pack('!H'/'!Q'/'!I') = big-endian",
        "compression is OFF in model and runs (property C12); close frames / closing handshake are property C05",
        "the receive loop of the real code is NOT modelled here: delivery by the real receiver under every segmentation "
        "is covered by the end-to-end runs only (theorems prove delivery through the RFC reference parser rfc_parse)",
        "oracle assumptions: wsdrv.parse_frames (independent 40-line RFC 6455 frame parser) and the sequencing rules "
        "written in harness/impl/ws_send.py: judge",
        "mask keys: random.getrandbits pinned in the driver process to a deterministic stream (wsdrv.KeyStream)",
    ]
    ck.notes += [
        "F-C01-1 (out of scope, integrator decision): sendFrame(mask=<4 octets>) -- internal fuzzing parameter -- sets the "
        "MASK bit and masks the payload but does not write the key octets (wire 82 84 60606060 for payload abcd, mask "
        "01020304). Modelled faithfully (theorem C01_explicit_mask_omits_key, Example C01_explicit_mask_witness), compared "
        "with the real code in the wild cases and corpus/C01/fuzz_explicit_mask_*.json; not a violation.",
        "F-C01-2 (out of scope, integrator decision): the streaming API accepts illegal call orders -- endMessage() has its "
        "send_state check commented out, sendMessage()/sendPing()/sendPreparedMessage() never look at send_state -- and then "
        "writes malformed sequences (beginMessage; sendMessageFrame(x); endMessage(); endMessage() -> stray 80 00); "
        "endMessage()/sendMessageFrame()/sendMessageFrameData() before the first beginMessage() raise AttributeError "
        "(send_compressed is never initialised). API misuse; modelled faithfully (C01_streaming, "
        "C01_streaming_rejects_all_illegal_refuted, Example C01_unchecked_orders), compared with the real code in the wild "
        "cases and corpus/C01/unchecked_orders_*.json; not a violation.",
        "observation: a prepared message re-sent by a client re-uses the masking key drawn at prepareMessage() time "
        "(RFC 6455 5.3 asks for a fresh key per frame); wire format and delivery are unaffected.",
    ]
    broken = ck.coq_props()
    # the JOIN of the sender half (Props/C01.v) with the receiver half (Props/C02.v): Props/C01Join.v
    _prev_assumptions, _prev_closure = dict(ck.assumptions), list(getattr(ck, "closure_files", []))
    broken = ck.coq_props("Props/C01Join.v")          # obligations accumulate; returns every broken one so far
    _prev_assumptions.update(ck.assumptions)
    ck.assumptions = _prev_assumptions
    ck.closure_files = _prev_closure + [f for f in ck.closure_files if f not in _prev_closure]
    ck.extra_tb += [
        "join (Props/C01Join.v): theorems about the two MODELS (Model/WsSend.v send path, Model/WsRecv.v receive loop) "
        "and the two declarative references; that the models are the code is the correspondence of C01 (send) and C02 "
        "(receive) plus the end-to-end runs here",
        "join hypotheses: masking keys are 4 octets, payloads are octets, text payloads are complete well-formed UTF-8 "
        "when the receiver validates (needed: Example C01_join_text_hypothesis_needed), no permessage-compress negotiated, "
        "receiver accepts the sender's masking, messages within the receiver's size limits, call sequence accepted by "
        "spec_run and ending at a frame boundary; default_recv in Proofs/WsJoinProofs.v transcribes "
        "resetProtocolOptions of both factories (not regenerated from the source)",
    ]
    ck.log(f"property file built: {len(ck.obligations)} obligations, broken: {broken}")
    ok, out = vlib.coq_make(["Model/WsSendRun.vo"])
    if not ok:
        raise RuntimeError("WsSendRun build failed: " + out[-1500:])

    jobs = [(fw, role, False) for fw in ("tx", "aio") for role in ("client", "server")]
    jobs += [("tx", "client", True), ("aio", "client", True)]      # freshly compiled NVX masker in sender and peer
    work = {}
    for fw, role, nvx in jobs:
        work[(fw, role, nvx)] = gen_cases(ck, fw, role, nvx)

    def drive(j):
        fw, role, nvx = j
        cases = work[j]
        # split into a few driver processes per (fw, role) to use the cores
        k = 2 if ck.quick() else 4
        parts = [cases[i::k] for i in range(k)]
        with ThreadPoolExecutor(k) as ex:
            rs = list(ex.map(lambda p: run_driver(ck, fw, p, nvx=nvx) if p else {"results": [], "hist": {}}, parts))
        results = [None] * len(cases)
        hist = {}
        for i, r in enumerate(rs):
            for jx, res in enumerate(r["results"]):
                results[i + jx * k] = res
            for kk, v in r["hist"].items():
                hist[kk] = hist.get(kk, 0) + v
        return results, hist

    xgroups = {fw: gen_xconn(ck, fw) for fw in ("tx", "aio")}

    def drive_x(fw):
        gs = xgroups[fw]
        k = 2 if ck.quick() else 4
        parts = [gs[i::k] for i in range(k)]
        with ThreadPoolExecutor(k) as ex:
            rs = list(ex.map(lambda p: ck.run_impl("ws_send.py", {"fw": fw, "cases": [], "xconn": p}, nvx=False,
                                                   timeout=3000) if p else {"xconn": [], "hist": {}}, parts))
        res = [None] * len(gs)
        for i, r in enumerate(rs):
            for jx, x in enumerate(r["xconn"]):
                res[i + jx * k] = x
            for kk, v in r["hist"].items():
                ck.bump(kk, v)
        return res

    with ThreadPoolExecutor(8) as ex:
        fx = {fw: ex.submit(drive_x, fw) for fw in ("tx", "aio")}
        outs = list(ex.map(drive, jobs))
        xouts = {fw: f.result() for fw, f in fx.items()}

    # several connections in one process: every connection delivers exactly its own messages
    for fw in ("tx", "aio"):
        nbad = 0
        for grp, xr in zip(xgroups[fw], xouts[fw]):
            ck.evaluations += 1
            ck.bump("case:xconn")
            ck.note_cases(0, [json.dumps([fw, "xconn", grp], sort_keys=True)])
            for f in xr["fails"]:
                nbad += 1
                ck.bump(f"xconn-failure:{f['stage']}:{'isolation' if f['alone_ok'] else 'alone-too'}")
                rep = {"fw": fw, "group": grp, "fail": f}
                if f["stage"] == "receive" and f["alone_ok"]:
                    ck.violation(f"xconn/{fw}/{f['role']}-receives/interleaved-with-other-connection",
                                 f"several connections in one process ({fw}): a {f['role']} connection fed segments interleaved "
                                 f"with another connection's segments did not deliver exactly what its own peer sent (state "
                                 f"{f['state']}, got {f['got']}, want {f['want']}, {f['bad']}); the same segments delivered to "
                                 "the connection alone are fine -- state leaks between connections", rep, found_input=True)
                elif f["stage"] == "receive":
                    ck.violation(f"e2e/{fw}/{f['role']}-receives/{f['mode']}",
                                 f"real peer did not deliver exactly the sent messages ({fw}): state {f['state']}, got "
                                 f"{f['got']}, want {f['want']}, bad {f['bad']}", rep, found_input=True)
                elif f["alone_ok"]:
                    ck.violation(f"xconn/{fw}/{f['role']}-sends/interleaved-with-other-connection",
                                 f"several connections in one process ({fw}): with its send calls interleaved with another "
                                 f"connection's calls a {f['role']} wrote octets that are not the well-formed frame sequence of "
                                 f"its own messages ({f['problem']}); alone the same calls are fine -- state leaks between "
                                 "connections", rep, found_input=True)
                else:
                    ck.violation(f"sender/{f['role']}/xconn-member/{re.sub(r'[0-9]+', 'N', f['problem'].split(':')[0])[:60]}",
                                 f"octets written by the real {f['role']} ({fw}) for a legal call sequence are not the "
                                 f"well-formed frame sequence of the sent messages: {f['problem']}", rep, found_input=True)
        ck.log(f"xconn {fw}: {len(xgroups[fw])} groups of 2-3 same-process connections, {nbad} failures")

    coq_cases, coq_index = [], []
    n_oracle = n_e2e = n_fifo = 0
    seen_fail = set()
    n_duplex_checked = {}
    for (fw, role, nvx), (results, hist) in zip(jobs, outs):
        cases = work[(fw, role, nvx)]
        for k, v in hist.items():
            ck.bump(k, v)
        ck.log(f"impl {fw}/{role}{'/nvx' if nvx else ''}: {len(cases)} cases driven")
        if nvx:
            fw = fw + "+nvx"
        for case, res in zip(cases, results):
            ck.evaluations += 1
            ck.bump("case:" + case["kind"].split(":")[0])
            wrote = any(o["w"] for o in res["outs"])
            if wrote:
                ck.note_cases(0, [json.dumps([fw, role, case.get("options"), case["ops"]], sort_keys=True)])
            for o in res["outs"]:
                r = o["ret"]
                ck.bump("outcome:" + ("none" if r is None else "int" if isinstance(r, int) else "raise:" + str(r.get("raise"))))
            # (ii) independent oracle
            if res.get("oracle") is not None:
                n_oracle += 1
                if not res["oracle"]["ok"]:
                    prob = res["oracle"]["problems"][0]
                    pk = re.sub(r"\d+", "N", prob.split(":")[0])[:60]
                    ck.bump("oracle-failure:" + pk)
                    duplex_only = False
                    if case.get("float_pongs"):
                        # F-C01-3 candidate: a ping of the peer arrived while a streaming frame was unfinished.  The key is
                        # used only if that is really what fails: the same calls WITHOUT the peer's pings must be clean.
                        ck.bump("duplex: failing cases with a peer ping inside an unfinished frame")
                        if n_duplex_checked.get(role, 0) < 3:
                            n_duplex_checked[role] = n_duplex_checked.get(role, 0) + 1
                            sub = [op for op in case["ops"] if op[0] != "peerPing"]
                            ev = spec_py(sub, case.get("options") or {})
                            red = {k: v for k, v in case.items() if k != "float_pongs"}
                            red.update(ops=sub, expect=ev, e2e=None)
                            rr = run_driver(ck, fw, [red], timeout=600)["results"][0]
                            duplex_only = rr["oracle"]["ok"]
                            if not duplex_only:
                                case, res, prob = red, rr, rr["oracle"]["problems"][0]
                                pk = re.sub(r"\d+", "N", prob.split(":")[0])[:60]
                        else:
                            duplex_only = True
                    if duplex_only:
                        ck.violation(f"duplex/{role}/peer-ping-inside-streaming-frame",
                                     f"a ping of the peer arriving while the {role} application is inside a frame of the "
                                     "streaming API makes the automatic pong land inside that frame: the octets written are "
                                     f"not a well-formed frame sequence and the message is lost ({fw}): {prob}",
                                     {"fw": fw, "case": dict(case, e2e=None), "problems": res["oracle"]["problems"]},
                                     found_input=True)
                    # one report per failure class (shrinking runs the real code again)
                    elif (role, pk) not in seen_fail and len(seen_fail) < 4:
                        seen_fail.add((role, pk))

                        def still(c, r):
                            return r.get("oracle") is not None and not r["oracle"]["ok"]
                        small = shrink(ck, fw, dict(case, e2e=None), still)
                        ck.violation(f"sender/{role}/{shape(small)}/{pk}",
                                     f"octets written by the real {role} ({fw}) for a legal call sequence are not the "
                                     f"well-formed frame sequence of the sent messages: {prob}",
                                     {"fw": fw, "case": small, "problems": res["oracle"]["problems"]}, found_input=True)
            # (iii) end to end
            if res.get("e2e") is not None:
                n_e2e += res["e2e"]["runs"]
                if not res["e2e"]["ok"]:
                    f0 = res["e2e"]["fails"][0]
                    ck.bump("e2e-failure:" + f0["mode"])
                    peer = "server" if role == "client" else "client"
                    ck.violation(f"e2e/{fw.split('+')[0]}/{peer}-receives/{f0['mode']}",
                                 f"real peer did not deliver exactly the sent messages ({fw}, sender {role}): state "
                                 f"{f0['state']}, got {f0['got']}, want {f0['want']}, bad {f0['bad']}",
                                 {"fw": fw, "case": case, "fail": f0}, found_input=True)
            # FIFO oracle: concatenation of writes = concatenation of data arguments
            if case.get("fifo"):
                n_fifo += 1
                sent = b"".join(materialise(op[1]) for op in case["ops"] if op[0] == "sendData")
                got_len = res["wire_len"]
                lit = all("hex" in w for o in res["outs"] for w in o["w"])
                got = b"".join(bytes.fromhex(w["hex"]) for o in res["outs"] for w in o["w"]) if lit else None
                if got_len != len(sent) or (got is not None and got != sent):
                    ck.violation(f"fifo/{role}/sendData", "octets handed to transport.write are not the concatenation of "
                                 "the sendData arguments in call order", {"fw": fw, "case": case}, found_input=True)
            if res.get("wild"):
                if res["wild"]["malformed"] and not res["wild"]["raised"]:
                    ck.bump("wild: nothing raised yet the wire is not a well-formed sequence (fuzzing API / unchecked call order)")
            coq_cases.append(case_term(case, res))
            coq_index.append((fw, role, case, res))
    for c, r in [(x[2], x[3]) for x in coq_index[:3]]:
        ck.sample({"role": c["role"], "options": c.get("options"), "ops": c["ops"][:6],
                   "writes": [o["w"] for o in r["outs"]][:6]})
    ck.bump("oracle_judged_cases", n_oracle)
    ck.bump("e2e_deliveries_total", n_e2e)
    ck.bump("fifo_cases", n_fifo)
    ck.log(f"oracle judged {n_oracle} legal cases; {n_e2e} end-to-end deliveries; {n_fifo} fifo cases")

    # (i) model = implementation, call by call  (+ the specification theorem evaluated on every legal case)
    # very large cases (>= 300 000 payload octets) are evaluated once (model = implementation) in their own shards
    big = [i for i, x in enumerate(coq_index) if case_weight(x[2]) >= 300000]
    small = [i for i in range(len(coq_cases)) if i not in set(big)]
    bad = [small[j] for j in ck.coq_cases("send", IMPORTS, "send_case_all_ok", [coq_cases[i] for i in small],
                                          ty="send_case", shard=120, timeout=1500)]
    if big:
        bad += [big[j] for j in ck.coq_cases("sendbig", IMPORTS, "send_case_ok", [coq_cases[i] for i in big],
                                             ty="send_case", shard=1, timeout=1500)]
        bad.sort()
    ck.bump("model_compared", len(coq_cases))
    ck.bump("model_compared_big", len(big))
    ck.log(f"model comparison: {len(coq_cases)} cases, {len(bad)} disagreements")
    reported = 0
    for i in bad:
        fw, role, case, res = coq_index[i]
        if reported >= 3:
            break
        # a case that the independent oracle already rejects is a concrete failing input reported above, not a
        # correspondence problem
        if (res.get("oracle") is not None and not res["oracle"]["ok"]) or (res.get("e2e") and not res["e2e"]["ok"]):
            continue
        # which half failed?
        vals = ck.coq_eval(IMPORTS, ["send_case_ok " + coq_cases[i], "spec_case_ok " + coq_cases[i]])
        what = "model and implementation differ call by call" if "false" in vals[0] else \
            "reference parser over the model's octets disagrees with the application-level specification"
        reported += 1
        ck.violation(f"model-disagrees/{role}/{shape(case)}", f"{what} ({fw}); the independent oracle accepts the "
                     "implementation's octets for this case (correspondence broken)",
                     {"fw": fw, "case": case, "impl": res["outs"][:12], "keys": res["keys"][:8],
                      "correspondence": "send_case_all_ok"}, found_input=False)
    if broken:
        ck.log(f"proof obligations broken: {broken}")


def replay(path):
    r = json.load(open(path))["replay"]
    ck = vlib.Check("C01", "quick", 1)
    if "group" in r:
        fw = r["fw"]
        x = ck.run_impl("ws_send.py", {"fw": fw, "cases": [], "xconn": [r["group"]]}, nvx=False, timeout=600)["xconn"][0]
        print("group:", json.dumps([{k: m[k] for k in ("role", "options", "ops")} for m in r["group"]["members"]])[:3000])
        print("mode:", r["group"]["mode"], "order:", r["group"].get("order"), "burst:", r["group"].get("burst"))
        print("result:", json.dumps(x))
        return 0 if x["ok"] else 1
    case, fw = r["case"], r["fw"]
    case = dict(case)
    case.setdefault("e2e", None)
    res = run_driver(ck, fw, [case])["results"][0]
    print("case:", json.dumps({k: case[k] for k in ("role", "options", "ops")}))
    print("implementation writes/results:", json.dumps(res["outs"]))
    print("keys:", res["keys"])
    print("oracle:", res.get("oracle"))
    print("e2e:", res.get("e2e"))
    vlib.coq_make(["Model/WsSendRun.vo"])
    t = case_term(case, res)
    vals = ck.coq_eval(IMPORTS, ["send_case_ok " + t, "spec_case_ok " + t])
    print("Gallina model agrees with implementation:", vals[0], " specification theorem on the case:", vals[1])
    bad = (res.get("oracle") and not res["oracle"]["ok"]) or (res.get("e2e") and not res["e2e"]["ok"]) or "false" in vals[0]
    return 1 if bad else 0
