"""C15 — frame masking is exact XOR with the running key in every implementation."""
import json, os
import vlib

IMPL_CODE = {"py_simple": 0, "py_shifted": 1, "nvx_simple": 2, "nvx_sse2": 3, "py_factory": 4,
             "nvx_factory": 5, "nvx_wrap_simple": 6, "nvx_wrap_simd": 7}
PY_IMPLS = ["py_simple", "py_shifted", "py_factory"]
NVX_IMPLS = ["nvx_simple", "nvx_sse2", "nvx_wrap_simple", "nvx_wrap_simd", "nvx_factory"]


def nlist(bs):
    return "[" + ";".join(str(b) for b in bs) + "]"


def coq_case(s):
    chunks = [bytes.fromhex(c) for c in s["chunks"]]
    return "(%d, %s, %d, %d, [%s], %s, %d)" % (
        IMPL_CODE[s["impl"]], nlist(bytes.fromhex(s["key"])), s["align"], s["off"],
        ";".join(nlist(c) for c in chunks), nlist(bytes.fromhex(s["out"])), s["ptr"])


def sweep(ck):
    if ck.quick():
        lengths = list(range(0, 41)) + list(range(120, 136)) + list(range(250, 301, 7))
        cfg = dict(lengths=lengths, offsets=[0, 1, 2, 3], aligns=[0, 1, 7, 15], splits=4,
                   keys=["01020304", "ff00a55a", "00000000"], big=[65536 + 3], samples=300)
    else:
        cfg = dict(lengths=list(range(0, 301)), offsets=[0, 1, 2, 3], aligns=list(range(16)), splits="all",
                   keys=["01020304", "ff00a55a"], big=[65536 + 3, 1 << 20], samples=1500)
    cfg["seed"] = f"{ck.seed}/C15"
    return cfg


def run(ck):
    ck.extra_tb += [
        "modelled, not verified: the C code's memory safety (out-of-bounds access) is not expressible in the model; "
        "the buffer address enters the SSE2 model only through (address & 15), as in the C source",
        "role policy: theorems are about Model/WsSend.v build_frame (model of sendFrame), tied to the code by the C01 "
        "correspondence run and here by an oracle run on the real client/server protocol objects with pinned keys",
        "translator translators/mask_opts.py: the masking-option plumbing (defaults, setProtocolOptions per keyword, "
        "neutrality of other keywords, factory->connection copy) is read off the real factories by evaluation over its "
        "finite domain; that the factories are deterministic functions of their arguments is assumed",
        "cffi buffer copy in XorMaskerNvx.process and array('B') in the pure-Python maskers are glue covered by the runs only",
    ]
    ck.rule.append("sweep of payload length x start offset x buffer alignment x key x chunk split over the real "
                   "pure-Python (Simple, Shifted1, factory) and freshly compiled NVX (scalar, SSE2 at forced alignment, "
                   "wrapper, factory) maskers, each compared with naive XOR; a sample is re-evaluated by the Gallina "
                   "model in coqc. non-trivial = payload length > 0; distinct = distinct (impl,key,off,align,chunks)")
    # masking-option plumbing, regenerated from the real factories (fail closed) BEFORE the property file is checked
    try:
        r = ck.run_impl(os.path.join(vlib.ROOT, "translators", "mask_opts.py"), {}, timeout=300)
        vlib.write_if_changed(os.path.join(vlib.COQ, "Gen", "MaskOpts.v"), r["coq"])
        ck.obligation("translator:mask_opts", True)
        ck.sample({"mask_options_plumbing": r["values"]})
    except vlib.DriverCrash as e:
        ck.obligation("translator:mask_opts", False, str(e)[-1200:])
    broken = ck.coq_props()
    ok, out = vlib.coq_make(["Model/MaskerRun.vo"])
    if not ok:
        raise RuntimeError("MaskerRun build failed: " + out[-1500:])
    cfg = sweep(ck)
    all_samples, mismatches = [], []
    for mode, impls in (("py", PY_IMPLS), ("nvx", NVX_IMPLS)):
        c = dict(cfg, mode=mode, impls=impls)
        n_align = len(cfg["aligns"])
        c["est"] = len(cfg["lengths"]) * 4 * len(cfg["keys"]) * (5 if cfg["splits"] != "all" else 150) * len(impls) * (n_align if mode == "nvx" else 1)
        try:
            r = ck.run_impl("masker.py", c, nvx=(mode == "nvx"), timeout=7200)
        except vlib.DriverCrash as e:
            if e.progress and e.rc < 0:
                ck.violation(f"{e.progress['impl']}/crash", f"native masker {e.progress['impl']} crashed the interpreter "
                             f"(signal {-e.rc}) on a payload of {sum(len(x)//2 for x in e.progress['chunks'])} octets, "
                             f"align={e.progress['align']}", dict(e.progress, signal=-e.rc), found_input=True)
                continue
            raise
        ck.evaluations += r["evaluations"]
        for k, v in r["hist"].items():
            ck.bump(k, v)
        mismatches += r["mismatches"]
        all_samples += r["samples"]
        ck.log(f"impl sweep mode={mode}: {r['evaluations']} cases, {len(r['mismatches'])} mismatches vs naive XOR")
    ck.exhaustive = (cfg["splits"] == "all")
    # model side
    nontriv = [s for s in all_samples if sum(len(c) for c in s["chunks"]) > 0]
    ck.note_cases(0, (json.dumps(s, sort_keys=True) for s in nontriv))
    for s in all_samples[:3]:
        ck.sample(s)
    bad = ck.coq_cases("masker", "From AV Require Import Model.Masker Model.MaskerRun.", "masker_case_ok",
                       [coq_case(s) for s in all_samples], ty="masker_case")
    ck.log(f"model comparison: {len(all_samples)} sampled cases, {len(bad)} disagreements")
    ck.bump("model_compared", len(all_samples))
    # verdicts: a mismatch against naive XOR on the real code is a concrete failing input
    for m in mismatches[:5]:
        key = f"{m['impl']}/xor-mismatch"
        ck.violation(key, f"masker {m['impl']} differs from byte-wise XOR (len={sum(len(c)//2 for c in m['chunks'])}, "
                          f"off={m['off']}, align={m['align']})", m, found_input=True)
    for i in bad[:5]:
        s = all_samples[i]
        if not any(s["impl"] == m["impl"] for m in mismatches):
            ck.violation(f"{s['impl']}/model-disagrees", "implementation and Gallina model disagree on a case that "
                         "naive XOR accepts (correspondence broken)", s, found_input=False)
    # role policy on the real protocol objects (both frameworks); the sendFrame model itself is tied to the code by C01's run
    sizes = [0, 1, 5, 125, 126, 127, 300] if ck.quick() else [0, 1, 5, 124, 125, 126, 127, 128, 300, 65535, 65536, 70000]
    for fw in ("tx", "aio"):
        r = ck.run_impl("role_policy.py", {"framework": fw, "seed": ck.seed, "sizes": sizes})
        ck.evaluations += r["cases"]
        ck.bump(f"role_policy_frames_{fw}", r["frames"])
        ck.log(f"role policy {fw}: {r['cases']} send sequences, {r['frames']} frames, {len(r['bad'])} violations; "
               f"configurations {r['configs']}; send APIs {r['apis']}")
        ck.sample({"role_policy": fw, "configurations": r["configs"], "send_apis": r["apis"],
                   "mask_options_on_protocol": r["optvec"]})
        seen = set()
        for b in r["bad"]:
            key = f"role-policy/{b['role']}/{b['api'].split('/')[0]}"
            if key in seen:
                continue
            seen.add(key)
            ck.violation(key, f"{b['role']} that never set a masking option violates the masking policy: {b['why'][0]} "
                         f"(configuration {b['config']}, API {b['api']}, size={b['size']})", dict(b, framework=fw),
                         found_input=True)
    if broken and not mismatches:
        ck.log("proof obligations broken, no failing input found by the sweep")


def replay(path):
    r = json.load(open(path))["replay"]
    ck = vlib.Check("C15", "quick", 1)
    if "api" in r:       # role-policy replay: the same configuration / send API / size on the real protocol objects
        o = ck.run_impl("role_policy.py", {"framework": r["framework"], "seed": ck.seed, "sizes": [r["size"]], "only": r})
        print("case:", json.dumps({k: r[k] for k in ("framework", "role", "config", "api", "size")}))
        for b in o["bad"]:
            print("implementation violates the masking policy:", "; ".join(b["why"]))
            print("frames (opcode, masked, key, length):", b["frames"])
        print("cases run:", o["cases"], "violations:", len(o["bad"]))
        return 1 if o["bad"] else 0
    mode = "nvx" if r["impl"].startswith("nvx") else "py"
    c = dict(mode=mode, impls=[], lengths=[], offsets=[], aligns=[0], keys=[r["key"]], splits=0, seed="replay",
             samples=0, explicit=[r])
    print("case:", json.dumps({k: r[k] for k in ("impl", "key", "off", "align", "chunks")}))
    try:
        o = ck.run_impl("masker.py", c, nvx=(mode == "nvx"))["explicit"][0]
    except vlib.DriverCrash as e:
        print(f"implementation: CRASH rc={e.rc}")
        return 1
    print("implementation:", o["out"], "ptr", o["ptr"])
    print("byte-wise XOR :", o["expected"])
    s = dict(r, out=o["out"], ptr=o["ptr"])
    vals = ck.coq_eval("From AV Require Import Model.Masker Model.MaskerRun.", ["masker_case_ok " + coq_case(s)])
    print("Gallina model agrees with implementation:", vals)
    return 0 if o["out"] == o["expected"] else 1
