"""C08, identifier-validation part: the URI / realm-name / custom-attribute regular expressions and the scalar
validators of autobahn/wamp/message.py.

    run_part(ck)   called by harness/props/c08.py (or the integrator) with the C08 Check object
    run(ck)        = run_part, so that `./check C08URI quick` works on its own
    replay(path)

What runs:
  1. translators/regex2coq.py regenerates coq/Gen/UriRegex.v from the tree under test (fail closed)
  2. coq/Props/C08Uri.v is rebuilt: one obligation per theorem
  3. correspondence: the real validators (harness/impl/wamp_uri.py) and the Gallina model (Model/WampUriRun.v,
     vm_compute inside coqc) on the same values: ALL strings up to length 3 (quick) / 4 (thorough) over an 18-symbol
     alphabet, generated long URIs / realm names / eth / ens names with one mutation, boundary ids, every value kind
  4. an independent oracle (below; written from the WAMP grammar, no `re`) is compared with the implementation
"""
import itertools
import json
import os
import subprocess
import unicodedata

import vlib

# ------------------------------------------------------------------------------------------------------------------
# positions of the 35 outcomes (same order as Model/WampUriRun.v `outcomes` and harness/impl/wamp_uri.py)
# ------------------------------------------------------------------------------------------------------------------
PATS = ["realm_name", "realm_name_eth", "realm_name_ens", "realm_name_ens_reverse", "strict_empty", "loose_empty",
        "strict_non_empty", "loose_non_empty", "strict_last_empty", "loose_last_empty", "custom_attribute"]
FLAGS = list(itertools.product((False, True), repeat=4))       # strict, allow_empty_components, allow_last_empty, allow_none
NAMES = ([f"pattern:{p}" for p in PATS]
         + ["check_or_raise_uri(strict=%d,allow_empty_components=%d,allow_last_empty=%d,allow_none=%d)" % f for f in FLAGS]
         + ["check_or_raise_realm_name(allow_eth=1)", "check_or_raise_realm_name(allow_eth=0)",
            "identify_realm_name_category", "check_or_raise_id", "check_or_raise_extra", "_validate_kwargs",
            "is_valid_enc_algo", "is_valid_enc_serializer"])
N_OUT = len(NAMES)
assert N_OUT == 35
POS_URI0, POS_REALM, POS_CAT, POS_ID, POS_EXTRA, POS_KWARGS, POS_ENC = 11, 27, 29, 30, 31, 32, 33

ALPHABET = [ord(c) for c in "azA09_.# \n-@x"] + [0x0663, 0x00A0, 0x3000, 0x0085, 0x1D7D8]
# a z A 0 9 _ . # SPACE LF - @ x  ARABIC-INDIC DIGIT THREE  NBSP  IDEOGRAPHIC SPACE  NEL  MATHEMATICAL DOUBLE-STRUCK DIGIT ZERO


# ------------------------------------------------------------------------------------------------------------------
# independent oracle: the grammars, written from the WAMP specification (no `re`), over lists of code points
# ------------------------------------------------------------------------------------------------------------------
# Unicode White_Space (PropList.txt) + the ASCII information separators FS GS RS US
WS = set([9, 10, 11, 12, 13, 0x1C, 0x1D, 0x1E, 0x1F, 0x20, 0x85, 0xA0, 0x1680] + list(range(0x2000, 0x200B))
         + [0x2028, 0x2029, 0x202F, 0x205F, 0x3000])


def o_digit(c): return 48 <= c <= 57
def o_lower(c): return 97 <= c <= 122
def o_upper(c): return 65 <= c <= 90
def o_strict(c): return o_digit(c) or o_lower(c) or c == 95
def o_loose(c): return c not in WS and c != 46 and c != 35
def o_realm(c): return o_upper(c) or o_lower(c) or o_digit(c) or c in (95, 45, 64, 46)
def o_ens(c): return o_lower(c) or o_digit(c) or c in (95, 45, 64, 46)
def o_hex(c): return 65 <= c <= 70 or 97 <= c <= 102 or o_digit(c)


def o_components(s):
    comps, cur = [], []
    for c in s:
        if c == 46:
            comps.append(cur); cur = []
        else:
            cur.append(c)
    comps.append(cur)
    return comps


def o_non_empty(ok, s): return all(len(c) > 0 and all(map(ok, c)) for c in o_components(s))
def o_empty(ok, s): return all(all(map(ok, c)) for c in o_components(s))


def o_last_empty(ok, s):
    cs = o_components(s)
    return all(len(c) > 0 and all(map(ok, c)) for c in cs[:-1]) and all(map(ok, cs[-1]))


def o_realm_name(s): return len(s) >= 1 and (o_upper(s[0]) or o_lower(s[0])) and 2 <= len(s) - 1 <= 254 and all(map(o_realm, s[1:]))
def o_eth(s): return s[:2] == [48, 120] and len(s) == 42 and all(map(o_hex, s[2:]))
def o_ens_name(s): return s[-4:] == [46, 101, 116, 104] and 2 <= len(s) - 4 <= 250 and all(map(o_ens, s[:-4]))
def o_ens_rev(s): return s[:4] == [101, 116, 104, 46] and 2 <= len(s) - 4 <= 250 and all(map(o_ens, s[4:]))


def o_custom(s):
    if s[:2] != [120, 95]:
        return False
    t = s[2:]
    return t == [] or (o_lower(t[0]) and len(t) >= 2 and all(map(o_strict, t[1:])))


O_PATS = [o_realm_name, o_eth, o_ens_name, o_ens_rev,
          lambda s: o_empty(o_strict, s), lambda s: o_empty(o_loose, s),
          lambda s: o_non_empty(o_strict, s), lambda s: o_non_empty(o_loose, s),
          lambda s: o_last_empty(o_strict, s), lambda s: o_last_empty(o_loose, s), o_custom]
STD_ALGOS = ["cryptobox", "mqtt", "xbr"]
STD_SERS = ["json", "msgpack", "cbor", "ubjson", "flatbuffers"]


def oracle(t):
    """expected 35 outcomes for a tagged value; raw pattern positions for non-strings are '3' (TypeError)"""
    k = t["t"]
    if k != "str":
        o = ["3"] * 11
        for st, aec, ale, an in FLAGS:
            o.append("0" if (k == "none" and an) else "1")
        o += ["1", "1", "0"]
        v = int(t["v"]) if k == "int" else None
        o.append("0" if (k == "int" and 0 <= v <= 2 ** 53) else "2")
        dict_ok = k == "dict" and all(x["t"] == "str" for x in t["k"])
        o.append("0" if dict_ok else "2")
        o.append("0" if (dict_ok or k == "none") else "2")
        o += ["0", "0"]
        return "".join(o)
    s = t["v"]
    g = [f(s) for f in O_PATS]
    o = ["1" if x else "0" for x in g]
    for st, aec, ale, an in FLAGS:
        # selection documented at check_or_raise_uri: allow_last_empty takes precedence over allow_empty_components
        ok = o_strict if st else o_loose
        acc = o_last_empty(ok, s) if ale else (o_empty(ok, s) if aec else o_non_empty(ok, s))
        o.append("0" if acc else "1")
    o.append("0" if (g[0] or g[1]) else "1")
    o.append("0" if g[0] else "1")
    o.append(str((3 if g[2] else 4 if g[3] else 1) if g[0] else (2 if g[1] else 0)))
    o += ["2", "2", "2"]
    text = "".join(map(chr, s))
    o.append("1" if (text in STD_ALGOS or g[10]) else "0")
    o.append("1" if (text in STD_SERS or g[10]) else "0")
    return "".join(o)


# ------------------------------------------------------------------------------------------------------------------
# values
# ------------------------------------------------------------------------------------------------------------------
def tstr(s): return {"t": "str", "v": list(s) if not isinstance(s, str) else [ord(c) for c in s]}
def tint(n): return {"t": "int", "v": str(n)}


def coq_val(t):
    k = t["t"]
    if k == "none": return "UNone"
    if k == "bool": return "UBool " + ("true" if t["v"] else "false")
    if k == "int": return f"UInt ({t['v']})%Z"
    if k == "float": return "UFloat"
    if k == "str": return "UStr [" + ";".join(map(str, t["v"])) + "]"
    if k == "bytes": return "UBytes"
    if k == "list": return "UList"
    if k == "dict": return "UDict [" + ";".join(("KStr [" + ";".join(map(str, x["v"])) + "]") if x["t"] == "str" else "KOther"
                                                for x in t["k"]) + "]"
    raise ValueError(k)


def coq_case(t, out):
    return f"({coq_val(t)}, 1{out})"


def scalar_values():
    vs = [{"t": "none"}, {"t": "bool", "v": True}, {"t": "bool", "v": False}, {"t": "float", "v": 1.0},
          {"t": "float", "v": 0.0}, {"t": "float", "v": -1.5}, {"t": "float", "v": 9007199254740992.0},
          {"t": "bytes", "v": list(b"com.foo")}, {"t": "bytes", "v": []}, {"t": "list", "v": []},
          {"t": "list", "v": [tstr("a")]}, {"t": "dict", "k": []}, {"t": "dict", "k": [tstr("a")]},
          {"t": "dict", "k": [tstr("a"), tstr("")]}, {"t": "dict", "k": [tstr("a"), {"t": "bytes", "v": [97]}]},
          {"t": "dict", "k": [tint(1)]}, {"t": "dict", "k": [{"t": "bytes", "v": [120]}, tstr("b")]},
          tstr("1"), tstr("0"), tstr("")]
    for n in [0, 1, 2, 2 ** 53 - 1, 2 ** 53, 2 ** 53 + 1, -1, -2, 2 ** 31, 2 ** 32, 2 ** 52, 2 ** 54, 2 ** 60, 2 ** 63 - 1,
              2 ** 63, 2 ** 63 + 1, 2 ** 64, 2 ** 64 + 1, -2 ** 53, -2 ** 63, 10 ** 30, -10 ** 30, 2 ** 200]:
        vs.append(tint(n))
    return vs


SPECIALS = [ord(c) for c in ".#_-@ \n\tAZaz09x"] + [0x663, 0x966, 0xA0, 0x3000, 0x85, 0x1C, 0x2028, 0xFF10, 0x1D7D8, 0xD800,
                                                    0x10FFFF, 0, 0xB2, 0x2160]
# 0xB2 SUPERSCRIPT TWO (isdigit, not decimal), 0x2160 ROMAN NUMERAL ONE (numeric only): must NOT count as \d


def mutate(rng, s):
    s = list(s)
    k = rng.randrange(4)
    pos = rng.randrange(len(s) + 1)
    c = rng.choice(SPECIALS)
    if k == 0 or not s:
        s.insert(pos, c)
    elif k == 1:
        s[min(pos, len(s) - 1)] = c
    elif k == 2:
        del s[min(pos, len(s) - 1)]
    else:
        s.append(c)
    return s


def generated_strings(ck, n):
    rng = ck.rng("c08uri/strings")
    strict_al = [ord(c) for c in "abcxyz0189_"]
    loose_al = strict_al + [ord(c) for c in "AZ-@!$%/:é"] + [0x4E2D, 0x1F600, 0x663]
    realm_al = [ord(c) for c in "abzABZ019_-@."]
    ens_al = [ord(c) for c in "abz019_-@."]
    hex_al = [ord(c) for c in "0123456789abcdefABCDEF"]
    out = []

    def add(s, fam):
        out.append((list(s), fam))
        out.append((mutate(rng, s), fam + "+mut"))
        out.append((list(s) + [10], fam + "+nl"))

    # long URIs
    for i in range(n):
        al = strict_al if i % 2 == 0 else loose_al
        ncomp = rng.choice([1, 1, 2, 3, 4, 8])
        comps = [[rng.choice(al) for _ in range(rng.choice([1, 1, 2, 3, 7, 20]))] for _ in range(ncomp)]
        shape = rng.randrange(4)
        if shape == 1:
            comps[rng.randrange(ncomp)] = []           # an empty component somewhere
        elif shape == 2:
            comps.append([])                            # trailing dot
        s = []
        for j, c in enumerate(comps):
            s += ([46] if j else []) + c
        add(s, "uri")
    # realm names at the length boundaries
    for total in [1, 2, 3, 4, 5, 60, 253, 254, 255, 256, 257, 300]:
        for rep in range(2 if ck.quick() else 6):
            s = [rng.choice([97, 122, 65, 90])] + [rng.choice(realm_al) for _ in range(total - 1)]
            add(s, "realm")
    # ens / reverse ens
    for inner in [0, 1, 2, 3, 40, 249, 250, 251, 252]:
        for rep in range(2 if ck.quick() else 5):
            t = [rng.choice(ens_al) for _ in range(inner)]
            if t and rep % 2 == 0:
                t[0] = 97                                # also a standalone realm name -> category ens
            add(t + [46, 101, 116, 104], "ens")
            add([101, 116, 104, 46] + t, "ens_reverse")
    # eth addresses
    for nhex in [0, 1, 39, 40, 41, 64]:
        for rep in range(3 if ck.quick() else 10):
            h = [rng.choice(hex_al) for _ in range(nhex)]
            add([48, 120] + h, "eth")
            if rep == 0:
                add([48, 88] + h, "eth")                 # 0X
                add([48, 120] + [0x663] * nhex, "eth")   # arabic-indic digits as hex digits
                add([48, 120] + [103] * nhex, "eth")     # g
    # custom attributes / enc identifiers
    for txt in ["x_", "x_a", "x_ab", "x_a1", "x_1a", "x_aB", "x_a_", "x__a", "x_abc_def0", "X_ab", "x-ab", "xab", "x",
                "cryptobox", "mqtt", "xbr", "json", "msgpack", "cbor", "ubjson", "flatbuffers", "opaque", "null",
                "Cryptobox", "cryptobox ", "x_a٣", "x_٣a"]:
        add([ord(c) for c in txt], "custom")
    # documented examples
    for txt in ["realm1", "com.example.myapp", "eth.example", "0xe59C7418403CF1D973485B36660728a5f4A8fF9c",
                "wamp-proto.eth", "eth.wamp-proto", "com.foo", "com.foo.", "com..foo", ".", "..", "com.foo\n",
                "com.foo\n\n", "\ncom.foo", "com.foo\r\n", "com.foo٣", "com.१x", "com.myapp.topic#1",
                "com.my app", "com.myapp.événement"]:
        add([ord(c) for c in txt], "example")
    return out


# ------------------------------------------------------------------------------------------------------------------
# classification of implementation-vs-grammar differences
# ------------------------------------------------------------------------------------------------------------------
def is_nonascii_decimal(c):
    try:
        return c > 127 and unicodedata.category(chr(c)) == "Nd"
    except ValueError:
        return False


def classify(s, pos, got, meta):
    """why does the implementation's outcome `got` at position pos differ from the grammar on string s?
    'nl'    : explained by `$` (string ends in LF and the grammar's verdict on s minus that LF is what the code returns)
    'digit' : explained by Unicode `\\d` (grammar verdict after replacing non-ASCII decimal digits by '0')
    'nl+digit', or 'other'"""
    dollar = any(p["end"] == "EndDollar" for p in meta["patterns"].values())
    uni_d = any("\\d" in p["pattern"] and not (p["flags"] & 256) for p in meta["patterns"].values())
    s1 = s[:-1] if (s and s[-1] == 10) else s
    def dig(x): return [48 if is_nonascii_decimal(c) else c for c in x]
    if dollar and s1 != s and oracle(tstr(s1))[pos] == got:
        return "nl"
    if uni_d and dig(s) != s and oracle(tstr(dig(s)))[pos] == got:
        return "digit"
    if dollar and uni_d and s1 != s and dig(s1) != s1 and oracle(tstr(dig(s1)))[pos] == got:
        return "nl+digit"
    return "other"


def shrink(ck, s, pos):
    """greedy delta debugging against the real code: a shorter / plainer string on which the implementation's outcome
    at position pos still differs from the grammar oracle (each round = one driver run over <= 1500 candidates)"""
    s = list(s)
    for _ in range(20):
        n = len(s)
        cands = [[c if (i == 0 or c == 97) else 97 for i, c in enumerate(s)]]        # everything but the head -> 'a'
        k = max(1, n // 2)
        while True:                                                                   # drop / blank a block
            cands += [s[:i] + s[i + k:] for i in range(0, n, k)]
            cands += [s[:i] + [97] * len(s[i:i + k]) + s[i + k:] for i in range(0, n, k)]
            if k == 1:
                break
            k //= 2
        cands = cands[:1500]
        cands = [c for c in cands if c != s]
        if not cands:
            break
        r = ck.run_impl("wamp_uri.py", {"values": [tstr(c) for c in cands]})
        hit = next((c for c, o in zip(cands, r["values"]) if oracle(tstr(c))[pos] != o[pos]), None)
        if hit is None:
            break
        s = hit
    return s


KEY_NL = "uri-regex/dollar-accepts-trailing-newline"
KEY_DIGIT = "uri-regex/backslash-d-accepts-unicode-digits"


def show(s):
    return "".join(map(chr, s)).encode("unicode_escape").decode("ascii")


# ------------------------------------------------------------------------------------------------------------------
def regenerate(ck):
    """run the translator against the tree under test; returns its meta dict or None (fail closed)"""
    d = os.path.join(vlib.BUILD, "cases", ck.pid)
    os.makedirs(d, exist_ok=True)
    tmp_v, tmp_j = os.path.join(d, "UriRegex.v.new"), os.path.join(d, "UriRegex.meta.json")
    p = subprocess.run([vlib.VENV_PY, os.path.join(vlib.ROOT, "translators", "regex2coq.py"), tmp_v, tmp_j],
                       env=vlib.impl_env(), stdout=subprocess.PIPE, stderr=subprocess.STDOUT, text=True, timeout=300)
    if p.returncode != 0:
        ck.obligation("translator_regex2coq", False, "regex2coq.py failed closed: " + p.stdout[-1500:])
        return None
    with vlib.BuildLock():
        vlib.write_if_changed(os.path.join(vlib.COQ, "Gen", "UriRegex.v"), open(tmp_v).read())
    ck.obligation("translator_regex2coq", True)
    return json.load(open(tmp_j))


def run_part(ck):
    ck.rule.append(
        "C08/identifiers: corpus/C08/uri_*.json first (the regression inputs of F-C08-1 / F-C08-4), then every string "
        "up to length %d over an 18-symbol alphabet (a z A 0 9 _ . # SP LF - @ x U+0663 "
        "U+00A0 U+3000 U+0085 U+1D7D8), generated URIs / realm / ens / eth names at the length boundaries each also "
        "with one random mutation and with a final LF, boundary ids and every value kind: 35 outcomes per value "
        "(11 patterns, check_or_raise_uri x 16 flag combinations, realm name x 2, category, id, extra, kwargs, "
        "enc_algo, enc_serializer) from the real code, compared with the Gallina model (coqc vm_compute) and with an "
        "independent grammar oracle. non-trivial = a str value (reaches a regex); distinct = distinct values"
        % (3 if ck.quick() else 4))
    ck.extra_tb += [
        "C08/identifiers: translators/regex2coq.py (re._parser parse tree -> Coq regex; categories by asking re about "
        "all 0x110000 code points; id bounds and uses of the patterns read from the AST of message.py, exact shapes)",
        "modelled, not verified: CPython sre backtracking finds a match iff the string is in the language of the "
        "pattern (no possessive/atomic/lookaround constructs: the translator rejects them); `pattern.match` with a "
        "leading ^ and a trailing $ / \\Z as written in Base/Regex.v py_match; type(x) / isinstance / dict.keys",
        "oracle assumptions: whitespace = Unicode White_Space + U+001C..U+001F; allow_last_empty takes precedence "
        "over allow_empty_components; the realm-name grammar is the one documented at the patterns in message.py",
    ]
    meta = regenerate(ck)
    prev_assumptions = dict(ck.assumptions)
    broken = ck.coq_props("Props/C08Uri.v")
    prev_assumptions.update(ck.assumptions)
    ck.assumptions = prev_assumptions
    if broken:
        import re as _re
        m = _re.search(r'File "\./(Proofs/WampUriProofs\.v|Props/C08Uri\.v)", line (\d+)', getattr(ck, "build_log", ""))
        if m:
            src = open(os.path.join(vlib.COQ, m.group(1))).read().splitlines()[:int(m.group(2))]
            names = [_re.match(r"\s*(?:Lemma|Theorem|Example)\s+(\S+)", l) for l in src]
            names = [x.group(1) for x in names if x]
            if names:
                ck.notes.append(f"C08/identifiers: the build stops in {m.group(1)} at `{names[-1]}` (a shape_<k> / "
                                f"all_ends_* lemma there means: pattern k of message.py is no longer the one proved)")
                ck.log(f"build stops at {m.group(1)}:{m.group(2)} in `{names[-1]}`")
    ok, out = vlib.coq_make(["Model/WampUriRun.vo"])
    model_ok = ok
    if not ok:
        ck.obligation("model_WampUriRun_builds", False, out[-1500:])

    # ---------------- the real code ----------------
    maxlen = 3 if ck.quick() else 4
    gen = generated_strings(ck, 150 if ck.quick() else 3000)
    corpus = []
    cdir = os.path.join(vlib.ROOT, "corpus", "C08")
    for fn in sorted(os.listdir(cdir)) if os.path.isdir(cdir) else []:
        if fn.startswith("uri_") and fn.endswith(".json"):
            corpus += json.load(open(os.path.join(cdir, fn))).get("values", [])
    values = corpus + scalar_values() + [tstr(s) for s, _ in gen]
    fam = ["corpus"] * len(corpus) + ["scalar"] * len(scalar_values()) + [f for _, f in gen]
    parse_probes = [["Call", [48, 1, {}, "com.foo"]], ["Call", [48, 1, {}, "com.foo\n"]],
                    ["Call", [48, 1, {}, "com.foo\n\n"]], ["Call", [48, 1, {}, "com.foo٣"]],
                    ["Call", [48, 1, {}, "com.my app"]], ["Subscribe", [32, 1, {}, "com.foo\n"]],
                    ["Publish", [16, 1, {}, "com.foo\n"]], ["Register", [64, 1, {}, "com.foo\n"]],
                    ["Hello", [1, "realm1\n", {"roles": {"caller": {}}}]],
                    ["Error", [8, 48, 1, {}, "com.foo\n"]],
                    ["Event", [36, 1, 2, {"publisher": -5}]], ["Event", [36, 1, 2, {"publisher": 2 ** 60}]],
                    ["Publish", [16, 1, {"exclude": [-1]}, "com.foo"]]]
    r = ck.run_impl("wamp_uri.py", {"alphabet": ALPHABET, "maxlen": maxlen, "values": values, "parse": parse_probes},
                    timeout=1800)
    enum_strings = [list(t) for n in range(maxlen + 1) for t in itertools.product(ALPHABET, repeat=n)]
    assert len(enum_strings) == len(r["enum"])
    cases = [(tstr(s), o, "enum") for s, o in zip(enum_strings, r["enum"])]
    cases += [(t, o, f) for t, o, f in zip(values, r["values"], fam)]
    ck.log(f"implementation: {len(cases)} values x {N_OUT} outcomes from {r['file']}")
    ck.note_cases(len(cases), (json.dumps(t, sort_keys=True) for t, _, _ in cases if t["t"] == "str"))
    for t, o, f in cases[5:8] + cases[-3:]:
        ck.sample({"value": t if t["t"] != "str" else show(t["v"]), "family": f, "outcomes": o})
    for t, o, f in cases:
        ck.bump("family:" + f.split("+")[0])
        if t["t"] == "str":
            ck.bump("str accepted by >=1 pattern" if "1" in o[:11] else "str rejected by all patterns")
    ck.exhaustive = False
    ck.notes.append(f"C08/identifiers: strings over the alphabet enumerated exhaustively up to length {maxlen}: "
                    f"{len(enum_strings)}")

    # ---------------- implementation vs grammar oracle ----------------
    diffs = {}            # (class, position) -> first (= shortest among the enumerated) value
    escaped = {}
    n_diff = 0
    for t, o, f in cases:
        exp = oracle(t)
        for pos in range(POS_URI0, N_OUT):
            if o[pos] in ("9" if pos == POS_CAT else "345"):
                escaped.setdefault((pos, o[pos]), t)
        if exp == o:
            continue
        for pos in range(N_OUT):
            if exp[pos] != o[pos]:
                n_diff += 1
                cl = classify(t["v"], pos, o[pos], meta) if (t["t"] == "str" and meta) else "other"
                old = diffs.get((cl, pos))
                if old is None or (t["t"] == "str" and old[0]["t"] == "str" and len(t["v"]) < len(old[0]["v"])):
                    diffs[(cl, pos)] = (t, exp[pos], o[pos])
                ck.bump("grammar-diff:" + cl)
    ck.log(f"implementation vs grammar oracle: {n_diff} differing outcomes "
           f"({sorted(set(c for c, _ in diffs))})")

    def report(cls, key, title, fix):
        if not any(c == cls for c, _ in diffs):
            return
        hits = {pos: v for (c, pos), v in diffs.items() if c == cls}
        per = {NAMES[pos]: {"input": show(t["v"]), "code_points": t["v"], "grammar": e, "implementation": g}
               for pos, (t, e, g) in sorted(hits.items())}
        first = min(hits.values(), key=lambda x: len(x[0]["v"]))
        parse = {json.dumps(p): o for p, o in zip(parse_probes, r["parse"])}
        ck.violation(key, title + f"; minimal input {show(first[0]['v'])!r}; affected: "
                     + ", ".join(sorted(set(n.split('(')[0] for n in per))),
                     {"function": "autobahn.wamp.message", "minimal_input": show(first[0]["v"]),
                      "minimal_code_points": first[0]["v"], "per_function": per, "through_parse": parse,
                      "outcome_codes": "0 returned/no match, 1 InvalidUriError/match, 2 ProtocolError",
                      "suggested_fix": fix}, found_input=True)

    report("nl", KEY_NL, "a URI / realm name / custom attribute with a trailing line feed is accepted (regex `$` "
           "matches before a final \\n); e.g. Call.parse([48,1,{},'com.foo\\n']) succeeds",
           "end the patterns with \\Z instead of $ (or use fullmatch)")
    report("digit", KEY_DIGIT, "non-ASCII Unicode decimal digits are accepted where the grammar says [0-9] (`\\d` in a "
           "str pattern is Unicode-aware): strict URIs, realm names, eth addresses, custom attributes",
           "write [0-9] instead of \\d (or compile the patterns with re.ASCII)")
    n_shrunk = 0
    for (cl, pos), (t, e, g) in sorted(diffs.items(), key=lambda kv: (kv[0][1], len(kv[1][0].get("v", [])))):
        if cl == "other":
            if t["t"] == "str" and len(t["v"]) > 6 and n_shrunk < 3:
                n_shrunk += 1
                t = tstr(shrink(ck, t["v"], pos))
            what = show(t["v"]) if t["t"] == "str" else json.dumps(t)
            ck.violation(f"{NAMES[pos].split('(')[0]}/differs-from-grammar",
                         f"{NAMES[pos]} on {what!r}: implementation outcome {g}, grammar says {e}",
                         {"function": NAMES[pos], "value": t, "shown": what, "grammar": e, "implementation": g},
                         found_input=True)
    for (pos, code), t in sorted(escaped.items()):
        ck.violation(f"{NAMES[pos].split('(')[0]}/ESCAPED/{ {'3': 'TypeError', '4': 'AttributeError', '5': 'Other', '9': 'Exception'}[code] }",
                     f"{NAMES[pos]} raised an exception that is neither ProtocolError nor InvalidUriError",
                     {"function": NAMES[pos], "value": t}, found_input=True)

    # end-to-end probes: notes for the schema part (F-C08-3 belongs to harness/props/c08.py)
    for p, o in zip(parse_probes, r["parse"]):
        ck.bump(f"parse-probe:{p[0]}:{o}")
    ck.notes.append("C08/identifiers parse probes: " + "; ".join(f"{p[0]}.parse({json.dumps(p[1])}) -> {o}"
                                                               for p, o in zip(parse_probes, r["parse"])))

    # ---------------- implementation vs Gallina model ----------------
    # str values travel in bulk as string literals (CHUNK values per literal, decoded inside Coq); the rest as terms
    IMPORTS = "From AV Require Import Base.Regex Gen.UriRegex Model.WampUri Model.WampUriRun."
    bad = []
    if model_ok:
        try:
            table = sorted(set(o for _, o, _ in cases))
            if len(table) > 250:
                raise RuntimeError(f"{len(table)} distinct outcome vectors: class index does not fit two hex digits")
            cls = {o: "%02x" % k for k, o in enumerate(table)}
            defs = ("Definition cls_table : list N := [" + "; ".join(hex(int("1" + o)) for o in table) + "]%N.\n"
                    "Definition alphabet : list N := [" + "; ".join(map(str, ALPHABET)) + "]%N.")
            n_enum = len(enum_strings)
            oth_idx = [i for i, (t, _, _) in enumerate(cases) if t["t"] != "str"]
            # (a) the enumerated strings: rebuilt inside Coq from (length, index); 1000 values per literal
            chunks, lits, base = [], [], 0
            for ln in range(maxlen + 1):
                cnt = len(ALPHABET) ** ln
                for st in range(0, cnt, 1000):
                    ids = list(range(base + st, base + min(cnt, st + 1000)))
                    chunks.append(ids)
                    lits.append('(%d%%nat, %d%%N, "%s"%%string)' % (ln, st, "".join(cls[cases[i][1]] for i in ids)))
                base += cnt
            assert base == n_enum
            bad_chunks = ck.coq_cases("c08uri_enum", IMPORTS, "enum_chunk_ok cls_table alphabet", lits, ty="enum_case",
                                      defs=defs, shard=(1 if ck.quick() else 3))
            redo = [i for b in bad_chunks[:3] for i in chunks[b]]
            # (b) the generated strings: hex code points + class index, <= ~3000 characters per literal
            str_idx = [i for i in range(n_enum, len(cases)) if cases[i][0]["t"] == "str"]
            enc = {i: "".join("%x," % c for c in cases[i][0]["v"]) + "=" + cls[cases[i][1]] + ";" for i in str_idx}
            chunks2, cur, n = [], [], 0
            for i in str_idx:
                if cur and (n + len(enc[i]) > 3000 or len(cur) >= 100):
                    chunks2.append(cur); cur, n = [], 0
                cur.append(i); n += len(enc[i])
            if cur:
                chunks2.append(cur)
            lits2 = ['"' + "".join(enc[i] for i in ch) + '"%string' for ch in chunks2]
            bad_chunks2 = ck.coq_cases("c08uri_str", IMPORTS, "uri_chunk_ok cls_table", lits2, ty="string", defs=defs,
                                       shard=4)
            redo += [i for b in bad_chunks2[:3] for i in chunks2[b]] + oth_idx
            bad_chunks = bad_chunks + [len(chunks) + b for b in bad_chunks2]
            chunks = chunks + chunks2
            bad_redo = ck.coq_cases("c08uri_val", IMPORTS, "uri_case_ok", [coq_case(cases[i][0], cases[i][1]) for i in redo],
                                    ty="uri_case", shard=400)
            bad = [redo[k] for k in bad_redo]
            if bad_chunks and not bad:
                ck.obligation("model_chunk_decoding", False, f"chunks {bad_chunks[:5]} fail but no single value does")
            ck.bump("model_compared", len(cases))
            ck.log(f"model comparison: {len(cases)} cases ({len(chunks)} string chunks, {len(bad_chunks)} failing), "
                   f"{len(bad)} disagreements located")
        except RuntimeError as e:
            ck.obligation("model_cases_evaluate", False, str(e)[-1500:])
    for i in bad[:5]:
        t, o, f = cases[i]
        exp = oracle(t)
        what = show(t["v"]) if t["t"] == "str" else json.dumps(t)
        ck.violation("c08uri/model-disagrees", f"implementation and Gallina model disagree on {what!r} (family {f}); "
                     f"implementation {'agrees with' if exp == o else 'also differs from'} the grammar oracle",
                     {"value": t, "implementation": o, "oracle": exp}, found_input=(exp != o))
    if broken:
        ck.log(f"broken obligations: {broken}; grammar differences found by the sweep: {sorted(diffs)[:6]}")
    return broken


def run(ck):
    return run_part(ck)


def replay(path):
    rp = json.load(open(path))["replay"]
    ck = vlib.Check("C08URI", "quick", 1)
    cps = rp.get("minimal_code_points") or (rp.get("value") or {}).get("v")
    t = tstr(cps) if isinstance(cps, list) else rp["value"]
    r = ck.run_impl("wamp_uri.py", {"values": [t]})
    o, e = r["values"][0], oracle(t)
    print("value:", show(t["v"]) if t["t"] == "str" else t)
    for i, n in enumerate(NAMES):
        if o[i] != e[i]:
            print(f"  {n}: implementation {o[i]}  grammar {e[i]}")
    vals = ck.coq_eval("From AV Require Import Base.Regex Gen.UriRegex Model.WampUri Model.WampUriRun.",
                       [f"uri_case_ok {coq_case(t, o)}"])
    print("Gallina model agrees with implementation:", vals)
    return 0 if o == e else 1
