"""C18 — remote exceptions arrive with their URI, arguments and class."""
import concurrent.futures
import copy
import glob
import json
import os
import re

import vlib

IMPORTS = "From AV Require Import Model.SessionErr Model.SessionErrRun.\nOpen Scope string_scope."
SCOPES = "Open Scope N_scope. Open Scope string_scope."
TB = 999999
UNKNOWN = 888888
RESERVED = ["enc_algo", "callee", "callee_authid", "callee_authrole", "forward_for"]
RUNTIME_ERROR = "wamp.error.runtime_error"

VALUES = [None, True, False, 0, 1, -1, 2 ** 53, 2 ** 63 - 1, "", "a", "some text with \"quotes\" and \\ backslash",
          "ünï€\U0001f600", [], [1, [2, [3, None]]], {}, {"k": {"n": [1, "x"]}, "": 0}, 1.5, -0.25,
          {"$b": "00ff10"}, ["traceback", "error"], "...", "0042", "1E5", "+4915112345", "0", "-0", "1e3", "Infinity", "NaN",
          " 1", "1_0", "1.0", 1.0, ["0042", {"n": "1e3"}], {"1": "0", "0042": 1}, 2 ** 63, -(2 ** 63), 1e300]
GOOD_URIS = ["com.myapp.error1", "com.myapp.error2", "com.myapp.sub.error3", "com.myapp.error_4"]
BUILTIN_URIS = ["wamp.error.invalid_payload", "wamp.error.payload_size_exceeded", RUNTIME_ERROR]
BAD_PATTERN = "com.myapp.BadPattern"                       # uri.Pattern rejects upper case components
PLAIN_KEYS = ["a", "b", "msg", "x_y", "detail", "args", "kwargs", "message", "k9", "1", "0042", "1e3"]
SPECIAL_KEYS = ["traceback", "error", "self"] + RESERVED
CTORS = ["plain", "kw", "noarg", "kwonly", "raiseT", "raiseV", "raiseK", "falsy", "withcallee", "readonly"]
CKIND = {"plain": "CPlain", None: "CPlain", "kw": "CKw", "noarg": "CNoArg", "kwonly": "CKwOnly", "raiseT": "CRaise",
         "raiseV": "CRaise", "raiseK": "CRaise", "falsy": "CFalsy", "withcallee": "CWithCallee", "readonly": "CReadOnly",
         "appsub": "CAppSub"}
PATTERN_OK = re.compile(r"^[a-z0-9][a-z0-9_\-]*(\.[a-z0-9][a-z0-9_\-]*)*\Z")   # the documented exact-URI component grammar


# ------------------------------------------------------------------ generator
def gen_spec(rng, i):
    sp = gen_spec0(rng, i)
    r = rng.random()                     # the call-cancelling path: INTERRUPT while / after the endpoint fails
    if r < 0.25:
        sp.update(endpoint="async_cleanup", interrupt="during")
    elif r < 0.33:
        sp.update(endpoint="async_cleanup", interrupt=rng.choice(["none", "after"]))
    elif r < 0.40:
        sp.update(interrupt="after")
    return sp


def gen_spec0(rng, i):
    classes = {}
    for cid in range(10, 18):
        n_uris = rng.choice([0, 0, 1, 1, 1, 2])
        uris = rng.sample(GOOD_URIS, n_uris) if n_uris else None
        classes[str(cid)] = {"uris": uris, "ctor": rng.choice(CTORS)}
        if cid >= 16:                       # classes 16, 17: subclasses of ApplicationError
            classes[str(cid)].update(base="app", ctor="appsub")

    def ops():
        out = []
        for _ in range(rng.choice([0, 1, 1, 2, 2, 3, 4])):
            cid = rng.randrange(10, 18)
            if rng.random() < 0.5:
                out.append([cid])
            else:
                out.append([cid, rng.choice(GOOD_URIS + GOOD_URIS + BUILTIN_URIS + [BAD_PATTERN])])
        return out

    def payload_kwargs(allow_none):
        if allow_none and rng.random() < 0.35:
            return None
        n = rng.choice([0, 1, 1, 2, 3, 4])
        special = rng.random() < 0.3
        keys = []
        for _ in range(n):
            k = rng.choice(SPECIAL_KEYS if (special and rng.random() < 0.5) else PLAIN_KEYS)
            if k not in keys:
                keys.append(k)
        return [[k, rng.randrange(len(VALUES))] for k in keys]

    callee_ops, caller_ops = ops(), ops()
    if rng.random() < 0.35 and callee_ops:
        caller_ops = caller_ops + [rng.choice(callee_ops)]            # the usual case: same class known to both sides
    kind = rng.random()
    if kind < 0.3:
        exc = {"cls": "app", "error": rng.choice(GOOD_URIS + BUILTIN_URIS + [BAD_PATTERN]),
               "kwargs": payload_kwargs(False)}
    else:
        defined = [op[0] for op in callee_ops]
        cid = rng.choice(defined) if defined and rng.random() < 0.7 else rng.randrange(10, 18)
        if rng.random() < 0.3:
            cid = rng.choice([16, 17] + [c for c in defined if c >= 16] * 3)      # ApplicationError subclass, often define()d
        exc = {"cls": cid, "error": "", "kwargs": payload_kwargs(True)}
        if cid >= 16:
            # the instance carries its own URI: the registered one, or (mostly) another one
            exc["error"] = rng.choice(GOOD_URIS + [BAD_PATTERN] + (classes[str(cid)]["uris"] or []))
            exc["kwargs"] = exc["kwargs"] or []
    exc["args"] = [rng.randrange(len(VALUES)) for _ in range(rng.choice([0, 0, 1, 1, 2, 3, 5]))]
    return {"ser": ["json", "msgpack", "cbor"][i % 3], "classes": classes, "callee_ops": callee_ops,
            "caller_ops": caller_ops, "exc": exc, "tb": rng.random() < 0.35,
            "router_callee": 77 if rng.random() < 0.25 else None,
            "endpoint": "sync", "interrupt": "none",
            "callee_hook": rng.choice(["returns", "returns", "raises", "raises_key"]),
            "caller_hook": rng.choice(["returns", "returns", "raises", "raises_key"])}


# ------------------------------------------------------------------ Coq terms
_STRS = {}


def cstr(s):
    """strings are interned as Coq constants (sK) defined once per case file: parsing literals is slow"""
    assert all(32 <= ord(c) < 127 for c in s), s
    if s not in _STRS:
        _STRS[s] = "s%d" % len(_STRS)
    return _STRS[s]


def str_defs():
    return "\n".join("Definition n%d : N := %d." % (n, n) for n in sorted(_NUMS)) + "\n" + "\n".join('Definition %s : string := "%s".' % (n, s.replace('"', '""')) for s, n in _STRS.items())


_NUMS = set()


def cN(n):
    """numbers are interned too (nK): number notations are slow to elaborate"""
    n = UNKNOWN if n is None or n < 0 else int(n)
    _NUMS.add(n)
    return "n%d" % n


def clist(xs):
    return "[" + "; ".join(xs) + "]"


def copt(x, f):
    return "None" if x is None else "(Some %s)" % f(x)


def ckw(kw):
    return clist("(%s, %s)" % (cstr(k), cN(v)) for k, v in kw)


def cdefop(classes, op):
    d = classes[str(op[0])]
    dec = bool(d.get("uris"))
    if len(op) == 1:
        return ("(DefDecorated %s %s %s)" % (cN(op[0]), cstr(d["uris"][0]), clist(cstr(u) for u in d["uris"][1:]))) if dec \
            else "(DefUndecorated %s)" % cN(op[0])
    return ("(DefExplicitDecorated %s %s)" if dec else "(DefExplicit %s %s)") % (cN(op[0]), cstr(op[1]))


def cexc(name):
    return {None: "None", "RuntimeError": "(Some RuntimeError)", "TypeError": "(Some TypeError)"}.get(name, "(Some KeyError)")


def coq_case(spec, obs):
    """the model is run on the spec and compared with what the implementation did (obs)"""
    cl = spec["classes"]
    uris = set(op[1] for op in spec["callee_ops"] + spec["caller_ops"] if len(op) == 2)
    bad = sorted(u for u in uris if not PATTERN_OK.match(u))
    x = spec["exc"]
    is_app = x["cls"] == "app" or cl.get(str(x["cls"]), {}).get("base") == "app"
    exn = "(mkExn %s %s %s %s %s)" % (
        cN(0) if x["cls"] == "app" else cN(x["cls"]), "true" if is_app else "false", cstr(x["error"]),
        clist(cN(a) for a in x["args"]), copt(x["kwargs"], ckw))
    used = {str(o[0]) for o in spec["caller_ops"]}
    kinds = clist(["(%s, CPlain)" % cN(1), "(%s, CPlain)" % cN(2)] +
                  ["(%s, %s)" % (cN(int(c)), CKIND[d.get("ctor")]) for c, d in sorted(cl.items()) if c in used])
    w = obs.get("wire")
    if not w:
        return None
    if w["len"] == 5:
        tail = "W5"
    else:
        a = "None" if w["args"] is None else "(Some %s)" % clist(cN(v) for v in w["args"])
        tail = "(W6 %s)" % a if w["len"] == 6 else "(W7 %s %s)" % (a, ckw(w["kwargs"]))
    d = obs.get("delivered")
    if d and "cls" in d and isinstance(d["cls"], int):
        xd = "(XRejected %s %s %s %s %s)" % (
            cN(d["cls"]), copt(d["error"], cstr), clist(cN(a) for a in d["args"]), copt(d["kwargs"], ckw),
            clist("(%s, %s)" % (cstr(n), copt(v, cN)) for n, v in d["meta"]))
    elif obs.get("caller_raised") in ([["onMessage", "TypeError"]], [["onMessage", "AttributeError"]]):
        xd = "(XEscaped %s)" % obs["caller_raised"][0][1]
    else:
        xd = "XOther"
    return ("(mkCase %s %s %s %s %s %s %s %s %s %s %s %s %s %s %s %s %s %s)" % (
        clist(cstr(u) for u in bad), clist(cdefop(cl, o) for o in spec["callee_ops"]),
        clist(cdefop(cl, o) for o in spec["caller_ops"]), kinds, exn, "true" if spec["tb"] else "false",
        "(Some %s)" % cN(TB), copt(spec.get("router_callee"), cN), cN(1 if spec.get("interrupt") == "during" else 0),
        "HookRaises" if str(spec.get("callee_hook", "")).startswith("raises") else "HookReturns",
        "HookRaises" if str(spec.get("caller_hook", "")).startswith("raises") else "HookReturns",
        clist(cexc(r) for r in obs["callee_define"]), clist(cexc(r) for r in obs["caller_define"]),
        cstr(w["uri"]), tail, "true" if obs.get("reported") else "false",
        clist(cN(r) for r in obs.get("pending_after", [])), xd))


# ------------------------------------------------------------------ property oracle (from the property text only)
def registered_uri(spec, side_ops, cid):
    """the URI registered for class cid after the side's define() calls (latest successful registration)"""
    reg = None
    for op in side_ops:
        if op[0] != cid:
            continue
        dec = spec["classes"][str(cid)].get("uris")
        if len(op) == 1 and dec:
            reg = dec[0]
        elif len(op) == 2 and not dec and PATTERN_OK.match(op[1]):
            reg = op[1]
    return reg


def judge(spec, obs):
    """-> list of (key, what).  Nothing here looks at the model."""
    v = []
    if "driver_error" in obs:
        return [("driver/" + obs["driver_error"].split(":")[0], obs["driver_error"])]
    x = spec["exc"]
    w = obs.get("wire")
    if not w:
        key = "callee/no-ERROR-sent"
        if spec.get("interrupt") == "during" and obs.get("n_errors_sent") == 0:
            key += "/endpoint-failed-after-INTERRUPT"
        elif str(spec.get("callee_hook", "")).startswith("raises") and obs.get("n_errors_sent") == 0:
            key += "/onUserError-override-raised"
        return [(key, "the callee sent %s ERROR messages for one failed invocation (callee onUserError hook: %s; %s): the "
                 "caller's call never completes, the remote exception is lost" % (
            obs.get("n_errors_sent"), spec.get("callee_hook"), obs.get("callee_raised")))]
    # 1. URI
    is_app = x["cls"] == "app" or spec["classes"].get(str(x["cls"]), {}).get("base") == "app"
    if is_app:
        want_uri = x["error"]            # "the carried URI for application errors" — also for define()d subclasses
    else:
        want_uri = registered_uri(spec, spec["callee_ops"], x["cls"]) or RUNTIME_ERROR
    if w["uri"] != want_uri:
        sub = is_app and x["cls"] != "app"
        v.append(("callee/error-uri" + ("/defined-ApplicationError-subclass" if sub else ""),
                  "ERROR carries URI %r, expected %r%s" % (w["uri"], want_uri,
                  " (instance of an ApplicationError subclass carrying its own URI)" if sub else "")))
    if obs.get("invocations_left"):
        v.append(("callee/invocation-record-left-behind", "self._invocations still holds %s after the ERROR" % obs["invocations_left"]))
    if obs.get("callee_raised"):
        v.append(("callee/onMessage/ESCAPED/%s" % obs["callee_raised"][0][2], "exception out of the callee's onMessage: %s" % obs["callee_raised"][0][2:4]))
    if w["rtype"] != 68 or w["request"] != 7001:
        v.append(("callee/error-request", "ERROR answers (%s,%s) instead of INVOCATION 7001" % (w["rtype"], w["request"])))
    # 2. payload on the wire
    if (w["args"] or []) != x["args"]:
        v.append(("callee/args", "args on the wire %s differ from the exception's %s" % (w["args"], x["args"])))
    have = dict(map(tuple, w["kwargs"] or []))
    want = dict(map(tuple, x["kwargs"] or []))
    if spec["tb"]:
        if have.get("traceback") != TB:
            v.append(("callee/traceback-missing", "traceback forwarding on, but no traceback text in kwargs"))
        if "traceback" in want:
            v.append(("callee/_message_from_exception/traceback-overwrites-kwarg",
                      "the exception's own keyword argument 'traceback' is replaced by the forwarded traceback"))
        have.pop("traceback", None); want.pop("traceback", None)
    if have != want and x["cls"] == "app" and "traceback" in want and \
            {k: y for k, y in have.items() if k != "traceback"} == {k: y for k, y in want.items() if k != "traceback"}:
        v.append(("callee/ApplicationError.__str__/alters-kwarg-traceback",
                  "the application error's keyword argument 'traceback' (value #%s) reaches the wire as %s: "
                  "ApplicationError.__str__ (called via txaio.failure_message) pops/overwrites it" % (
                      want["traceback"], "value #%s" % have["traceback"] if "traceback" in have else "nothing")))
    elif have != want:
        v.append(("callee/kwargs", "kwargs on the wire %s differ from the exception's %s" % (sorted(have.items()), sorted(want.items()))))
    if obs.get("serialize_failed"):
        return v + [("serializer/" + obs["serialize_failed"], "the ERROR could not be serialized")]
    # 3. caller side
    d = obs.get("delivered")
    if obs.get("caller_raised") or not d:
        exc = obs["caller_raised"][0][1] if obs.get("caller_raised") else "nothing"
        collide = sorted(set(k for k, _ in (w["kwargs"] or [])) & {"error", "self"})
        what = ("the ERROR for the pending call is lost: %s leaves onMessage, the call is removed from the pending "
                "table and never completes" % exc)
        key = "caller/onMessage(ERROR)/ESCAPED/%s" % exc
        if exc == "AttributeError" and (obs.get("ref_ctor") or {}).get("readonly_meta"):
            key += "/read-only-detail-attribute"
            what += " (the registered class exposes %s as a property without setter; _exception_from_message assigns it unguarded)" % obs["ref_ctor"]["readonly_meta"]
        elif collide:
            key += "/kwarg-named-like-ApplicationError.__init__-parameter"
            what += " (keyword %s collides with a positional parameter of ApplicationError.__init__)" % collide
        v.append((key, what))
        return v
    if "cls" not in d:
        return v + [("caller/call-not-failed", "the call ended with %s" % d)]
    if obs.get("pending_after") != [2] or obs.get("c2_done"):
        v.append(("caller/pending-table", "pending calls afterwards: %s" % obs.get("pending_after")))
    wire_kw = dict(map(tuple, w["kwargs"] or []))
    ref = obs.get("ref_ctor")
    dk = None if d["kwargs"] is None else dict(map(tuple, d["kwargs"]))
    if ref and "raises" not in ref and d["cls"] == ref["cls"]:
        # the class registered for the URI, constructed from those arguments
        rk = None if ref["kwargs"] is None else dict(map(tuple, ref["kwargs"]))
        if d["args"] != ref["args"] or dk != rk:
            v.append(("caller/registered-class-payload", "instance of the registered class differs from cls(*args, **kwargs)"))
        if spec["classes"].get(str(d["cls"]), {}).get("base") == "app" and d["args"] != (w["args"] or []):
            v.append(("caller/registered-ApplicationError-subclass/first-argument-consumed-as-error-URI",
                      "the class registered for %s is a subclass of ApplicationError: cls(*args) takes the first positional "
                      "argument as .error, the caller sees args %s instead of %s" % (w["uri"], d["args"], w["args"])))
        return v
    if ref and "raises" not in ref and ref["truthy"]:
        v.append(("caller/registered-class-not-used", "class C%s is registered for %s and accepts the payload, "
                  "but the caller got class %s" % (ref["cls"], w["uri"], d["cls"])))
    # otherwise: generic application error carrying URI, args, kwargs
    if d["cls"] != 0:
        v.append(("caller/fallback-class", "fallback is class %s, not ApplicationError" % d["cls"]))
    if d["error"] != w["uri"]:
        v.append(("caller/fallback-uri", "generic error carries URI %r, the ERROR had %r" % (d["error"], w["uri"])))
    if d["args"] != (w["args"] or []):
        v.append(("caller/fallback-args", "generic error args %s, the ERROR had %s" % (d["args"], w["args"])))
    if (dk or {}) != wire_kw:
        missing = sorted(set(wire_kw) - set(dk or {}))
        if missing and set(missing) <= set(RESERVED) and all((dk or {}).get(k) == x for k, x in wire_kw.items() if k not in missing) \
                and set(dk or {}) <= set(wire_kw):
            v.append(("caller/ApplicationError/reserved-kwarg-dropped",
                      "keyword argument(s) %s of the remote error are dropped by ApplicationError.__init__" % missing))
        else:
            v.append(("caller/fallback-kwargs", "generic error kwargs %s, the ERROR had %s" % (sorted((dk or {}).items()), sorted(wire_kw.items()))))
    return v


# ------------------------------------------------------------------ running
def run_fw(ck, fw, specs, timeout=3000):
    r = ck.run_impl("wamp_errors.py", {"fw": fw, "values": VALUES, "trials": specs}, timeout=timeout)
    return r["results"]


def shrink(ck, fw, spec, key):
    """greedy reduction keeping the violation key; each round tries every single change and every cumulative
    prefix of changes in one driver run and keeps the smallest survivor"""
    cur = spec
    for _ in range(8):
        muts = []
        for i in reversed(range(len(cur["exc"]["kwargs"] or []))):
            muts.append(lambda c, i=i: c["exc"]["kwargs"].pop(i) if i < len(c["exc"]["kwargs"]) else None)
        for side in ("callee_ops", "caller_ops"):
            for i in reversed(range(len(cur[side]))):
                muts.append(lambda c, side=side, i=i: c[side].pop(i) if i < len(c[side]) else None)
        muts.append(lambda c: c["exc"].update(args=[]))
        for i in range(len(cur["exc"]["kwargs"] or [])):
            muts.append(lambda c, i=i: c["exc"]["kwargs"][i].__setitem__(1, 4) if i < len(c["exc"]["kwargs"]) else None)
        muts += [lambda c: c.update(ser="json"), lambda c: c.update(router_callee=None), lambda c: c.update(tb=False),
                 lambda c: c.update(interrupt="none"), lambda c: c.update(endpoint="sync", interrupt="none"),
                 lambda c: c.update(caller_hook="returns"), lambda c: c.update(callee_hook="returns")]

        def prune(c):
            used = {str(o[0]) for o in c["callee_ops"] + c["caller_ops"]} | ({str(c["exc"]["cls"])} - {"app"})
            c["classes"] = {k: d for k, d in c["classes"].items() if k in used}
        cands = []
        acc = copy.deepcopy(cur)
        for m in muts:
            one = copy.deepcopy(cur); m(one); prune(one)
            m(acc); prune(acc)
            for c in (one, copy.deepcopy(acc)):
                if c != cur and c not in cands:
                    cands.append(c)
        if not cands:
            break
        res = run_fw(ck, fw, cands)
        alive = [c for c, o in zip(cands, res) if any(k == key for k, _ in judge(c, o))]
        if not alive:
            break
        cur = min(alive, key=lambda c: len(json.dumps(c)))
    return cur


def canonical(spec):
    used = {str(o[0]) for o in spec["callee_ops"] + spec["caller_ops"]} | {str(spec["exc"]["cls"])}
    return json.dumps({**spec, "classes": {k: d for k, d in spec["classes"].items() if k in used}}, sort_keys=True)


def run(ck):
    ck.rule.append(
        "random end-to-end trials between two real ApplicationSessions (callee, caller; Twisted and asyncio in separate "
        "processes) with this harness as dealer and every hop through a real serializer (json/msgpack/cbor round robin): "
        "8 exception classes per trial (0-2 @wamp.error URIs each, 10 constructor kinds) x 0-4 define() calls per side "
        "(incl. invalid ones) x exception (ApplicationError with carried URI | registered | unregistered class) x 0-5 args "
        "x kwargs (absent/empty/1-4 keys, 30% of trials drawing from traceback/error/self/enc_algo/callee/...) x "
        "onUserError override on callee and on caller (returns | raises RuntimeError | raises KeyError) x "
        "2 of the 8 classes are ApplicationError subclasses (define()d or not, raised carrying the registered or another URI) x "
        "endpoint (raises synchronously | inlineCallbacks/coroutine that survives the cancellation, cleans up asynchronously, "
        "then raises) x INTERRUPT (none | while running | after the failure) x "
        "traceback forwarding x router-added callee detail. non-trivial = an ERROR was produced; distinct = distinct "
        "canonical trial (classes pruned to those used)")
    ck.extra_tb += [
        "modelled, not verified: application values are opaque to the model (V abstract; the correspondence numbers "
        "them) — that json/msgpack/cbor return the same value is the serializers' property (C03), exercised here only",
        "modelled, not verified: Python call semantics of ApplicationError.__init__(self, error, *args, **kwargs) "
        "(keyword named error/self -> TypeError), dict insertion order, truthiness of [] / {} / None",
        "user exception constructors are a Section variable (arbitrary function returning an instance or raising an "
        "Exception subclass); constructors raising BaseException outside Exception (SystemExit, KeyboardInterrupt) "
        "are not modelled (they propagate, by design of `except Exception`)",
        "uri.Pattern acceptance is a predicate parameter of define(); a class whose _wampuris was set by hand to [] "
        "is not modelled; kwargs keys are strings (msgpack/cbor maps with non-string keys are C08's domain)",
        "the traceback text itself (txaio.failure_format_traceback) is opaque; only its presence under 'traceback' is compared",
        "correspondence instantiates the constructor oracle with 8 constructor kinds (SessionErrRun.run_construct)",
    ]
    broken = ck.coq_props()
    ok, out = vlib.coq_make(["Model/SessionErrRun.vo"])
    if not ok:
        raise RuntimeError("SessionErrRun build failed: " + out[-1500:])

    n = 800 if ck.quick() else 6000
    corpus = []
    for p in sorted(glob.glob(os.path.join(vlib.ROOT, "corpus", "C18", "*.json"))):
        corpus.append(json.load(open(p))["spec"])
    per_fw = {}
    for fw in ("tx", "aio"):
        rng = ck.rng("gen/" + fw)
        per_fw[fw] = corpus + [gen_spec(rng, i) for i in range(n)]
    with concurrent.futures.ThreadPoolExecutor(4) as ex:
        chunks = []
        for fw in ("tx", "aio"):
            specs = per_fw[fw]
            step = max(1, (len(specs) + 3) // 4) if not ck.quick() else len(specs)
            for i in range(0, len(specs), step):
                chunks.append((fw, i, ex.submit(run_fw, ck, fw, specs[i:i + step])))
        results = {"tx": {}, "aio": {}}
        for fw, i, fut in chunks:
            for j, o in enumerate(fut.result()):
                results[fw][i + j] = o

    ck.log("implementation runs done")
    cases, terms, seen_viol = [], [], {}
    for fw in ("tx", "aio"):
        for i, spec in enumerate(per_fw[fw]):
            obs = results[fw][i]
            ck.evaluations += 1
            x = spec["exc"]
            ck.bump("fw:" + fw); ck.bump("ser:" + spec["ser"])
            ck.bump("exc:" + ("app" if x["cls"] == "app" else "class"))
            ck.bump("tb:" + str(spec["tb"]).lower())
            d = obs.get("delivered") or {}
            ck.bump("outcome:" + ("escaped" if obs.get("caller_raised") else
                                  "registered-class" if d.get("cls", 0) not in (0, None) else "generic" if d else "none"))
            if obs.get("reported"): ck.bump("ctor-raised->fallback")
            for key, what in judge(spec, obs):
                ck.bump("oracle:" + key)
                seen_viol.setdefault(key, (fw, spec, what))
            t = coq_case(spec, obs)
            if t is not None:
                cases.append((fw, spec, obs)); terms.append(t)
    ck.note_cases(0, (canonical(s) for _, s, o in cases))
    for fw, s, o in cases[:3]:
        ck.sample({"fw": fw, "spec": {**s, "classes": "(pruned)"}, "wire": o.get("wire"), "delivered": o.get("delivered")})
    bad = ck.coq_cases("err", IMPORTS, "err_case_ok", terms, ty="err_case", shard=400, defs=SCOPES + "\n" + str_defs())
    ck.bump("model_compared", len(terms))
    ck.log(f"{ck.evaluations} trials, {len(terms)} compared with the model, {len(bad)} disagreements; "
           f"oracle violation keys: {sorted(seen_viol)}")

    with concurrent.futures.ThreadPoolExecutor(8) as ex:
        known = {k.get("key") for k in ck.known if k.get("property") == ck.pid and k.get("status") == "known"}
        futs = {key: ex.submit(shrink, ck, fw, spec, key) for key, (fw, spec, what) in sorted(seen_viol.items()) if key not in known}
        for key, (fw, spec, what) in sorted(seen_viol.items()):
            small = futs[key].result() if key in futs else spec      # known findings have their minimal case in corpus/
            ck.violation(key, what, {"fw": fw, "values": VALUES, "spec": small}, found_input=True)
    ck.log("shrinking done")
    for i in bad[:3]:
        fw, spec, obs = cases[i]
        if not judge(spec, obs):
            ck.violation("model-disagrees/" + ("app" if spec["exc"]["cls"] == "app" else "class"),
                         "implementation and Gallina model (SessionErr) disagree on a trial the property oracle accepts "
                         "(correspondence err_case_ok broken)", {"fw": fw, "values": VALUES, "spec": spec, "observed": obs},
                         found_input=False)
    bad_unexplained = [i for i in bad if judge(cases[i][1], cases[i][2])]
    if bad_unexplained:
        # a disagreement on a trial that also violates the property: the concrete input is already reported above
        ck.log(f"{len(bad_unexplained)} model disagreements coincide with oracle violations")
        i = bad_unexplained[0]
        fw, spec, obs = cases[i]
        ck.violation("model-disagrees-on-violating-trial", "implementation and model disagree on a trial that the oracle "
                     "also rejects: " + "; ".join(k for k, _ in judge(spec, obs)),
                     {"fw": fw, "values": VALUES, "spec": spec, "observed": obs}, found_input=True)
    if broken and not seen_viol:
        ck.log("proof obligations broken; the oracle found no failing input in this run")


def replay(path):
    r = json.load(open(path))
    r = r.get("replay", r)
    if "spec" not in r:
        print(json.dumps(r, indent=1)); return 1
    ck = vlib.Check("C18", "quick", 1)
    rc = 0
    for fw in ([r["fw"]] if r.get("fw") else ["tx", "aio"]):
        obs = run_fw(ck, fw, [r["spec"]])[0]
        print(f"--- {fw}: spec {json.dumps(r['spec'])}")
        print("wire      :", json.dumps(obs.get("wire")))
        print("caller    :", json.dumps({k: obs.get(k) for k in ("caller_raised", "reported", "pending_after", "delivered")}))
        vs = judge(r["spec"], obs)
        for k, w in vs:
            print("ORACLE    :", k, "::", w)
        t = coq_case(r["spec"], obs)
        if t:
            vlib.coq_make(["Model/SessionErrRun.vo"])
            print("model agrees with implementation:", ck.coq_eval(IMPORTS + "\nFrom Coq Require Import List NArith String.\nImport ListNotations.\n" + SCOPES + "\n" + str_defs(), ["err_case_ok " + t]))
        rc = rc or (1 if vs else 0)
    return rc
