"""C07 - the opening handshake admits exactly the valid peers and never crashes."""
import base64, hashlib, json, os, threading, time
import vlib

IMPORTS = "From AV Require Import Gen.Latin1Tables Gen.HandshakeConsts Model.Handshake Model.HandshakeRun."
GUID = b"258EAFA5-E914-47DA-95CA-C5AB0DC85B11"
KNOWN_EXN = {"ValueError", "UnicodeDecodeError", "IndexError", "URLParseError", "IDNAError", "InvalidCodepoint"}


# ================================================================ Coq term rendering
def cl(xs):
    return "[" + ";".join(str(int(x)) for x in xs) + "]"


def chex(h):
    return cl(bytes.fromhex(h))


def cstr(s):
    return cl(ord(c) for c in s)


def cz(z):
    return "(%d)%%Z" % int(z)


def copt(x, f):
    return "None" if x is None else "(Some %s)" % f(x)


def clist(xs, f):
    return "[" + ";".join(f(x) for x in xs) + "]"


def cbool(b):
    return "true" if b else "false"


def cexn(name):
    return name if name in KNOWN_EXN else "(OtherExn %s)" % cstr(name)


def cparams(ps):
    return clist(ps, lambda kv: "(%s,%s)" % (cl(kv[0]), clist(kv[1], lambda v: copt(v, cl))))


def ckvl(kvs):      # list (str * list str)
    return clist(kvs, lambda kv: "(%s,%s)" % (cl(kv[0]), clist(kv[1], cl)))


def ctables(t):
    def uri(r):
        return "UriRaises" if "raises" in r else "(UriOk %s %s %s)" % tuple(cl(x) for x in r["ok"])
    def qs(r):
        return "None" if "raises" in r else "(Some %s)" % ckvl(r["ok"])
    def split(r):
        if "raises" in r: return "UsRaises"
        sc, h, p = r["ok"]
        ps = "PortNone" if "none" in p else ("PortRaises" if "raises" in p else "(PortSome %s)" % cz(p["some"]))
        return "(UsOk %s %s %s)" % (cl(sc), copt(h, cl), ps)
    def hl(r):
        return "(HlRaises %s)" % cexn(r["raises"]) if "raises" in r else "(HlOk %s)" % cl(r["ok"])
    verdict = {"parse_error": "ExtParseError", "denied": "ExtDenied", "accepted": "ExtAccepted"}
    return ("{| t_uri := %s; t_qs := %s; t_split := %s; t_hl := %s; t_offer := %s; t_accept := %s; t_response := %s |}" % (
        clist(t.get("uri", []), lambda kv: "(%s,%s)" % (cl(kv[0]), uri(kv[1]))),
        clist(t.get("qs", []), lambda kv: "(%s,%s)" % (cl(kv[0]), qs(kv[1]))),
        clist(t.get("split", []), lambda kv: "(%s,%s)" % (cl(kv[0]), split(kv[1]))),
        clist(t.get("hl", []), lambda kv: "(%s,%s)" % (cl(kv[0]), hl(kv[1]))),
        clist(t.get("offer", []), lambda e: "(%s,%s,%s)" % (cl(e[0]), cparams(e[1]), cbool(e[2]))),
        copt(t.get("accept"), cl),
        clist(t.get("response", []), lambda e: "(%s,%s,%s)" % (cl(e[0]), cparams(e[1]), verdict[e[2]]))))


def cscfg(cfg, fw):
    ep = cfg["externalPort"]
    return ("{| s_flavour := %s; s_versions := %s; s_web_status := %s; s_external_port := %s; s_allowed_origins := %s; "
            "s_allow_null_origin := %s; s_max_connections := %d; s_count_connections := %d; s_serve_flash := %s; "
            "s_server := %s; s_headers := %s |}" % (
                "Tx" if fw == "tx" else "Aio", clist(cfg["versions"], cz), cbool(cfg["webStatus"]),
                copt(ep, cz), clist(cfg["allowedOrigins"], cl), cbool(cfg["allowNullOrigin"]), cfg["maxConnections"],
                cfg["countConnections"], cbool(cfg["serveFlash"]), cl(cfg["server"]), ckvl(cfg["headers"])))


def cpolicy(p):
    k = (p or {}).get("kind", "none")
    if k == "none": return "PNone"
    if k == "firstof": return "(PFirstOf %s)" % clist(p["mine"], cstr)
    if k == "fixed": return "(PFixed %s)" % cstr(p["p"])
    if k == "tuple": return "(PTuple %s %s)" % (copt(p.get("p"), cstr), clist(p["headers"], lambda kv: "(%s,%s)" % (cstr(kv[0]), clist(kv[1], cstr))))
    if k == "deny": return "(PDeny %s)" % cz(p["code"])
    if k == "error": return "PError"
    raise ValueError(k)


def csout(o):
    k = o["kind"]
    if k == "open": return "(SOpen %s %s %s)" % (chex(o["response"]), copt(o["proto"], cl), chex(o["rest"]))
    if k == "http": return "(SHttpError %s %s)" % (cz(o["code"]), clist(o["headers"], lambda kv: "(%s,%s)" % (cl(kv[0]), cl(kv[1]))))
    if k == "status": return "(SStatusPage %s)" % copt(o["redirect"], lambda r: "(%s,%s)" % (cl(r[0]), cz(r[1])))
    if k == "redirect": return "(SRedirect %s)" % cl(o["url"])
    if k == "flash": return "SFlashPolicy"
    if k == "needmore": return "SNeedMore"
    if k == "stuck": return "SStuck"
    if k == "escaped": return "(SEscaped %s)" % cexn(o["cls"])
    raise ValueError(k)


def ccout(o):
    k = o["kind"]
    if k == "open": return "(COpen %s %s %s)" % (copt(o["proto"], cl), clist(o["exts"], cl), chex(o["rest"]))
    if k == "failed": return "CFailed"
    if k == "needmore": return "CNeedMore"
    if k == "escaped": return "(CEscaped %s)" % cexn(o["cls"])
    raise ValueError(k)


def cccfg(cfg):
    return ("{| c_host := %s; c_port := %s; c_resource := %s; c_useragent := %s; c_origin := %s; c_protocols := %s; "
            "c_headers := %s; c_version := %s; c_offers := %s |}" % (
                cl(cfg["host"]), cz(cfg["port"]), cl(cfg["resource"]), cl(cfg["useragent"]), cl(cfg["origin"]),
                clist(cfg["protocols"], cl), clist(cfg["headers"], lambda kv: "(%s,%s)" % (cl(kv[0]), cl(kv[1]))),
                cz(cfg["version"]), clist(cfg["offers"], cl)))


def curl(cfg):
    o = cfg.get("url_oracle")
    if not o:
        return "None"
    if "raises" in o:
        up = "UpRaises"
    else:
        sc, h, p, path, q, frag, netloc = o["ok"]
        ps = "PortNone" if "none" in p else ("PortRaises" if "raises" in p else "(PortSome %s)" % cz(p["some"]))
        up = "(UpOk %s %s %s %s %s %s %s)" % (cl(sc), copt(h, cl), ps, cl(path), cl(q), cl(frag), cl(netloc))
    return "(Some {| uc_parsed := %s; uc_unquoted := %s; uc_factory_path := %s |})" % (up, cl(o.get("unquoted", [])), cl(cfg["path"]))


def url_target(url):
    """the request-target of a ws:// URL by plain string surgery (independent of urllib and of parse_url):
    everything after the authority up to a '#', "/" for an empty path, no '?' for an empty query"""
    rest = url.split("://", 1)[1]
    cut = min([rest.index(ch) for ch in "/?#" if ch in rest] or [len(rest)])
    tail = rest[cut:].split("#", 1)[0]
    path, _, query = tail.partition("?")
    return (path or "/") + ("?" + query if query else "")


def drop_path_params(target):
    """what urlparse().path + '?' + query gives: the ';...' of the LAST path segment removed"""
    path, sep, query = target.partition("?")
    head, slash, last = path.rpartition("/")
    return head + slash + last.split(";", 1)[0] + sep + query


def server_term(fw, case, res, chunks=None):
    return "{| sc_cfg := %s; sc_policy := %s; sc_tables := %s; sc_chunks := %s; sc_expect := %s |}" % (
        cscfg(res["cfg"], fw), cpolicy(case.get("policy")), ctables(res["tables"]),
        clist(chunks if chunks is not None else case["chunks"], chex), csout(res["outcome"]))


def client_term(case, res, chunks=None):
    return ("{| cc_cfg := %s; cc_url := %s; cc_nonce := %s; cc_tables := %s; cc_request := %s; cc_chunks := %s; cc_expect := %s |}" % (
        cccfg(res["cfg"]), curl(res["cfg"]), chex(case["nonce"]), ctables(res["tables"]), chex(res["request"]),
        clist(chunks if chunks is not None else case["chunks"], chex), ccout(res["outcome"])))


def prim_term(p):
    kind, hx, r = p
    s = chex(hx) if kind != "sameorigin" else None
    if kind == "splitlines": return "(PcSplitlines %s %s)" % (s, clist(r, cl))
    if kind == "strip": return "(PcStrip %s %s)" % (s, cl(r))
    if kind == "lower": return "(PcLower %s %s)" % (s, cl(r))
    if kind == "splitws": return "(PcSplitWs %s %s)" % (s, clist(r, cl))
    if kind == "int": return "(PcInt %s %s)" % (s, copt(r, cz))
    if kind == "b64": return "(PcB64 %s %s)" % (s, cl(r))
    if kind == "sha1": return "(PcSha1 %s %s)" % (s, cl(r))
    if kind == "utf8": return "(PcUtf8 %s %s)" % (s, cbool(r))
    if kind == "ext": return "(PcExt %s %s)" % (s, clist(r, lambda e: "(%s,%s)" % (cl(e[0]), cparams(e[1]))))
    if kind == "origin":
        us = r["us"]
        if "raises" in us: ust = "UsRaises"
        else:
            sc, h, pt = us["ok"]
            ps = "PortNone" if "none" in pt else ("PortRaises" if "raises" in pt else "(PortSome %s)" % cz(pt["some"]))
            ust = "(UsOk %s %s %s)" % (cl(sc), copt(h, cl), ps)
        res = r["res"]
        rt = "None" if res is None else ("(Some ONull)" if res == "null" else "(Some (OTriple %s %s %s))" % (cl(res[0]), cl(res[1]), copt(res[2], cz)))
        return "(PcOrigin %s %s %s)" % (s, ust, rt)
    if kind == "sameorigin":
        q = json.loads(bytes.fromhex(hx).decode())
        o = "ONull" if q["origin"] == "null" else "(OTriple %s %s %s)" % (cstr(q["origin"][0]), cstr(q["origin"][1]), copt(q["origin"][2], cz))
        return "(PcSameOrigin %s %s %s)" % (o, clist(q["allowed"], cstr), cbool(r))
    if kind == "header":
        return "(PcHeader %s %s)" % (s, copt(r, lambda x: "(%s,%s)" % (cl(x[0]), clist(x[1], lambda h: "(%s,(%s,%d))" % (cl(h[0]), cl(h[1]), h[2])))))
    raise ValueError(kind)


# ================================================================ generators
def rand_key(rng):
    return base64.b64encode(bytes(rng.getrandbits(8) for _ in range(16))).decode()


def digest(key):
    return base64.b64encode(hashlib.sha1(key.encode("latin-1") + GUID).digest()).decode()


def lat(s):
    return s.encode("latin-1")


def render(spec):
    """spec: rl (list of tokens or raw str), headers [[name, value]...], eol, colon"""
    eol = spec.get("eol", "\r\n")
    rl = spec["rl"] if isinstance(spec["rl"], str) else spec.get("rlsep", " ").join(spec["rl"])
    lines = [rl] + [(h[0] + spec.get("colon", ": ") + h[1]) if len(h) == 2 else h[0] for h in spec["headers"]]
    return lat(eol.join(lines) + "\r\n\r\n" + spec.get("rest", ""))


def base_server_spec(rng, rich=False):
    key = rand_key(rng)
    spec = {"rl": ["GET", rng.choice(["/", "/chat", "/a/b?x=1&y=2", "/?q=%41"]) if rich else "/", "HTTP/1.1"],
            "headers": [["Host", "localhost:9000"], ["Upgrade", "websocket"], ["Connection", "Upgrade"],
                        ["Sec-WebSocket-Key", key], ["Sec-WebSocket-Version", "13"]],
            "key": key, "protocols": [], "exts": [], "opts": {}, "factory": {}, "policy": None, "accept": None, "others": 0}
    if rich:
        if rng.random() < 0.5:
            spec["headers"].insert(rng.randrange(1, 5), ["User-Agent", "x/1.0 (a; b)"])
        if rng.random() < 0.3:
            spec["headers"].append(["Cookie", "a=b; c=d:e"])
        if rng.random() < 0.4:
            ps = rng.sample(["chat", "wamp.2.json", "b", "x-y"], rng.randint(1, 3))
            spec["headers"].append(["Sec-WebSocket-Protocol", rng.choice([",", ", "]).join(ps)]); spec["protocols"] = ps
            spec["policy"] = rng.choice([None, {"kind": "firstof", "mine": ["b", "chat"]}, {"kind": "firstof", "mine": ["zzz"]}])
        if rng.random() < 0.3:
            spec["headers"].append(["Origin", rng.choice(["http://good.com", "null", "https://a.example.com:8443"])])
        if rng.random() < 0.3:
            spec["headers"].append(["Sec-WebSocket-Extensions", rng.choice(["permessage-deflate", "permessage-deflate; client_max_window_bits",
                                                                              "permessage-bzip2, permessage-deflate", "x-foo; a=1"])])
            spec["accept"] = rng.choice([None, "any", "deflate"])
            spec["exts"] = [x.split(";")[0].strip().lower() for x in hget_spec(spec, "Sec-WebSocket-Extensions").split(",")]
    return spec


def hset(spec, name, value):
    for h in spec["headers"]:
        if h[0].lower() == name.lower():
            h[1] = value; return
    spec["headers"].append([name, value])


def hdel(spec, name):
    spec["headers"] = [h for h in spec["headers"] if h[0].lower() != name.lower()]


def hdup(spec, name, value=None):
    for i, h in enumerate(spec["headers"]):
        if h[0].lower() == name.lower():
            spec["headers"].insert(i + 1, [h[0], h[1] if value is None else value]); return
    raise KeyError(name)


def hget_spec(spec, name):
    return next(h[1] for h in spec["headers"] if h[0].lower() == name.lower())


def server_mutations():
    """(name, mutator(spec, rng), expectation) ; expectation: 'open' | 'reject' | None (no independent verdict)"""
    M = []
    def m(name, expect):
        def deco(f):
            M.append((name, f, expect)); return f
        return deco
    m("valid", "open")(lambda s, r: None)
    # ---- request line
    for i, meth in enumerate(["POST", "get", "GETX", "", "G ET"]):
        m(f"method/{i}", "reject")(lambda s, r, meth=meth: s.__setitem__("rl", [meth] + s["rl"][1:]))
    for i, v in enumerate(["HTTP/1.0", "HTTP/2", "http/1.1", "HTTP/1.1/2", "HTTP1.1", "HTTP/1.10", "HTTP/ 1.1", "", "HTTP/1.1x",
                           "HTTP/1", "HTTP/1.", "HTTP/.1", "HTTP/.", "HTTP/", "HTTP/11", "HTTP/1.1.1", "/1.1", "HTTP/1,1"]):
        m(f"httpversion/{i}", "reject")(lambda s, r, v=v: s.__setitem__("rl", s["rl"][:2] + [v]))
    m("rl/extra-token", "reject")(lambda s, r: s.__setitem__("rl", s["rl"] + ["x"]))
    m("rl/two-tokens", "reject")(lambda s, r: s.__setitem__("rl", s["rl"][:2]))
    m("rl/empty", "reject")(lambda s, r: s.__setitem__("rl", ""))
    for i, sep in enumerate(["\t", "  ", "\x0b", "\x1f", "\xa0", " \t "]):
        m(f"rl/sep/{i}", None)(lambda s, r, sep=sep: s.__setitem__("rlsep", sep))
    m("rl/leading-space", None)(lambda s, r: s.__setitem__("rl", "  GET / HTTP/1.1  "))
    for i, u in enumerate(["/x#frag", "/#", "http://other.host/x", "*", "//[", "/\xe9\xff", "/a b", "/?a=1&a=2&b", "/" + "a" * 3000, "/;p?q", "/%zz"]):
        m(f"uri/{i}", "reject" if i == 0 else None)(lambda s, r, u=u: s.__setitem__("rl", [s["rl"][0], u, s["rl"][2]] if " " not in u else "GET " + u + " HTTP/1.1"))
    # ---- Host
    m("host/removed", "reject")(lambda s, r: hdel(s, "Host"))
    m("host/dup", "reject")(lambda s, r: hdup(s, "Host"))
    for i, v in enumerate(["localhost", "localhost:abc", "localhost:", "localhost:-1", "localhost:+9000", "localhost:9_000", "[::1]:9000", "[::1]",
                           "localhost: 9000 ", "a:b:9000", "localhost:9000:", "", ":", "localhost:\xb2", "localhost:" + "1" * 4301]):
        m(f"host/value/{i}", "reject" if i in (1, 2, 10, 12, 13, 14) else None)(lambda s, r, v=v: hset(s, "Host", v))
    for i, (ep, hv, ex) in enumerate([(9000, "localhost:9000", "open"), (9000, "localhost:9001", "reject"), (9000, "localhost", "open"),
                                      (8080, "localhost:+8080", None), (9000, "[::1]", "open")]):
        def f(s, r, ep=ep, hv=hv):
            s["factory"]["externalPort"] = ep; hset(s, "Host", hv)
        m(f"host/extport/{i}", ex)(f)
    # ---- Upgrade / Connection
    m("upgrade/removed/webstatus", "reject")(lambda s, r: hdel(s, "Upgrade"))
    def f(s, r):
        hdel(s, "Upgrade"); s["opts"]["webStatus"] = False
    m("upgrade/removed/nowebstatus", "reject")(f)
    for i, (v, ex) in enumerate([("WebSocket", "open"), ("foo, websocket", "open"), (" websocket ", "open"), ("websocketx", "reject"),
                                 ("web socket", "reject"), ("", "reject"), ("foo,WEBSOCKET,bar", "open"), ("websocket;q=1", "reject")]):
        m(f"upgrade/value/{i}", ex)(lambda s, r, v=v: hset(s, "Upgrade", v))
    m("upgrade/dup", "open")(lambda s, r: hdup(s, "Upgrade"))
    m("upgrade/dup-split", "open")(lambda s, r: (hset(s, "Upgrade", "foo"), hdup(s, "Upgrade", "websocket")))
    m("connection/removed", "reject")(lambda s, r: hdel(s, "Connection"))
    for i, (v, ex) in enumerate([("keep-alive, Upgrade", "open"), ("upgrade", "open"), ("UPGRADE", "open"), ("upgradex", "reject"),
                                 ("keep-alive", "reject"), ("", "reject"), ("Upgrade,", "open")]):
        m(f"connection/value/{i}", ex)(lambda s, r, v=v: hset(s, "Connection", v))
    m("connection/dup-split", "open")(lambda s, r: (hset(s, "Connection", "keep-alive"), hdup(s, "Connection", "Upgrade")))
    # ---- version
    m("version/removed", "reject")(lambda s, r: hdel(s, "Sec-WebSocket-Version"))
    m("version/dup", "reject")(lambda s, r: hdup(s, "Sec-WebSocket-Version"))
    for i, (v, ex) in enumerate([("8", "open"), ("7", "reject"), ("14", "reject"), ("0", "reject"), ("-13", "reject"), ("abc", "reject"), ("", "reject"),
                                 ("13, 8", "reject"), ("1 3", "reject"), ("\xb2", "reject"), ("1" * 4301, "reject"), ("13.0", "reject"),
                                 ("+13", "nonrfc"), ("1_3", "nonrfc"), ("013", "nonrfc"), ("13\xa0", None), ("\x1f13", None), ("0_8", "nonrfc")]):
        m(f"version/value/{i}", ex)(lambda s, r, v=v: hset(s, "Sec-WebSocket-Version", v))
    for i, (vs, v, ex) in enumerate([([13], "8", "reject"), ([8], "13", "reject"), ([8], "8", "open"), ([13], "13", "open")]):
        def f(s, r, vs=vs, v=v):
            s["opts"]["versions"] = vs; hset(s, "Sec-WebSocket-Version", v)
        m(f"version/config/{i}", ex)(f)
    # ---- key
    m("key/removed", "reject")(lambda s, r: hdel(s, "Sec-WebSocket-Key"))
    m("key/dup", "reject")(lambda s, r: hdup(s, "Sec-WebSocket-Key"))
    def keymut(name, fn, ex="reject"):
        def f(s, r):
            k = fn(s["key"], r); hset(s, "Sec-WebSocket-Key", k); s["key"] = k.strip()
        m("key/" + name, ex)(f)
    keymut("len23", lambda k, r: k[1:])
    keymut("len25", lambda k, r: "A" + k)
    keymut("len28", lambda k, r: "AAAA" + k)
    keymut("len20", lambda k, r: k[4:])
    keymut("no-suffix", lambda k, r: k[:-2] + "AA")
    keymut("one-eq", lambda k, r: k[:-2] + "A=")
    keymut("eq-inside", lambda k, r: k[:5] + "=" + k[6:])
    keymut("badchar", lambda k, r: k[:7] + r.choice("-_!@ \x00\xe9*.") + k[8:])
    keymut("empty", lambda k, r: "")
    keymut("spaces-around", lambda k, r: "  " + k + " \t", "open")
    keymut("urlsafe", lambda k, r: k[:3] + "-" + k[4:])
    keymut("noncanonical", lambda k, r: k[:21] + "B==", "open")      # 22nd character with non-zero pad bits: still 24 chars of base64
    # ---- origin
    OR = [("http://good.com", True), ("http://good.com:80", True), ("http://GOOD.com", True), ("http://good.com:8080", False), ("https://good.com", False),
          ("http://good.com.evil.com", False), ("http://evil.com/http://good.com", False), ("http://evil.com#http://good.com:80", False),
          ("http://evil.com?http://good.com:80", False), ("http://evilgood.com", False), ("http://good.com:80@evil.com", False),
          ("http://good.comx", False), ("xhttp://good.com:80", False), ("http://good.com:080", True)]
    for i, (o, ok) in enumerate(OR):
        def f(s, r, o=o):
            s["opts"]["allowedOrigins"] = ["http://good.com:80"]; hset(s, "Origin", o)
        m(f"origin/exact/{i}", "open" if ok else "reject")(f)
    WO = [("http://a.good.com", True), ("http://good.com", False), ("http://a.good.com.evil.com", False), ("http://evil.com/.good.com:80", False),
          ("http://a.b.good.com:80", True), ("https://a.good.com", False), ("http://a.good.com:81", False), ("http://.good.com", True)]
    for i, (o, ok) in enumerate(WO):
        def f(s, r, o=o):
            s["opts"]["allowedOrigins"] = ["http://*.good.com:80"]; hset(s, "Origin", o)
        m(f"origin/wild/{i}", "open" if ok else "reject")(f)
    for i, (o, allow, pats, ex) in enumerate([("null", True, ["http://x:1"], "open"), ("null", False, ["*"], "reject"), ("NULL", True, [], "open"),
                                              ("file:///etc/x", True, [], "open"), ("file:///etc/x", False, ["*"], "reject"), ("http://a.b", True, [], "reject"),
                                              ("http://a.b", True, ["*"], "open"), ("ftp://a.b", True, ["*"], "open"), ("ftp://a.b", True, ["ftp://a.b:None"], "open"),
                                              ("", True, ["*"], "reject"), ("http://", True, ["*"], "reject"), ("http://[::1", True, ["*"], "reject"),
                                              ("http://a:99999", True, ["*"], "reject"), ("http://a:b", True, ["*"], "reject"), ("//a.b", True, ["*"], "open"),
                                              ("a.b", True, ["*"], "reject"), ("http://user@a.b", True, ["http://a.b:80"], None), ("http://[::1]:8080", True, ["http://::1:8080"], "open"),
                                              ("http://a.b", True, ["*", "x"], "open"), ("http://a.b", True, ["x", "http://a.*:*"], "open"), ("http://\xe9.b", True, ["*"], None)]):
        def f(s, r, o=o, allow=allow, pats=pats):
            s["opts"]["allowedOrigins"] = pats; s["opts"]["allowNullOrigin"] = allow; hset(s, "Origin", o)
        m(f"origin/misc/{i}", ex)(f)
    def f(s, r):
        s["opts"]["allowedOrigins"] = ["http://good.com:80"]; hset(s, "Origin", "http://good.com"); hdup(s, "Origin")
    m("origin/dup", "reject")(f)
    def f(s, r):
        s["opts"]["allowedOrigins"] = ["http://good.com:80"]; hset(s, "Sec-WebSocket-Version", "8"); hset(s, "Sec-WebSocket-Origin", "http://evil.com"); hset(s, "Origin", "http://good.com")
    m("origin/v8-uses-sec-websocket-origin", "reject")(f)
    def f(s, r):
        s["opts"]["allowedOrigins"] = ["http://good.com:80"]; hset(s, "Sec-WebSocket-Origin", "http://evil.com"); hset(s, "Origin", "http://good.com")
    m("origin/v13-ignores-sec-websocket-origin", "open")(f)
    # ---- subprotocols
    for i, (v, pol, ex) in enumerate([("a", None, "open"), ("a, b", {"kind": "firstof", "mine": ["b"]}, "open"), ("a,a", None, "reject"), ("a, a", None, "reject"),
                                      ("a,,b", None, "open"), ("a,,", None, "reject"), ("", None, "open"), ("a", {"kind": "fixed", "p": "zzz"}, "noopen"),
                                      ("a,b", {"kind": "fixed", "p": "b"}, "open"), ("a", {"kind": "deny", "code": 403}, "reject"), ("a", {"kind": "error"}, "reject"),
                                      ("a", {"kind": "tuple", "p": "a", "headers": [["X-Foo", ["bar"]], ["Set-Cookie", ["a=1", "b=2"]]]}, "open"),
                                      ("a", {"kind": "tuple", "p": None, "headers": [["X-Foo", ["b\xe9r"]]]}, "open"), (" a\t,\xa0b ", {"kind": "firstof", "mine": ["b"]}, "open")]):
        def f(s, r, v=v, pol=pol):
            hset(s, "Sec-WebSocket-Protocol", v); s["policy"] = pol; s["protocols"] = [x.strip() for x in v.split(",")]
        m(f"protocol/{i}", ex)(f)
    def f(s, r):
        hset(s, "Sec-WebSocket-Protocol", "a"); hdup(s, "Sec-WebSocket-Protocol", "b"); s["policy"] = {"kind": "firstof", "mine": ["b"]}; s["protocols"] = ["a", "b"]
    m("protocol/split-lines", "open")(f)
    def f(s, r):
        hset(s, "Sec-WebSocket-Protocol", "a"); hdup(s, "Sec-WebSocket-Protocol", "a"); s["protocols"] = ["a"]
    m("protocol/split-lines-dup", "reject")(f)
    # ---- extensions
    for i, (v, acc, ex) in enumerate([("permessage-deflate", "any", "open"), ("permessage-deflate", None, "open"), ("permessage-deflate; client_max_window_bits", "any", "open"),
                                      ("permessage-deflate; client_max_window_bits=15", "any", "open"), ("permessage-deflate; client_max_window_bits=7", "any", "reject"),
                                      ("permessage-deflate; client_max_window_bits=7", None, "reject"), ("permessage-deflate; foo", "any", "reject"),
                                      ("x-foo", "any", "open"), ("x-foo; a=1; a=2; b=\"q\"", None, "open"), ("permessage-bzip2, permessage-deflate", "deflate", "open"),
                                      ("permessage-bzip2, permessage-deflate", "any", "open"), (";;,,;", None, "open"), ("", "any", "open"),
                                      ("PerMessage-Deflate ; Client_Max_Window_Bits = \"10\"", "any", "open"), ("permessage-deflate; server_no_context_takeover; server_no_context_takeover", "any", "reject"),
                                      ("permessage-deflate, permessage-deflate; server_max_window_bits=9", "any", "open"), ("permessage-brotli", "any", None), ("a=b=c;d==", None, "open")]):
        def f(s, r, v=v, acc=acc):
            hset(s, "Sec-WebSocket-Extensions", v); s["accept"] = acc
            s["exts"] = [x.split(";")[0].strip().lower() for x in v.split(",")]
        m(f"extensions/{i}", ex)(f)
    def f(s, r):
        hset(s, "Sec-WebSocket-Extensions", "permessage-deflate"); hdup(s, "Sec-WebSocket-Extensions"); s["accept"] = "any"; s["exts"] = ["permessage-deflate"]
    m("extensions/dup", "reject")(f)
    # ---- connection limit (others = connections already counted on the factory)
    for i, (mx, others, ex) in enumerate([(0, 50, "open"), (1, 0, "open"), (1, 1, "reject"), (2, 1, "open"), (2, 2, "reject"), (3, 2, "open"), (3, 10, "reject")]):
        def f(s, r, mx=mx, others=others):
            s["opts"]["maxConnections"] = mx; s["others"] = others
        m(f"limit/{i}", ex)(f)
    # ---- header syntax variants
    m("syntax/upper-names", "open")(lambda s, r: s.__setitem__("headers", [[h[0].upper(), h[1]] for h in s["headers"]]))
    m("syntax/lower-names", "open")(lambda s, r: s.__setitem__("headers", [[h[0].lower(), h[1]] for h in s["headers"]]))
    m("syntax/no-space-after-colon", "open")(lambda s, r: s.__setitem__("colon", ":"))
    m("syntax/wide-colon", "open")(lambda s, r: s.__setitem__("colon", " \t:  \t"))
    m("syntax/leading-space-names", None)(lambda s, r: s.__setitem__("headers", [[" " + h[0], h[1]] for h in s["headers"]]))
    m("syntax/junk-lines", "open")(lambda s, r: s.__setitem__("headers", [["no colon here"], [":starts with colon"]] + s["headers"] + [["x"]]))
    m("syntax/latin1-names", None)(lambda s, r: s["headers"].append(["X-\xc9\xd8", "\xe9\xff\xb5"]))
    m("syntax/nul", None)(lambda s, r: s["headers"].append(["X-N\x00ul", "a\x00b"]))
    m("syntax/key-with-colon-value", "open")(lambda s, r: s["headers"].append(["X-T", "a:b:c"]))
    for i, eol in enumerate(["\n", "\r", "\x0b", "\x0c", "\x1c", "\x1d", "\x1e", "\x85", "\r\r\n", "\n\r"]):
        m(f"syntax/eol/{i}", None)(lambda s, r, eol=eol: s.__setitem__("eol", eol))
    for i, ch in enumerate(["\x85", "\x1c", "\x0b", "\x1f", "\xa0", "\x00", "\r", "\n"]):
        # a line-boundary character smuggled into a header value: does the tail become a header of its own?
        def f(s, r, ch=ch):
            s["headers"].insert(0, ["X-Smuggle", "a" + ch + "Sec-WebSocket-Key: AAAAAAAAAAAAAAAAAAAAAA=="])
        m(f"syntax/smuggle/{i}", None)(f)
    m("rest/one-octet", "open")(lambda s, r: s.__setitem__("rest", "\x81"))
    for i, ch in enumerate(["\x0b", "\x0c", "\x1c", "\x1d", "\x1e", "\x85"]):
        # RFC 7230: header fields end with CRLF (a bare LF MAY be tolerated). These octets are data inside a field value, so this
        # request has NO Sec-WebSocket-Key field and must be refused
        def f(s, r, ch=ch):
            k = hget_spec(s, "Sec-WebSocket-Key"); hdel(s, "Sec-WebSocket-Key"); s["headers"].append(["Cookie", "a=b" + ch + "Sec-WebSocket-Key: " + k])
        m("syntax/linebreak-in-value", "reject")(f)
    # ---- no Upgrade: status page / redirect
    RD = ["/?redirect=http%3A%2F%2Fx.y", "/?redirect=http%3A%2F%2Fx.y&after=3", "/?redirect=http%3A%2F%2Fx.y&after=abc", "/?redirect=http%3A%2F%2F%5Bx",
          "/?redirect=http%3A%2F%2Fx.y&after=-1", "/?redirect=http%3A%2F%2Fx.y&after=1_0", "/?redirect=http%3A%2F%2Fx.y&after=", "/?redirect=%FF", "/?redirect=",
          "/?redirect=http%3A%2F%2F%E9.y", "/?redirect=http%3A%2F%2Fa..b", "/?redirect=x&redirect=y&after=1&after=2", "/?after=3", "/?redirect=http%3A%2F%2Fx.y%3A99999",
          "/?redirect=http%3A%2F%2F-a.b&after=%20%207%20", "/?redirect=//x.y/%00", "/?redirect=http%3A%2F%2Fx.y&after=" + "9" * 4301, "/?redirect=http://x.y/%0d%0aX: y"]
    for i, u in enumerate(RD):
        for ws in (True, False):
            def f(s, r, u=u, ws=ws):
                hdel(s, "Upgrade"); s["rl"] = ["GET", u, "HTTP/1.1"]; s["opts"]["webStatus"] = ws
            m(f"noupgrade/{i}/{'ws' if ws else 'nows'}", "reject")(f)
    return M


def spec_to_server_case(spec, chunks=None):
    data = render(spec)
    opts = dict(spec["opts"])
    if (opts or spec["accept"]) and "allowNullOrigin" not in opts:
        opts["allowNullOrigin"] = True            # setProtocolOptions(...) resets it to False whenever it is not passed explicitly
    return {"opts": opts, "factory": spec["factory"], "others": spec["others"], "policy": spec["policy"], "accept": spec["accept"],
            "chunks": [c.hex() for c in (chunks if chunks is not None else [data])]}, data


# ---------------------------------------------------------------- the origin as (scheme, host, port-or-absent)
ORIGIN_PORTS = [None, "", "0", "00", "1", "79", "80", "080", "81", "443", "444", "8080", "65535", "65536", "99999", "abc", "-1", "+80", "8 0", "\xb2"]
ORIGIN_ALLOW = [["http://example.com:80", "https://*.example.com:443", "http://localhost:8080"],      # default ports named explicitly
                ["http://example.com:*", "https://www.example.com:*"],                              # any explicit or default port
                ["http://example.com", "*://*:0", "https://www.example.com:65535"],                 # no port in the pattern (never matches) / port 0 / top port
                ["*"]]


def origin_text(scheme, host, port):
    return f"{scheme}://{host}" + ("" if port is None else ":" + port)


def origin_matrix_oracle(scheme, host, port, allowed):
    """independent reading: the origin is the triple (scheme, host, port); the port is the explicit number when the Origin carries one
    (0 included), the scheme's default only when it carries none; a port that is not 0..65535 in ASCII digits is no origin at all"""
    import fnmatch
    if port is None or port == "":
        num = {"http": 80, "https": 443}[scheme]
    elif port.isascii() and port.isdigit() and int(port) <= 65535:
        num = int(port)
    else:
        return False
    return any(fnmatch.fnmatchcase(f"{scheme}://{host}:{num}", pat) for pat in allowed)


def origin_prims(rng, n):
    out = []
    for scheme in ["http", "https", "HTTP", "ws", "ftp", "file", ""]:
        for host in ["example.com", "www.example.com", "[::1]", "", "EXAMPLE.com"]:
            for port in ORIGIN_PORTS:
                out.append(["origin", origin_text(scheme, host, port).encode("latin-1").hex()])
    for s in ["null", "NULL", "Null ", "", "example.com:80", "//example.com:0", "http:/example.com", "http://user:0@example.com:0", "http://example.com:0:0", "http://example.com:0/x"]:
        out.append(["origin", s.encode("latin-1").hex()])
    trips = [(sc, h, p) for sc in ["http", "https", "ws"] for h in ["example.com", "www.example.com", "a.example.com.evil.com"] for p in [None, 0, 1, 80, 443, 8080, 65535]]
    for allowed in ORIGIN_ALLOW + [[], ["http://*:80", "ws://example.com:None"], ["https://*.example.com:44*"]]:
        for t in trips:
            out.append(["sameorigin", json.dumps({"origin": list(t), "allowed": allowed}).encode().hex()])
        out.append(["sameorigin", json.dumps({"origin": "null", "allowed": allowed}).encode().hex()])
    for i in range(n):
        t = [rng.choice(["http", "https"]), rng.choice(["example.com", "x.example.com"]), rng.choice([None, 0, 80, 443, rng.randint(0, 65535)])]
        out.append(["sameorigin", json.dumps({"origin": t, "allowed": [rng.choice(["http", "https", "*"]) + "://" + rng.choice(["example.com", "*.example.com", "*"]) + ":" + rng.choice(["*", "0", "80", "443", "8*", "None"])]}).encode().hex()])
    return out


def cuts_of(rng, data, n):
    if n == 0 or len(data) < 2:
        return [data]
    cs = sorted(set(rng.randint(1, len(data) - 1) for _ in range(n)))
    return [data[a:b] for a, b in zip([0] + cs, cs + [len(data)])]


RAW_ALPHA = (b"\r\n" * 6 + b"\r\n\r\n" * 2 + b" :,;=" * 2 + b"\x85\x1c\x1d\x1e\x0b\x0c\x00\xff\x80\xc3\xa9\xa0\x1f" + b"GETHTP/1.upgradewbsockhn- 3" + b"\t\"")


def raw_inputs(rng, n):
    out = []
    frags = [b"GET / HTTP/1.1", b"HTTP/1.1 101 X", b"\r\n", b"\r\n\r\n", b"Host: a", b"Upgrade: websocket", b"Connection: Upgrade",
             b"Sec-WebSocket-Version: 13", b"Sec-WebSocket-Key: dGhlIHNhbXBsZSBub25jZQ==", b"Sec-WebSocket-Accept: x", b"<policy-file-request/>\x00", b":", b"\x85", b"\xff"]
    for i in range(n):
        r = rng.random()
        if r < 0.45:
            L = rng.choice([0, 1, 2, 3, 4, 5, 8, 16, 32, 63, 64]) if rng.random() < 0.5 else rng.randint(0, 64)
            b = bytes(rng.choice(RAW_ALPHA) for _ in range(L))
        elif r < 0.8:
            b = b"".join(rng.choice(frags) for _ in range(rng.randint(1, 6)))[:64]
        else:
            b = bytes(rng.getrandbits(8) for _ in range(rng.randint(1, 60))) + b"\r\n\r\n"
        out.append(b)
    return out


# ---------------------------------------------------------------- client side
def nonce_of(seed, i):
    return hashlib.sha256(f"{seed}/nonce/{i}".encode()).digest()[:16]


# client URLs: percent-escapes in the path (space, '/', '?', '%', '#', non-ASCII) with and without a query, escapes and
# fragment-like / reserved characters in the query, empty path / empty query, default and explicit ports
URLS = ["ws://example.com/chat?x=1", "ws://localhost", "wss://h.example:8443/a/b", "ws://[::1]:9000/",
        "ws://example.com:9000/chat%20room/a%2Fb?token=x%26y&lang=en", "ws://example.com:9000/chat%20room/a%2Fb",
        "ws://example.com/a%3Fb?c=d", "ws://example.com/a%3Fb", "ws://example.com/100%25/x?p=100%25", "ws://example.com/caf%C3%A9/%E2%82%AC?n=%C3%A9",
        "ws://example.com/caf%C3%A9", "ws://example.com/a%23b?frag=%23x", "ws://example.com/p?q=a/b?c=d&e=%3F", "ws://example.com/p?", "ws://example.com?x=1",
        "ws://example.com/%2F%2F?%2F", "ws://example.com/a+b/c;d=e?f=g+h;i", "wss://example.com/%7Euser/%41?%41=%7E", "ws://example.com:80/x%20y?z=%20"]


def base_client_spec(rng, nonce, rich=False):
    key = base64.b64encode(nonce).decode()
    spec = {"rl": ["HTTP/1.1", "101", "Switching", "Protocols"],
            "headers": [["Server", "x"], ["Upgrade", "websocket"], ["Connection", "Upgrade"], ["Sec-WebSocket-Accept", digest(key)]],
            "key": key, "factory": {}, "opts": {}, "accept": None}
    if rich:
        if rng.random() < 0.5:
            spec["factory"]["protocols"] = rng.choice([["a"], ["a", "b"], ["wamp.2.json", "x"]])
            if rng.random() < 0.7:
                spec["headers"].append(["Sec-WebSocket-Protocol", rng.choice(spec["factory"]["protocols"])])
        if rng.random() < 0.3:
            spec["factory"]["url"] = rng.choice(URLS)
        if rng.random() < 0.3:
            spec["factory"]["origin"] = "http://good.com"
        if rng.random() < 0.3:
            spec["factory"]["headers"] = {"X-A": "1", "Cookie": "a=b"}
        if rng.random() < 0.2:
            spec["factory"]["useragent"] = rng.choice([None, "", "ua/2"])
        if rng.random() < 0.4:
            spec["opts"]["version"] = rng.choice([10, 11, 12, 13, 14, 15, 16, 17, 18])
        if rng.random() < 0.3:
            spec["opts"]["offers"] = rng.choice([["deflate"], ["deflate", "bzip2"], ["deflate-nct"]])
            spec["accept"] = rng.choice([None, "any"])
            if spec["accept"] and rng.random() < 0.7:
                spec["headers"].append(["Sec-WebSocket-Extensions", "permessage-deflate"])
    return spec


def client_mutations():
    M = []
    def m(name, expect):
        def deco(f):
            M.append((name, f, expect)); return f
        return deco
    m("valid", "open")(lambda s, r: None)
    for i, (rl, ex) in enumerate([(["HTTP/1.0", "101", "X"], "reject"), (["HTTP/1.1", "200", "OK"], "reject"), (["HTTP/1.1", "101"], "open"), (["HTTP/1.1"], "reject"),
                                  ([], "reject"), (["HTTP/1.1", "abc"], "reject"), (["http/1.1", "101", "X"], "reject"), (["HTTP/1.1", "1010", "X"], "reject"),
                                  (["HTTP/1.1", "400", "101"], "reject"), (["HTTP/2", "101"], "reject"), (["101", "HTTP/1.1"], "reject"),
                                  (["HTTP/1.1", "+101", "X"], "nonrfc"), (["HTTP/1.1", "1_01", "X"], "nonrfc"), (["HTTP/1.1", "0101", "X"], "nonrfc"), (["HTTP/1.1", "-101"], "reject"),
                                  (["HTTP/1.1", "101\xa0"], None), (["HTTP/1.1", "\xb9\xb0\xb9"], "reject"), (["HTTP/1.1", "1" * 4301], "reject")]):
        m(f"status/{i}", ex)(lambda s, r, rl=rl: s.__setitem__("rl", rl))
    for i, sep in enumerate(["\t", "   ", "\x0b", "\x1f"]):
        m(f"status/sep/{i}", None)(lambda s, r, sep=sep: s.__setitem__("rlsep", sep))
    m("upgrade/removed", "reject")(lambda s, r: hdel(s, "Upgrade"))
    for i, (v, ex) in enumerate([("WebSocket", "open"), (" WEBSOCKET ", "open"), ("websocketx", "reject"), ("foo, websocket", "reject"), ("", "reject")]):
        m(f"upgrade/value/{i}", ex)(lambda s, r, v=v: hset(s, "Upgrade", v))
    m("upgrade/dup", "reject")(lambda s, r: hdup(s, "Upgrade"))
    m("connection/removed", "reject")(lambda s, r: hdel(s, "Connection"))
    for i, (v, ex) in enumerate([("upgrade", "open"), ("keep-alive, UPGRADE", "open"), ("close", "reject"), ("upgrades", "reject"), ("", "reject")]):
        m(f"connection/value/{i}", ex)(lambda s, r, v=v: hset(s, "Connection", v))
    m("accept/removed", "reject")(lambda s, r: hdel(s, "Sec-WebSocket-Accept"))
    m("accept/dup", "reject")(lambda s, r: hdup(s, "Sec-WebSocket-Accept"))
    def accmut(name, fn, ex="reject"):
        m("accept/" + name, ex)(lambda s, r: hset(s, "Sec-WebSocket-Accept", fn(hget_spec(s, "Sec-WebSocket-Accept"), s, r)))
    accmut("other-key", lambda a, s, r: digest(rand_key(r)))
    accmut("rfc-sample-key", lambda a, s, r: "s3pPLMBiTxaQ9kYGzzhZRbK+xOo=")
    accmut("the-key-itself", lambda a, s, r: s["key"])
    accmut("lowercase", lambda a, s, r: a.lower())
    accmut("truncated", lambda a, s, r: a[:-1])
    accmut("prefix-junk", lambda a, s, r: "x" + a)
    accmut("suffix-junk", lambda a, s, r: a + "x")
    accmut("empty", lambda a, s, r: "")
    accmut("spaces", lambda a, s, r: "  " + a + "\t ", "open")
    accmut("one-bit", lambda a, s, r: a[:5] + ("A" if a[5] != "A" else "B") + a[6:])
    accmut("sha1-hex", lambda a, s, r: hashlib.sha1(s["key"].encode() + GUID).hexdigest())
    accmut("digest-without-guid", lambda a, s, r: base64.b64encode(hashlib.sha1(s["key"].encode()).digest()).decode())
    for i, (mine, v, ex) in enumerate([(["a", "b"], "b", "open"), (["a", "b"], "c", "reject"), ([], "a", "reject"), (["a"], "", "open"), (["a"], "A", "reject"),
                                       (["a"], "a, a", "reject"), (["a", "b"], "a,b", "reject"), (["a"], " a ", "open"), (["ab"], "a", "reject"), (["a"], "ab", "reject")]):
        def f(s, r, mine=mine, v=v):
            s["factory"]["protocols"] = mine; hset(s, "Sec-WebSocket-Protocol", v)
        m(f"protocol/{i}", ex)(f)
    def f(s, r):
        s["factory"]["protocols"] = ["a"]; hset(s, "Sec-WebSocket-Protocol", "a"); hdup(s, "Sec-WebSocket-Protocol")
    m("protocol/dup", "reject")(f)
    for i, (offers, acc, v, ex) in enumerate([(["deflate"], "any", "permessage-deflate", "open"), (["deflate"], None, "permessage-deflate", "reject"),
                                              ([], None, "permessage-deflate", "reject"), ([], "any", "permessage-deflate", None), (["deflate"], "any", "x-foo", "reject"),
                                              (["deflate"], "any", "permessage-deflate, permessage-deflate", "reject"), (["deflate", "bzip2"], "any", "permessage-deflate, permessage-bzip2", "reject"),
                                              (["deflate"], "any", "permessage-deflate; server_max_window_bits=7", "reject"), (["deflate"], "any", "permessage-deflate; client_max_window_bits", "reject"),
                                              (["deflate"], "any", "permessage-deflate; server_no_context_takeover; client_max_window_bits=10", "open"), (["deflate"], "any", "", "open"),
                                              (["deflate"], "any", ",;,", None), (["bzip2"], "deflate", "permessage-bzip2", "reject"), (["deflate"], "any", "PERMESSAGE-DEFLATE", "open")]):
        def f(s, r, offers=offers, acc=acc, v=v):
            s["opts"]["offers"] = offers; s["accept"] = acc; hset(s, "Sec-WebSocket-Extensions", v)
        m(f"extensions/{i}", ex)(f)
    def f(s, r):
        s["opts"]["offers"] = ["deflate"]; s["accept"] = "any"; hset(s, "Sec-WebSocket-Extensions", "permessage-deflate"); hdup(s, "Sec-WebSocket-Extensions")
    m("extensions/dup", "reject")(f)
    # non-UTF-8 / non-ASCII octets in the response header block (latin-1 is what HTTP allows)
    m("nonutf8/status-line", "noescape")(lambda s, r: s.__setitem__("rl", ["HTTP/1.1", "101", "Switching\xff", "Protocols"]))
    m("nonutf8/header-value", "noescape")(lambda s, r: s["headers"].append(["X-Powered-By", "caf\xe9"]))
    m("nonutf8/header-name", "noescape")(lambda s, r: s["headers"].append(["X-\xe9", "v"]))
    m("nonutf8/error-reply", "noescape")(lambda s, r: (s.__setitem__("rl", ["HTTP/1.1", "403", "Interdit", "\xe0", "vous"])))
    m("utf8/valid-multibyte", "open")(lambda s, r: s["headers"].append(["X-U", "caf\xc3\xa9 \xe2\x82\xac"]))
    m("nonutf8/truncated-seq", "noescape")(lambda s, r: s["headers"].append(["X-U", "\xe2\x82"]))
    m("nonutf8/overlong", "noescape")(lambda s, r: s["headers"].append(["X-U", "\xc0\xaf"]))
    m("nonutf8/surrogate", "noescape")(lambda s, r: s["headers"].append(["X-U", "\xed\xa0\x80"]))
    for i, eol in enumerate(["\n", "\r", "\x0b", "\x1c", "\x85", "\x1e"]):
        m(f"syntax/eol/{i}", None)(lambda s, r, eol=eol: s.__setitem__("eol", eol))
    m("syntax/upper-names", "open")(lambda s, r: s.__setitem__("headers", [[h[0].upper(), h[1]] for h in s["headers"]]))
    m("syntax/wide-colon", "open")(lambda s, r: s.__setitem__("colon", "  :\t "))
    m("syntax/junk-lines", "open")(lambda s, r: s.__setitem__("headers", [["junk"], [":x"]] + s["headers"]))
    for i, ch in enumerate(["\x1c", "\x0b", "\x1e"]):
        def f(s, r, ch=ch):
            hdel(s, "Sec-WebSocket-Accept"); s["headers"].append(["X-S", "a" + ch + "Sec-WebSocket-Accept: " + digest(s["key"])])
        m(f"syntax/smuggle/{i}", None)(f)
    m("rest/one-octet", "open")(lambda s, r: s.__setitem__("rest", "\x81"))
    for i, ch in enumerate(["\x0b", "\x0c", "\x1c", "\x1d", "\x1e", "\x85"]):
        def f(s, r, ch=ch):       # no Sec-WebSocket-Accept field: the digest sits inside another field's value
            hdel(s, "Sec-WebSocket-Accept"); s["headers"].append(["X-Info", "a" + ch + "Sec-WebSocket-Accept: " + digest(s["key"])])
        m("syntax/linebreak-in-value", "reject")(f)
    return M


def spec_to_client_case(spec, nonce, chunks=None):
    data = render(spec)
    return {"factory": spec["factory"], "opts": spec["opts"], "accept": spec["accept"], "nonce": nonce.hex(),
            "chunks": [c.hex() for c in (chunks if chunks is not None else [data])]}, data


# ---------------------------------------------------------------- end to end matrix
def e2e_space():
    return dict(
        cver=[10, 11, 12, 13, 14, 15, 16, 17, 18], sver=[[8, 13], [13], [8]],
        cprot=[[], ["a"], ["a", "b"], ["wamp.2.json", "wamp.2.msgpack"]],
        spol=[None, {"kind": "firstof", "mine": ["b"]}, {"kind": "firstof", "mine": ["c"]}, {"kind": "firstof", "mine": ["wamp.2.msgpack", "a"]},
              {"kind": "tuple", "p": None, "headers": [["X-Srv", ["1", "2"]]]}],
        origin=[None, "http://good.com", "https://app.example.com:8443", "null"],
        allowed=[(["*"], True), (["http://good.com:80"], True), (["https://*.example.com:8443", "http://good.com:*"], False), (["*"], False)],
        offers=[[], ["deflate"], ["deflate", "bzip2"], ["deflate-nct"]], sacc=[None, "any", "bzip2"], cacc=[None, "any"],
        cheaders=[None, {"X-Client": "1", "Cookie": "k=v; a=b"}], sheaders=[None, {"X-Frame-Options": "DENY"}],
        url=["ws://localhost:9000", "ws://example.com/chat?x=1&y=%20", "ws://localhost", "ws://[::1]:9000/p", "wss://h.example:8443/a/b"] + URLS[4:],
        extport=[None, "match", "other"], useragent=["default", None], server=["default", None],
        cuts=[[], [0.5], [0.1, 0.9], [0.01, 0.3, 0.31, 0.99]])


def origin_allowed_oracle(origin, allowed, allow_null):
    """independent reading of the property: the WHOLE 'scheme://host:port' must match one wildcard"""
    import fnmatch, urllib.parse
    if origin is None:
        return True
    if origin == "null":
        return allow_null
    u = urllib.parse.urlsplit(origin)
    port = u.port or {"http": 80, "https": 443}.get(u.scheme)
    s = f"{u.scheme}://{u.hostname}:{port}"
    return any(fnmatch.fnmatchcase(s, pat) for pat in allowed)


def e2e_case(rng, sp, i, seed):
    pick = {k: rng.choice(v) for k, v in sp.items()}
    nonce = nonce_of(seed, f"e2e{i}")
    cf = {"url": pick["url"], "protocols": pick["cprot"] or None, "origin": pick["origin"], "headers": pick["cheaders"]}
    if pick["useragent"] is None: cf["useragent"] = None
    copts = {"version": pick["cver"]}
    if pick["offers"]: copts["offers"] = pick["offers"]
    import urllib.parse
    u = urllib.parse.urlsplit(pick["url"])
    cport = u.port or (443 if u.scheme == "wss" else 80)
    sf = {"url": "ws://localhost:9000", "headers": pick["sheaders"]}
    if pick["server"] is None: sf["server"] = None
    if pick["extport"] == "match": sf["externalPort"] = cport
    elif pick["extport"] == "other": sf["externalPort"] = cport + 1
    allowed, allow_null = pick["allowed"]
    sopts = {"versions": pick["sver"], "allowedOrigins": allowed, "allowNullOrigin": allow_null}
    pv = 8 if pick["cver"] <= 12 else 13
    offered = {"deflate": "permessage-deflate", "deflate-nct": "permessage-deflate", "bzip2": "permessage-bzip2"}
    names = [offered[o] for o in pick["offers"]]
    sel = None
    if pick["sacc"] == "any" and names: sel = names[0]
    if pick["sacc"] == "bzip2" and "permessage-bzip2" in names: sel = "permessage-bzip2"
    reasons = []
    if pv not in pick["sver"]: reasons.append("version")
    if not origin_allowed_oracle(pick["origin"], allowed, allow_null): reasons.append("origin")
    if pick["extport"] == "other": reasons.append("port")
    if sel is not None and pick["cacc"] != "any": reasons.append("extension-not-approved-by-client")
    compatible = not reasons
    pol = pick["spol"]
    proto = None
    if pol and pol["kind"] == "firstof":
        proto = next((p for p in pick["cprot"] if p in pol["mine"]), None)
    return {"client": {"factory": {k: v for k, v in cf.items() if v is not None or k == "useragent"}, "opts": copts, "accept": pick["cacc"], "nonce": nonce.hex()},
            "server": {"opts": sopts, "factory": {k: v for k, v in sf.items() if v is not None or k == "server"}, "policy": pol, "accept": pick["sacc"], "others": 0},
            "cuts": pick["cuts"],
            "meta": {"compatible": compatible, "reasons": reasons, "proto": proto, "ext": sel, "pick": {k: (v if not isinstance(v, tuple) else list(v)) for k, v in pick.items()}}}


# ---------------------------------------------------------------- primitives and wildcard cases
def prim_inputs(rng, n):
    out = []
    alpha = bytes(range(256))
    ws = bytes([9, 10, 11, 12, 13, 28, 29, 30, 31, 32, 133, 160])
    def rs(k, pool):
        return bytes(rng.choice(pool) for _ in range(k))
    for b in [b"", b"\r\n\r\n", b"a\r\nb\n\rc\r", b"\r", b"\n", b"a\x85b\x1cc\x1dd\x1ee\x0bf\x0cg", b"x\r\r\n\ny", bytes(range(256))]:
        for k in ("splitlines", "strip", "lower", "splitws", "header"):
            out.append([k, b.hex()])
    for i in range(n):
        mix = ws + b"ab:Z\xc9\xe9" * 2
        out.append(["splitlines", rs(rng.randint(0, 24), mix).hex()])
        out.append(["strip", rs(rng.randint(0, 12), mix).hex()])
        out.append(["splitws", rs(rng.randint(0, 16), mix).hex()])
        out.append(["lower", rs(rng.randint(0, 16), alpha).hex()])
        out.append(["int", rs(rng.randint(0, 7), b"0123456789+-_ \t\xa0\x1c\x85\xb2x" + b"0123456789" * 2).hex()])
        out.append(["b64", rs(rng.choice([0, 1, 2, 3, 4, 15, 16, 17, 20, rng.randint(0, 40)]), alpha).hex()])
        out.append(["sha1", rs(rng.choice([0, 1, 3, 54, 55, 56, 57, 60, 63, 64, 65, 119, 120, rng.randint(0, 200)]), alpha).hex()])
        out.append(["utf8", rs(rng.randint(0, 8), b"a\x80\xbf\xc0\xc2\xe0\xa0\xed\x9f\xef\xf0\x90\xf4\x8f\xf5\xff\xe2\x82\xac").hex()])
        out.append(["ext", rs(rng.randint(0, 30), b"ab-=;,\" \tXy=;,permessage-deflate").hex()])
        out.append(["header", (rs(rng.randint(0, 40), b"ab: \t\r\n\r\n,:\x85\x1cHost" + ws) + b"\r\n\r\n").hex()])
    for s in ["13", "+13", "-13", "1_3", "_13", "13_", "1__3", "", "+", "0" * 4301, "1" * 4300, "1" * 4301, "1_" * 4299 + "1", " " * 10 + "7", "\x1c7", "7\x85", "٣".encode("utf8").decode("latin-1")]:
        out.append(["int", s.encode("latin-1").hex()])
    for s in ["permessage-deflate; client_max_window_bits=\"10\"; a; a=1", "A ; B = c=d ; e = \"\" ; f=\"", ",,;;==", "x;=1", "x; \"", "x; a=\"\"\""]:
        out.append(["ext", s.encode().hex()])
    return out


def wild_inputs(rng, n):
    pats = ["*", "http://good.com:80", "http://*.good.com:80", "*good.com*", "http://*:*", "**", "a*b*c", "", "*.", ".*", "a.b", "https://*.example.com:443", "*\n", "a\nb"]
    strs = ["http://good.com:80", "http://good.com:80\n", "http://good.com:80\n\n", "\nhttp://good.com:80", "http://good.com.evil.com:80", "http://evil.com/http://good.com:80",
            "http://a.good.com:80", "http://a\n.good.com:80", "", "\n", "a.b", "axb", "abc", "aXbYc", "a\nb", "http://x:None", "https://a.b.example.com:443", "https://example.com:443"]
    out = [[p, s] for p in pats for s in strs]
    for i in range(n):
        p = "".join(rng.choice("ab.*:/") for _ in range(rng.randint(0, 7)))
        s = "".join(rng.choice("ab.:/x\n") for _ in range(rng.randint(0, 9)))
        out.append([p, s])
    return out


# ================================================================ case construction
def build_cases(ck):
    q = ck.quick()
    rng = ck.rng("gen")
    seed = ck.seed
    S, Cc, E = [], [], []          # (case, meta)
    gid = [0]
    def group():
        gid[0] += 1
        return gid[0]
    # corpus first
    cdir = os.path.join(vlib.ROOT, "corpus", "C07")
    if os.path.isdir(cdir):
        for fn in sorted(os.listdir(cdir)):
            if fn.endswith(".json"):
                c = json.load(open(os.path.join(cdir, fn)))
                # "name" lets a regression case report under the key of the finding it belongs to
                meta = {"name": c.get("name", "corpus/" + fn[:-5]), "corpus": True, "expect": c.get("expect"), "group": group(),
                        "data": "".join(c["case"]["chunks"])}
                (S if c["role"] == "server" else Cc).append((c["case"], meta))
    reps = 2 if q else 6
    for name, fn, ex in server_mutations():
        for rep in range(reps):
            spec = base_server_spec(rng, rich=rep > 0)
            fn(spec, rng)
            data = render(spec)
            g = group()
            segs = [[data]] + ([cuts_of(rng, data, rng.randint(1, 4))] if rep % 2 == 1 or not q else [])
            for chunks in segs:
                case, _ = spec_to_server_case(spec, chunks)
                if name.startswith("valid") or rep == 0:
                    case["timeout"] = True
                S.append((case, {"name": "grammar/" + name, "expect": ex, "key": spec["key"], "protocols": spec["protocols"], "exts": spec["exts"],
                                 "group": g, "data": data.hex(), "rich": rep > 0}))
    # origin matrix: scheme x host x port text (absent / empty / boundary numbers / not a port) x allow-lists, independent oracle
    for ai, allowed in enumerate(ORIGIN_ALLOW):
        for scheme in ["http", "https"]:
            for host in ["example.com", "www.example.com", "localhost"]:
                for port in ORIGIN_PORTS:
                    spec = base_server_spec(rng)
                    spec["opts"]["allowedOrigins"] = allowed; spec["opts"]["allowNullOrigin"] = False
                    hset(spec, "Origin", origin_text(scheme, host, port))
                    case, data = spec_to_server_case(spec)
                    ok = origin_matrix_oracle(scheme, host, port, allowed)
                    S.append((case, {"name": f"grammar/origin-triple/{'absent' if port in (None, '') else 'port-' + port.strip()}", "expect": "open" if ok else "reject",
                                     "key": spec["key"], "protocols": [], "exts": [], "group": group(), "data": data.hex(), "matrix": True}))
    # flash policy
    for i, (flash, chunks) in enumerate([(True, [b"<policy-file-request/>\x00"]), (False, [b"<policy-file-request/>\x00"]), (True, [b"<policy-file-", b"request/>\x00"]),
                                         (True, [b"xx<policy-file-request/>\x00yy"]), (True, [b"<policy-file-request/>"]), (True, [b"<policy-file-request/>\x00\r\n\r\n"]),
                                         (True, [b"<policy-file-request/>\x00", b"\r\n\r\n"])]):
        S.append(({"opts": {"serveFlashSocketPolicy": flash, "allowNullOrigin": True}, "factory": {}, "others": 0, "policy": None, "accept": None,
                   "chunks": [c.hex() for c in chunks], "timeout": True}, {"name": f"flash/{i}", "expect": "reject", "group": group(), "data": b"".join(chunks).hex()}))
    # oversized
    big = base_server_spec(rng); big["headers"].append(["X-Big", "a" * 100000])
    case, data = spec_to_server_case(big, cuts_of(rng, render(big), 5))
    S.append((case, {"name": "oversized/complete-100k", "expect": "open", "key": big["key"], "protocols": [], "exts": [], "group": group(), "data": data.hex(), "nocoq": True}))
    S.append(({"opts": {}, "factory": {}, "others": 0, "policy": None, "accept": None, "timeout": True,
               "chunks": [(b"GET / HTTP/1.1\r\nX: " + b"a" * 500000).hex(), (b"b" * 500000).hex()]},
              {"name": "oversized/unterminated-1M", "expect": "reject", "group": group(), "data": "", "nocoq": True}))
    # arbitrary octets, every two-way segmentation, both roles
    raws = raw_inputs(ck.rng("raw"), 120 if q else 1200)
    for i, b in enumerate(raws):
        g = group()
        segs = [[b]] + [[b[:k], b[k:]] for k in range(1, len(b))] + ([[b[j:j + 1] for j in range(len(b))]] if len(b) > 2 else [])
        flash = (i % 7 == 0)
        for j, chunks in enumerate(segs):
            sc = {"opts": ({"serveFlashSocketPolicy": True, "allowNullOrigin": True} if flash else {}), "factory": {}, "others": 0, "policy": None, "accept": None,
                  "chunks": [c.hex() for c in chunks], "timeout": j == 0}
            S.append((sc, {"name": "raw", "expect": "reject", "group": g, "data": b.hex(), "flash": flash, "seg": j}))
            cc = {"factory": {}, "opts": {}, "accept": None, "nonce": nonce_of(seed, f"raw{i}").hex(), "chunks": [c.hex() for c in chunks], "timeout": j == 0}
            Cc.append((cc, {"name": "raw", "expect": "noopen-noescape", "group": g + 10 ** 6, "data": b.hex(), "seg": j}))
    # client grammar
    n = 0
    for name, fn, ex in client_mutations():
        for rep in range(reps):
            n += 1
            nonce = nonce_of(seed, f"cl{n}")
            spec = base_client_spec(rng, nonce, rich=rep > 0)
            fn(spec, rng)
            data = render(spec)
            g = group()
            segs = [[data]] + ([cuts_of(rng, data, rng.randint(1, 4))] if rep % 2 == 1 or not q else [])
            for chunks in segs:
                case, _ = spec_to_client_case(spec, nonce, chunks)
                case["timeout"] = rep == 0
                Cc.append((case, {"name": "grammar/" + name, "expect": ex, "key": spec["key"], "group": g, "data": data.hex(), "mine": spec["factory"].get("protocols") or []}))
    for ui, url in enumerate(URLS):
        n += 1
        nonce = nonce_of(seed, f"url{ui}")
        spec = base_client_spec(rng, nonce)
        spec["factory"]["url"] = url
        case, data = spec_to_client_case(spec, nonce)
        Cc.append((case, {"name": "grammar/url", "expect": "open", "key": spec["key"], "group": group(), "data": data.hex(), "mine": []}))
    # end to end
    sp = e2e_space()
    er = ck.rng("e2e")
    i = 0
    while len(E) < (250 if q else 4000):
        i += 1
        e = e2e_case(er, sp, i, seed)
        if e["meta"]["compatible"] or er.random() < 0.25:
            E.append(e)
    return S, Cc, E


def multi_cases(rng, n):
    """op sequences on one server factory with a connection limit; the independent oracle is in analyse_multi"""
    out = [{"max": 1, "ops": [["open"], ["open"], ["open"], ["lose", 0], ["open"], ["open"]]},
           {"max": 2, "ops": [["open"], ["open"], ["open"], ["open"], ["open"], ["lose", 1], ["open"], ["open"]]},
           {"max": 3, "ops": [["open"]] * 3 + [["open"]] * 4 + [["lose", 0], ["lose", 1]] + [["open"]] * 4},
           {"max": 0, "ops": [["open"]] * 6}]
    for i in range(n):
        mx = rng.choice([1, 1, 2, 2, 3, 4])
        ops, k = [], 0
        for _ in range(rng.randint(4, 14)):
            if k and rng.random() < 0.3:
                ops.append(["lose", rng.randrange(k)])
            else:
                ops.append(["open"]); k += 1
        out.append({"max": mx, "ops": ops})
    return out


def analyse_multi(ck, fw, M, R):
    for case, x in zip(M, R):
        if "driver_error" in x:
            ck.violation("harness/driver_error", x["driver_error"], {"case": case, "tb": x.get("tb")}, found_input=False); continue
        live, opened, status = set(), set(), {}
        k = 0
        for op, t in zip(case["ops"], x["trace"]):
            if op[0] == "open":
                live.add(k)
                admitted = case["max"] == 0 or len(live) <= case["max"]
                status[k] = "OPEN" if admitted else "CLOSED"
                if admitted: opened.add(k)
                else: live.discard(k)           # refused: dropped and reported lost at once
                k += 1
            else:
                live.discard(op[1]); opened.discard(op[1])
                if op[1] in status: status[op[1]] = "CLOSED"
            want = [status[i] for i in range(k)]
            ck.bump(f"{fw}/multi/steps")
            rep = {"role": "multi", "framework": fw, "case": case, "step": len(want), "expected_states": want, "observed": t}
            if t["escaped"]:
                ck.violation(escape_key("server", t["escaped"][0]), "exception escapes in a multi-connection scenario", rep, found_input=True); break
            if t["states"] != want or t["count"] != len(live):
                n_open = sum(1 for s_ in t["states"] if s_ == "OPEN")
                if case["max"] and n_open > case["max"]:
                    ck.violation("server/connection-limit/exceeded", f"{n_open} connections are OPEN on a factory with maxConnections={case['max']}", rep, found_input=True)
                else:
                    ck.violation("server/connection-limit/miscounted", f"connection states / countConnections differ from 'a peer is admitted iff the live connections including itself are <= maxConnections' "
                                 f"(count {t['count']}, expected {len(live)})", rep, found_input=True)
                break


# ================================================================ configuration plumbing
# documented defaults (resetProtocolOptions / interface docstrings) of every option the handshake reads, and a non-default value
SERVER_OPTS = {"versions": ([8, 13], [13]), "webStatus": (True, False), "allowedOrigins": (["*"], ["http://good.com:80"]),
               "allowNullOrigin": (True, False), "maxConnections": (0, 1), "serveFlashSocketPolicy": (False, True),
               "trustXForwardedFor": (0, 1), "requireMaskedClientFrames": (True, False), "perMessageCompressionAccept": ("default", "any")}
CLIENT_OPTS = {"version": (18, 10), "perMessageCompressionOffers": ([], ["deflate"]), "perMessageCompressionAccept": ("default", "any"),
               "acceptMaskedServerFrames": (False, True), "maskClientFrames": (True, False)}
UNRELATED = [{"failByDrop": False}, {"echoCloseCodeReason": True, "autoPingInterval": 10, "autoPingTimeout": 5}]
MODELLED = ("versions", "webStatus", "allowedOrigins", "allowNullOrigin", "maxConnections", "serveFlashSocketPolicy")


def config_sequences(opts):
    seqs = [("no call", []), ("unrelated call only", [UNRELATED[0]]), ("two unrelated calls", list(UNRELATED))]
    for o, (d, v) in opts.items():
        seqs += [(f"{o} alone", [{o: v}]), (f"{o} then unrelated", [{o: v}, UNRELATED[0]]), (f"unrelated then {o}", [UNRELATED[1], {o: v}]),
                 (f"{o} set and set back", [{o: v}, {o: d}]), (f"{o} set back, unrelated, set", [{o: d}, UNRELATED[0], {o: v}]),
                 (f"{o} default named explicitly then unrelated", [{o: d}, UNRELATED[1]])]
    allv = {o: v for o, (d, v) in opts.items()}
    seqs += [("all in one call", [allv]), ("one call per option", [{o: v} for o, v in allv.items()]),
             ("one call per option, reversed", [{o: v} for o, v in reversed(list(allv.items()))]),
             ("all in one call, unrelated before and after", [UNRELATED[0], allv, UNRELATED[1]]),
             ("one call per option with unrelated calls between", [x for o, v in allv.items() for x in ({o: v}, UNRELATED[0])])]
    return seqs


def intended(opts, calls):
    """documented defaults overridden by the calls in order (a call changes exactly the options it names)"""
    cur = {o: d for o, (d, v) in opts.items()}
    for kw in calls:
        for o, v in kw.items():
            if o in cur:
                cur[o] = v
    return cur


def server_probes(rng):
    P = []
    def probe(name, fn, others=0, raw=None):
        spec = base_server_spec(rng)
        if fn: fn(spec)
        P.append((name, raw if raw is not None else render(spec), others, spec["key"]))
    probe("origin-null", lambda s: hset(s, "Origin", "null"))
    probe("origin-good", lambda s: hset(s, "Origin", "http://good.com"))
    probe("origin-evil", lambda s: hset(s, "Origin", "http://evil.com"))
    probe("version-8", lambda s: hset(s, "Sec-WebSocket-Version", "8"))
    probe("no-upgrade", lambda s: hdel(s, "Upgrade"))
    probe("flash-request", None, raw=b"<policy-file-request/>\x00")
    probe("second-connection", None, others=1)
    probe("deflate-offer", lambda s: hset(s, "Sec-WebSocket-Extensions", "permessage-deflate"))
    return P


def config_cases(ck):
    rng = ck.rng("config")
    SP = server_probes(rng)
    SC, CC = [], []
    for label, calls in config_sequences(SERVER_OPTS):
        for name, data, others, key in SP:
            SC.append(({"calls": calls, "factory": {}, "others": others, "policy": None, "accept": None, "chunks": [data.hex()]},
                       {"label": label, "probe": name, "calls": calls, "data": data.hex()}))
    for si, (label, calls) in enumerate(config_sequences(CLIENT_OPTS)):
        for pi, ext in enumerate([None, "permessage-deflate"]):
            nonce = nonce_of(ck.seed, f"cfg{si}/{pi}")
            spec = base_client_spec(rng, nonce)
            if ext: spec["headers"].append(["Sec-WebSocket-Extensions", ext])
            data = render(spec)
            CC.append(({"calls": calls, "factory": {}, "nonce": nonce.hex(), "chunks": [data.hex()]},
                       {"label": label, "probe": "reply" + ("-deflate" if ext else ""), "calls": calls, "data": data.hex(), "ext": ext}))
    return SC, CC


def cupdate(kw):
    def f(o, r):
        return "(Some %s)" % r(kw[o]) if o in kw else "None"
    return ("{| up_versions := %s; up_web_status := %s; up_allowed_origins := %s; up_allow_null_origin := %s; up_max_connections := %s; up_serve_flash := %s |}" % (
        f("versions", lambda v: clist(v, cz)), f("webStatus", cbool), f("allowedOrigins", lambda v: clist(v, cstr)), f("allowNullOrigin", cbool),
        f("maxConnections", lambda v: "%d" % v), f("serveFlashSocketPolicy", cbool)))


def analyse_config(ck, fw, SC, CC, RS, RC, coq=True):
    reported = set()
    def vec_server(cfg):
        return {"versions": cfg["versions"], "webStatus": cfg["webStatus"], "allowedOrigins": ["".join(map(chr, x)) for x in cfg["allowedOrigins"]],
                "allowNullOrigin": cfg["allowNullOrigin"], "maxConnections": cfg["maxConnections"], "serveFlashSocketPolicy": cfg["serveFlash"],
                "trustXForwardedFor": cfg["trustXForwardedFor"], "requireMaskedClientFrames": cfg["requireMaskedClientFrames"],
                "perMessageCompressionAccept": cfg["perMessageCompressionAccept"]}
    def vec_client(cfg):
        return {"version": cfg["version"], "perMessageCompressionOffers": ["deflate" if k == "PerMessageDeflateOffer" else k for k in cfg["offer_kinds"]],
                "perMessageCompressionAccept": cfg["perMessageCompressionAccept"], "acceptMaskedServerFrames": cfg["acceptMaskedServerFrames"],
                "maskClientFrames": cfg["maskClientFrames"]}
    terms, idx = [], []
    by_seq = {}
    for (case, meta), x in zip(SC, RS):
        if "driver_error" in x:
            ck.violation("harness/driver_error", x["driver_error"], {"case": case, "tb": x.get("tb")}, found_input=False); continue
        by_seq.setdefault(meta["label"], {})[meta["probe"]] = x["outcome"]
    for role, cases, results, opts, vec in (("server", SC, RS, SERVER_OPTS, vec_server), ("client", CC, RC, CLIENT_OPTS, vec_client)):
        for (case, meta), x in zip(cases, results):
            if "cfg" not in x:
                if "driver_error" in x and role == "client":
                    ck.violation("harness/driver_error", x["driver_error"], {"case": case, "tb": x.get("tb")}, found_input=False)
                continue
            ck.bump(f"{fw}/config/{role}")
            want, got = intended(opts, meta["calls"]), vec(x["cfg"])
            if role == "server" and x["cfg"]["allowNullOrigin_protocol"] != x["cfg"]["allowNullOrigin"]:
                got = dict(got, allowNullOrigin=[x["cfg"]["allowNullOrigin"], x["cfg"]["allowNullOrigin_protocol"]])
            for o in want:
                if got[o] != want[o] and (role, o) not in reported:
                    reported.add((role, o))
                    rep = {"role": role, "framework": fw, "calls": meta["calls"], "sequence": meta["label"], "option": o, "effective": got[o], "configured": want[o],
                           "case": case, "request_latin1": bytes.fromhex(meta["data"]).decode("latin-1")[:400], "outcome": x["outcome"]}
                    if role == "server":
                        rep["probe_outcomes"] = {k: {kk: vv for kk, vv in v.items() if kk in ("kind", "code")} for k, v in by_seq.get(meta["label"], {}).items()}
                    ck.violation(f"config/{role}/{o}", f"[{fw}] {role} factory after setProtocolOptions calls {json.dumps(meta['calls'])} ({meta['label']}): the protocol works with "
                                 f"{o}={got[o]!r}, configured is {want[o]!r} (documented default overridden by the calls in order)", rep, found_input=True)
            if role == "server" and coq and x["outcome"]["kind"] != "weird":
                base = dict(x["cfg"], versions=SERVER_OPTS["versions"][0], webStatus=True, allowedOrigins=[[42]], allowNullOrigin=True, maxConnections=0, serveFlash=False)
                terms.append("{| fc_base := %s; fc_calls := %s; fc_policy := PNone; fc_tables := %s; fc_chunks := %s; fc_expect := %s |}" % (
                    cscfg(base, fw), clist(meta["calls"], cupdate), ctables(x["tables"]), clist(case["chunks"], chex), csout(x["outcome"])))
                idx.append((case, meta, x))
            if role == "client":
                # the request and the verdict the INTENDED options call for
                req = bytes.fromhex(x["request"]).decode("utf8")
                pv = 8 if want["version"] <= 12 else 13
                ok_req = (f"Sec-WebSocket-Version: {pv}\r\n" in req) and (("Sec-WebSocket-Extensions:" in req) == bool(want["perMessageCompressionOffers"]))
                exp = "open" if (not meta["ext"] or want["perMessageCompressionAccept"] == "any") else "failed"
                if (not ok_req or x["outcome"]["kind"] != exp) and (role, "verdict") not in reported:
                    reported.add((role, "verdict"))
                    ck.violation("config/client/verdict", f"[{fw}] client configured by {json.dumps(meta['calls'])}: request / verdict ({x['outcome']['kind']}) differ from what the configured options call for ({exp})",
                                 {"role": "client", "framework": fw, "calls": meta["calls"], "case": case, "request": req[:500], "outcome": x["outcome"]}, found_input=True)
    if terms:
        bad = ck.coq_cases("config_" + fw, IMPORTS, "config_case_ok", terms, ty="config_case", shard=80, timeout=900)
        ck.bump("model_compared/config", len(terms)); ck.evaluations += len(terms)
        seen = set()
        for b in bad:
            case, meta, x = idx[b]
            if meta["probe"] in seen: continue
            seen.add(meta["probe"])
            rep = {"role": "server", "framework": fw, "calls": meta["calls"], "sequence": meta["label"], "case": case,
                   "request_latin1": bytes.fromhex(meta["data"]).decode("latin-1")[:400], "impl": x["outcome"]}
            try:
                rep["model_on_intended_configuration"] = ck.coq_eval(IMPORTS, ["config_case_out " + terms[b]])[0][:600]
            except Exception as ex:
                rep["model_on_intended_configuration"] = str(ex)[-200:]
            ck.violation(f"config/server/verdict/{meta['probe']}", f"[{fw}] after setProtocolOptions calls {json.dumps(meta['calls'])} the server answers the probe '{meta['probe']}' with "
                         f"{x['outcome']['kind']} {x['outcome'].get('code', '')}; the model on the configured options (defaults overridden by the calls in order) says otherwise", rep, found_input=True)
        ck.log(f"[{fw}] configuration plumbing: {len(bad)} of {len(terms)} probe verdicts differ from the model on the intended configuration")


def shard(xs, k):
    return [xs[i::k] for i in range(k)]


def run_drivers(ck, S, Cc, E, prims, wild, multi=(), cfgS=(), cfgC=()):
    """both frameworks, each in its own processes; returns results aligned with S, Cc, E per framework"""
    nshard = 3 if ck.quick() else 7
    out = {}
    jobs = []
    lock = threading.Lock()
    errors = []
    def work(fw, si):
        payload = {"fw": fw, "server": [c for c, _ in S[si::nshard]], "client": [c for c, _ in Cc[si::nshard]],
                   "e2e": [{k: v for k, v in e.items() if k != "meta"} for e in E[si::nshard]],
                   "prims": prims if (si == 0 and fw == "tx") else [], "wild": wild if (si == 0 and fw == "tx") else [],
                   "multi": list(multi) if si == 0 else []}
        if si == 1 % nshard:
            payload["server"] = payload["server"] + [c for c, _ in cfgS]
            payload["client"] = payload["client"] + [c for c, _ in cfgC]
        try:
            r = ck.run_impl("ws_handshake.py", payload, timeout=3000)
        except Exception as e:
            with lock: errors.append((fw, si, e))
            return
        with lock:
            out[(fw, si)] = r
    for fw in ("tx", "aio"):
        for si in range(nshard):
            t = threading.Thread(target=work, args=(fw, si)); t.start(); jobs.append(t)
    for t in jobs: t.join()
    if errors:
        raise errors[0][2]
    res = {}
    for fw in ("tx", "aio"):
        rs, rc, re_ = [None] * len(S), [None] * len(Cc), [None] * len(E)
        for si in range(nshard):
            r = out[(fw, si)]
            nS, nC = len(S[si::nshard]), len(Cc[si::nshard])
            rs[si::nshard] = r["server"][:nS]; rc[si::nshard] = r["client"][:nC]; re_[si::nshard] = r["e2e"]
            if si == 1 % nshard:
                cfg_out = (r["server"][nS:], r["client"][nC:])
        res[fw] = {"server": rs, "client": rc, "e2e": re_, "prims": out[(fw, 0)]["prims"], "wild": out[(fw, 0)]["wild"], "multi": out[(fw, 0)]["multi"],
                   "cfgS": cfg_out[0], "cfgC": cfg_out[1],
                   "protocol_file": out[(fw, 0)]["protocol_file"]}
    return res


# ================================================================ analysis
def resp_headers(hexresp):
    """independent reading of the 101 response the server wrote: status code and (lower-cased) header multimap"""
    head = bytes.fromhex(hexresp).partition(b"\r\n\r\n")[0].decode("utf8")
    lines = head.split("\r\n")
    hs = {}
    for l in lines[1:]:
        k, _, v = l.partition(":")
        hs.setdefault(k.strip().lower(), []).append(v.strip())
    return lines[0], hs


def short(case):
    return {k: case[k] for k in case if k not in ("timeout",)}


def escape_key(role, cls):
    return f"{role}.processHandshake/ESCAPED/{cls}"


def analyse(ck, fw, S, Cc, E, R):
    """property-level oracles on the implementation's observable behaviour (independent of the Gallina model)"""
    # ---- server
    groups = {}
    for (case, meta), x in zip(S, R["server"]):
        if "driver_error" in x:
            ck.violation("harness/driver_error", x["driver_error"], {"case": short(case), "tb": x.get("tb")}, found_input=False); continue
        o = x["outcome"]; k = o["kind"]
        ck.bump(f"{fw}/server/{k}")
        rep = {"role": "server", "framework": fw, "case": short(case), "name": meta["name"], "outcome": o}
        if k == "weird":
            ck.violation(f"server/unclassified-outcome/{o.get('state')}", f"server ended in a shape outside the outcome classes ({meta['name']})", rep, found_input=True)
        if k == "escaped":
            meta.setdefault("escaped", {})[fw] = o["cls"]
        ex = meta.get("expect")
        if ex == "open" and k != "open":
            ck.violation(f"server.processHandshake/REJECTS/{meta['name']}", f"request valid under RFC 6455 4.2.1 and the configuration is not admitted ({k} {o.get('code', '')})", rep, found_input=True)
        if ex in ("reject", "noopen") and k == "open":
            ck.violation(f"server.processHandshake/ACCEPTS/{meta['name']}", "request that must be refused ends OPEN", rep, found_input=True)
        if ex == "nonrfc" and k == "open":
            meta.setdefault("nonrfc_open", {})[fw] = True
        if k == "open" and "key" in meta:
            sl, hs = resp_headers(o["response"])
            acc = hs.get("sec-websocket-accept", [])
            if not sl.startswith("HTTP/1.1 101") or acc != [digest(meta["key"])]:
                ck.violation("server.succeedHandshake/accept-digest", f"101 reply does not carry exactly b64(sha1(key+GUID)) of the request's key ({meta['name']})", rep, found_input=True)
            sp = hs.get("sec-websocket-protocol", [])
            if len(sp) > 1 or (sp and sp[0] not in meta.get("protocols", [])):
                ck.violation("server.succeedHandshake/subprotocol-not-offered", f"reply selects subprotocol {sp} not in the client's list", rep, found_input=True)
            xs = [e.split(";")[0].strip().lower() for v in hs.get("sec-websocket-extensions", []) for e in v.split(",")]
            if any(e not in meta.get("exts", []) for e in xs):
                ck.violation("server.succeedHandshake/extension-not-offered", f"reply carries extensions {xs} the client did not offer", rep, found_input=True)
        if "after_timeout" in x:
            at = x["after_timeout"]
            if at["state"] != "CLOSED" or "abort" not in at["events"] or at["escaped"]:
                ck.violation("server/open-handshake-timeout", "a silent/incomplete handshake is not dropped by the opening-handshake timeout", dict(rep, after=at), found_input=True)
        sig = (k, o.get("code"), json.dumps(o.get("headers")), o.get("response"), json.dumps(o.get("redirect")), json.dumps(o.get("url")), o.get("cls"), o.get("rest"))
        groups.setdefault(meta["group"], []).append((sig, case, meta, o))
    for g, members in groups.items():
        sigs = set(m[0] for m in members)
        if len(sigs) > 1 and not members[0][2].get("flash"):
            a = members[0]; b = next(m for m in members if m[0] != a[0])
            ck.violation("server/segmentation-dependent", f"same octets, different read segmentation, different outcome ({a[3]['kind']} vs {b[3]['kind']})",
                         {"framework": fw, "a": short(a[1]), "b": short(b[1]), "outcome_a": a[3], "outcome_b": b[3]}, found_input=True)
    # ---- client
    groups = {}
    for (case, meta), x in zip(Cc, R["client"]):
        if "driver_error" in x:
            ck.violation("harness/driver_error", x["driver_error"], {"case": short(case), "tb": x.get("tb")}, found_input=False); continue
        o = x["outcome"]; k = o["kind"]
        ck.bump(f"{fw}/client/{k}")
        rep = {"role": "client", "framework": fw, "case": short(case), "name": meta["name"], "outcome": o}
        if k == "weird":
            ck.violation(f"client/unclassified-outcome/{o.get('state')}", f"client ended in a shape outside the outcome classes ({meta['name']})", rep, found_input=True)
        if k == "escaped":
            meta.setdefault("escaped", {})[fw] = o["cls"]
        ex = meta.get("expect")
        if ex == "open" and k != "open":
            ck.violation(f"client.processHandshake/REJECTS/{meta['name']}", f"valid 101 reply is not accepted ({k})", rep, found_input=True)
        if ex in ("reject", "noopen-noescape") and k == "open":
            ck.violation(f"client.processHandshake/ACCEPTS/{meta['name']}", "reply that must be refused ends OPEN", rep, found_input=True)
        if ex == "nonrfc" and k == "open":
            meta.setdefault("nonrfc_open", {})[fw] = True
        if k == "open" and o["proto"] is not None and "".join(map(chr, o["proto"])) not in meta.get("mine", []):
            ck.violation("client.processHandshake/subprotocol-not-requested", "client runs a subprotocol it did not request", rep, found_input=True)
        # the request it wrote: exactly one key header, 24 characters, the base64 of the pinned nonce; request line / Host of the factory
        req = bytes.fromhex(x["request"]).decode("utf8")
        lines = req.split("\r\n")
        cfg = x["cfg"]
        want_key = base64.b64encode(bytes.fromhex(case["nonce"])).decode()
        keys = [l.split(":", 1)[1].strip() for l in lines if l.lower().startswith("sec-websocket-key:")]
        hosts = [l.split(":", 1)[1].strip() for l in lines if l.lower().startswith("host:")]
        res_s = url_target(cfg["url"] or "ws://localhost"); host_s = "".join(map(chr, cfg["host"]))
        if lines[0] != f"GET {res_s} HTTP/1.1" and lines[0] == f"GET {drop_path_params(res_s)} HTTP/1.1":
            ck.violation("client.startHandshake/request-target/path-params-dropped", f"the ';params' of the last path segment of {cfg['url']!r} are missing from the request line {lines[0]!r} "
                         "(parse_url uses urlparse, which splits them off, and never puts them back)", dict(rep, request=req[:300]), found_input=True)
        elif keys != [want_key] or lines[0] != f"GET {res_s} HTTP/1.1" or hosts != [f"{host_s}:{cfg['port']}"] or not req.endswith("\r\n\r\n"):
            ck.violation("client.startHandshake/request-target", "request line / Host / key of the request differ from the factory's URL components and nonce", dict(rep, request=req[:400]), found_input=True)
        if "after_timeout" in x:
            at = x["after_timeout"]
            if at["state"] != "CLOSED" or "abort" not in at["events"] or at["escaped"]:
                ck.violation("client/open-handshake-timeout", "a silent/incomplete handshake is not dropped by the opening-handshake timeout", dict(rep, after=at), found_input=True)
        sig = (k, json.dumps(o.get("proto")), json.dumps(o.get("exts")), o.get("cls"), o.get("rest"))
        groups.setdefault(meta["group"], []).append((sig, case, meta, o))
    for g, members in groups.items():
        sigs = set(m[0] for m in members)
        if len(sigs) > 1:
            a = members[0]; b = next(m for m in members if m[0] != a[0])
            ck.violation("client/segmentation-dependent", f"same octets, different read segmentation, different outcome ({a[3]['kind']} vs {b[3]['kind']})",
                         {"framework": fw, "a": short(a[1]), "b": short(b[1]), "outcome_a": a[3], "outcome_b": b[3]}, found_input=True)
    # ---- end to end
    for e, x in zip(E, R["e2e"]):
        if "driver_error" in x:
            ck.violation("harness/driver_error", x["driver_error"], {"case": {k: v for k, v in e.items() if k != "meta"}, "tb": x.get("tb")}, found_input=False); continue
        so, co = x["server"]["outcome"], x["client"]["outcome"]
        m = e["meta"]
        ck.bump(f"{fw}/e2e/{'compatible' if m['compatible'] else 'incompatible'}/{so['kind']}/{co['kind']}")
        rep = {"role": "e2e", "framework": fw, "case": {k: v for k, v in e.items() if k != "meta"}, "pick": m["pick"], "server": so, "client": co}
        for o in (so, co):
            if o["kind"] == "escaped":
                ck.violation(escape_key("e2e", o["cls"]), "exception escapes during a handshake between the library's own client and server", rep, found_input=True)
        req_line = bytes.fromhex(x["client"]["request"]).split(b"\r\n")[0].decode("utf8")
        if req_line != "GET %s HTTP/1.1" % url_target(m["pick"]["url"]) and req_line != "GET %s HTTP/1.1" % drop_path_params(url_target(m["pick"]["url"])):
            ck.violation("client.startHandshake/request-target", f"request line {req_line!r} does not carry the raw path and query of the URL {m['pick']['url']!r}", rep, found_input=True)
        both = so["kind"] == "open" and co["kind"] == "open"
        if m["compatible"] and not both:
            ck.violation(f"interop/fails/{so['kind']}-{co['kind']}", "the library's own client and server do not complete the handshake under a compatible configuration", rep, found_input=True)
        if not m["compatible"] and co["kind"] == "open" and m["reasons"] == ["origin"] and m["pick"]["cver"] in (11, 12):
            ck.violation("interop/origin-not-checked/spec-versions-11-12", "own client (draft 11/12) announces its origin in 'Origin', own server reads 'Sec-WebSocket-Origin' for protocol version 8: "
                         "an origin outside the allow-list is admitted", rep, found_input=True)
        elif not m["compatible"] and co["kind"] == "open":
            ck.violation("interop/opens-incompatible", "client ends OPEN although the configurations are incompatible", rep, found_input=True)
        if both:
            sp = None if so["proto"] is None else "".join(map(chr, so["proto"]))
            cp = None if co["proto"] is None else "".join(map(chr, co["proto"]))
            cx = ["".join(map(chr, n)) for n in co["exts"]]
            if sp != cp or sp != m["proto"] or cx != x["server_exts"] or cx != ([m["ext"]] if m["ext"] else []):
                ck.violation("interop/negotiation-differs", f"subprotocol/extensions differ between the two ends or from the configured choice (server {sp}/{x['server_exts']}, client {cp}/{cx}, expected {m['proto']}/{m['ext']})", rep, found_input=True)


# ================================================================ escapes: representative + shrink
def shrink_escape(ck, fw, role, case, cls):
    """greedy: drop header lines / merge chunks while the same exception class still escapes"""
    data = b"".join(bytes.fromhex(c) for c in case["chunks"])
    best = dict(case, chunks=[data.hex()])
    best.pop("timeout", None)
    for _ in range(6):
        data = bytes.fromhex(best["chunks"][0])
        head, sep, rest = data.partition(b"\r\n\r\n")
        lines = head.split(b"\r\n")
        cands = []
        for i in range(1, len(lines)):
            cands.append(b"\r\n".join(lines[:i] + lines[i + 1:]) + sep)
        if rest:
            cands.append(head + sep)
        if not cands:
            break
        cs = [dict(best, chunks=[c.hex()]) for c in cands]
        r = ck.run_impl("ws_handshake.py", {"fw": fw, role: cs}, timeout=300)[role]
        ok = [c for c, x in zip(cs, r) if x.get("outcome", {}).get("kind") == "escaped" and x["outcome"]["cls"] == cls]
        if not ok:
            break
        best = min(ok, key=lambda c: len(c["chunks"][0]))
    return best


def report_escapes(ck, S, Cc):
    for role, cases in (("server", S), ("client", Cc)):
        by = {}
        for case, meta in cases:
            for fw, cls in (meta.get("escaped") or {}).items():
                by.setdefault(cls, []).append((len(meta.get("data", "")), meta.get("corpus") and -1 or 0, fw, case, meta))
        for cls, lst in sorted(by.items()):
            lst.sort(key=lambda t: (t[1], t[0]))
            _, _, fw, case, meta = lst[0]
            fws = sorted(set(t[2] for t in lst))
            key = escape_key(role, cls)
            if any(k.get("property") == ck.pid and k.get("status") == "known" and k.get("key") == key for k in ck.known):
                mini = dict(case); mini.pop("timeout", None)
            else:
                try:
                    mini = shrink_escape(ck, fw, role, case, cls)
                except Exception:
                    mini = dict(case)
            ck.bump(f"escaped/{role}/{cls}", len(lst))
            ck.violation(key, f"{cls} propagates out of {'dataReceived/data_received' } during the opening handshake ({role}; frameworks {fws}; {len(lst)} generated inputs; first seen in {meta['name']})",
                         {"role": role, "framework": fw, "case": mini, "octets_latin1": b"".join(bytes.fromhex(c) for c in mini["chunks"]).decode("latin-1")[:600]}, found_input=True)
    for role, cases in (("server", S), ("client", Cc)):
        hits = [(case, meta) for case, meta in cases if meta.get("nonrfc_open")]
        if hits:
            case, meta = min(hits, key=lambda cm: len(cm[1].get("data", "")))
            ck.notes.append(f"{role}: {len(hits)} inputs with a non-RFC integer spelling (e.g. '+13', '1_3', '013') were admitted: int() leniency, modelled by py_int; "
                            f"first: {meta['name']}")
            ck.bump(f"nonrfc-int-admitted/{role}", len(hits))


# ================================================================ model comparison
def model_compare(ck, S, Cc, E, RES):
    """evaluate the Gallina model on a budgeted sample (Coq elaborates ~1 MB of literals per 10 CPU-seconds)"""
    rng = ck.rng("coqsample")
    budget = 1_100_000 if ck.quick() else 12_000_000
    cand = []          # (priority, tiebreak, role, fw, index)
    for fw in ("tx", "aio"):
        for role, cases in (("server", S), ("client", Cc)):
            for i, ((case, meta), x) in enumerate(zip(cases, RES[fw][role])):
                if "outcome" not in x or x["outcome"]["kind"] == "weird" or meta.get("nocoq"):
                    continue
                y = RES["tx"][role][i]
                same = fw == "aio" and all(y.get(k) == x.get(k) for k in ("outcome", "tables", "cfg", "request"))
                nm = meta["name"]
                if meta.get("corpus"): pr = 0
                elif x["outcome"]["kind"] in ("escaped", "stuck", "status", "redirect", "flash"): pr = 1
                elif meta.get("matrix"): pr = 1 if (i % 7 == 0 or "port-0" in nm) else 5
                elif nm.startswith("grammar/") and not meta.get("rich") and len(case["chunks"]) == 1: pr = 1
                elif nm.startswith("flash"): pr = 1
                elif nm == "raw" and meta["seg"] == 0: pr = 3
                elif nm == "raw": pr = 6
                elif len(case["chunks"]) > 1: pr = 3
                else: pr = 4
                if same: pr += 4
                cand.append((pr, rng.random(), role, fw, i))
        for i, (e, x) in enumerate(zip(E, RES[fw]["e2e"])):
            if "server" in x:
                cand.append((2 if fw == "tx" else 6, rng.random(), "e2e", fw, i))
    cand.sort()
    terms_s, idx_s, terms_c, idx_c = [], [], [], []
    used = 0
    for pr, _, role, fw, i in cand:
        if used > budget:
            break
        if role == "e2e":
            x = RES[fw]["e2e"][i]; e = E[i]
            if x["server"]["outcome"]["kind"] != "weird":
                t = server_term(fw, e["server"], x["server"], chunks=x["req_chunks"]); terms_s.append(t); idx_s.append((fw, ("e2e", i))); used += len(t)
            if x["client"]["outcome"]["kind"] != "weird":
                t = client_term(e["client"], x["client"], chunks=x["resp_chunks"]); terms_c.append(t); idx_c.append((fw, ("e2e", i))); used += len(t)
        elif role == "server":
            t = server_term(fw, S[i][0], RES[fw]["server"][i]); terms_s.append(t); idx_s.append((fw, i)); used += len(t)
        else:
            t = client_term(Cc[i][0], RES[fw]["client"][i]); terms_c.append(t); idx_c.append((fw, i)); used += len(t)
    ck.notes.append(f"model comparison sample: {len(terms_s)} server + {len(terms_c)} client cases of {len(cand)} candidates ({used} characters of Coq terms)")
    ck.log(f"model comparison: {len(terms_s)} server cases, {len(terms_c)} client cases")
    bad_s = ck.coq_cases("server", IMPORTS, "server_case_ok", terms_s, ty="server_case", shard=60, timeout=1200)
    bad_c = ck.coq_cases("client", IMPORTS, "client_case_ok", terms_c, ty="client_case", shard=60, timeout=1200)
    ck.bump("model_compared/server", len(terms_s)); ck.bump("model_compared/client", len(terms_c))
    ck.evaluations += len(terms_s) + len(terms_c)
    def describe(role, fw, i):
        if isinstance(i, tuple):
            e = E[i[1]]; x = RES[fw]["e2e"][i[1]][role]
            return {"role": role, "framework": fw, "name": "e2e", "case": dict(e[role], chunks=RES[fw]["e2e"][i[1]]["req_chunks" if role == "server" else "resp_chunks"]), "impl": x["outcome"]}, "e2e"
        case, meta = (S if role == "server" else Cc)[i]
        x = RES[fw][role][i]
        return {"role": role, "framework": fw, "name": meta["name"], "case": short(case), "impl": x["outcome"]}, meta["name"]
    for role, bad, idx, terms, outfn in (("server", bad_s, idx_s, terms_s, "server_case_out"), ("client", bad_c, idx_c, terms_c, "client_case_out")):
        shown = 0
        for b in bad:
            fw, i = idx[b]
            rep, name = describe(role, fw, i)
            fam = "/".join(name.split("/")[:2])
            if shown < 6:
                try:
                    rep["model"] = ck.coq_eval(IMPORTS, [f"{outfn} {terms[b]}"])[0][:1500]
                except Exception as ex:
                    rep["model"] = f"(evaluation failed: {ex})"
                shown += 1
            ck.violation(f"correspondence/{role}/{fam}/{rep['impl']['kind']}", f"Gallina model and implementation disagree ({role}, {fw}, {name}): implementation {rep['impl']['kind']}", rep, found_input=False)
        ck.log(f"model comparison {role}: {len(bad)} disagreements of {len(terms)}")
    return len(bad_s) + len(bad_c)


# ================================================================ entry points
def regenerate(ck):
    gen = os.path.join(vlib.COQ, "Gen")
    rc, out = vlib.sh([vlib.VENV_PY, os.path.join(vlib.ROOT, "translators", "latin1_tables.py"), gen], env=vlib.impl_env(), timeout=300, cwd=vlib.ROOT)
    ck.obligation("translator_latin1_tables+handshake_consts", rc == 0, out[-1500:] if rc else "")
    return rc == 0


def run(ck):
    ck.rule.append("server/client grammar cases: a valid request/response with ONE element removed, duplicated or corrupted (catalogue of ~330 named mutations x plain/rich base "
                   "x whole/random segmentation); arbitrary octet strings <= 64 octets over an alphabet rich in CR/LF/0x85/0x1c-0x1e/NUL/>=0x80, every two-way split and "
                   "octet-at-a-time, fed to both roles; oversized; flash policy; connection limit; origin allow-list x origins (prefix/suffix attacks); end-to-end matrix real client -> "
                   "real server -> real client over versions x subprotocols x policies x origins x offers x accept policies x headers x URLs x segmentations. "
                   "non-trivial = reaches processHandshake with a complete header block; distinct = distinct (role, framework, config, octets, segmentation)")
    ck.extra_tb += [
        "modelled, not verified: CPython str semantics on latin-1 text (strip/split/splitlines/lower/int) - tables regenerated from the interpreter each run and compared on random strings; "
        "Python's re for allowedOrigins wildcards without other regex metacharacters (compared on pattern x origin pairs); txaio callback flavour (Twisted swallows an exception raised in succeedHandshake, asyncio turns it into HTTP 500)",
        "oracles (declared range incl. raising): urllib.parse.urlparse/parse_qs/urlsplit, hyperlink.URL.from_text().to_uri().normalize().to_text(), hashlib.sha1, "
        "the PMCE Offer/Response parsers and accept callbacks (C12), the user's onConnect. The theorems quantify over every behaviour of these functions; in the runs their values are recorded from the "
        "real libraries for exactly the arguments the implementation passed; SHA-1 is additionally computed by a Gallina implementation and compared with hashlib through every Accept digest",
        "finite facts proved by enumeration inside Coq (vm_compute): int(str(p)) = p for all 65536 port numbers and the generated protocol versions; character-class facts of the generated latin-1 tables",
        "not modelled: TLS, proxies (STATE_PROXY_CONNECTING), unix-socket URLs, x-forwarded-for (only sets self.peer), the frame parser that consumes octets following the header block (C01/C02), reason phrases of HTTP errors",
    ]
    S, Cc, E = build_cases(ck)
    prims = prim_inputs(ck.rng("prims"), 25 if ck.quick() else 300) + origin_prims(ck.rng("origin"), 100 if ck.quick() else 2000)
    wild = wild_inputs(ck.rng("wild"), 300 if ck.quick() else 3000)
    ck.log(f"cases: server {len(S)}, client {len(Cc)}, e2e {len(E)}, prims {len(prims)}, wild {len(wild)}")
    MULTI = multi_cases(ck.rng("multi"), 60 if ck.quick() else 600)
    CFGS, CFGC = config_cases(ck)
    # the implementation drivers (python subprocesses) run while Coq rebuilds the proofs
    box = {}
    def drive():
        try:
            box["res"] = run_drivers(ck, S, Cc, E, prims, wild, MULTI, CFGS, CFGC)
        except BaseException as ex:
            box["err"] = ex
    th = threading.Thread(target=drive); th.start()
    regenerate(ck)
    broken = ck.coq_props()
    ok, out = vlib.coq_make(["Model/HandshakeRun.vo"])
    th.join()
    if not ok:
        raise RuntimeError("HandshakeRun build failed: " + out[-1500:])
    if "err" in box:
        raise box["err"]
    RES = box["res"]
    for fw in ("tx", "aio"):
        assert os.path.realpath(RES[fw]["protocol_file"]).startswith(os.path.realpath(vlib.REPO)), RES[fw]["protocol_file"]
        analyse(ck, fw, S, Cc, E, RES[fw])
        analyse_multi(ck, fw, MULTI, RES[fw]["multi"])
        analyse_config(ck, fw, CFGS, CFGC, RES[fw]["cfgS"], RES[fw]["cfgC"], coq=(fw == "tx" or not ck.quick()))
        ck.evaluations += len(CFGS) + len(CFGC)
        ck.evaluations += len(S) + len(Cc) + len(E) + len(MULTI)
    report_escapes(ck, S, Cc)
    # distinct non-trivial cases: complete header block reached processHandshake
    def nontrivial():
        for fw in ("tx", "aio"):
            for (case, meta), x in zip(S, RES[fw]["server"]):
                if x.get("outcome", {}).get("kind") not in (None, "needmore", "weird"):
                    yield ("S", fw, json.dumps(x.get("cfg"), sort_keys=True), json.dumps(case.get("policy")), case.get("accept"), tuple(case["chunks"]) if len(case["chunks"][0]) < 20000 else meta["name"])
            for (case, meta), x in zip(Cc, RES[fw]["client"]):
                if x.get("outcome", {}).get("kind") not in (None, "needmore", "weird"):
                    yield ("C", fw, json.dumps(x.get("cfg"), sort_keys=True), case.get("accept"), tuple(case["chunks"]))
            for e, x in zip(E, RES[fw]["e2e"]):
                if "server" in x:
                    yield ("E", fw, json.dumps(e["meta"]["pick"], sort_keys=True))
    ck.note_cases(0, nontrivial())
    for (case, meta), x in list(zip(S, RES["tx"]["server"]))[:400:97]:
        ck.sample({"role": "server", "name": meta["name"], "octets": bytes.fromhex(meta.get("data", ""))[:200].decode("latin-1"), "outcome": x.get("outcome", {}).get("kind")})
    for e, x in list(zip(E, RES["tx"]["e2e"]))[:2]:
        ck.sample({"role": "e2e", "pick": e["meta"]["pick"], "server": x.get("server", {}).get("outcome", {}).get("kind"), "client": x.get("client", {}).get("outcome", {}).get("kind")})
    # primitives and wildcard matcher against the interpreter
    pt = [prim_term(p) for p in RES["tx"]["prims"]]
    badp = ck.coq_cases("prims", IMPORTS, "prim_case_ok", pt, ty="prim_case", shard=300)
    for b in badp[:5]:
        p = RES["tx"]["prims"][b]
        ck.violation(f"correspondence/primitive/{p[0]}", f"Gallina model of Python's {p[0]} disagrees with the interpreter/library on {p[1][:80]}", {"prim": p}, found_input=False)
    wt = ["(%s,%s,%s)" % (cstr(p), cstr(s), cbool(r)) for p, s, r in RES["tx"]["wild"] if r is not None]
    badw = ck.coq_cases("wild", IMPORTS, "wild_case_ok", wt, ty="wild_case", shard=400)
    wl = [w for w in RES["tx"]["wild"] if w[2] is not None]
    for b in badw[:5]:
        ck.violation("correspondence/wildcard-matcher", f"wild_match disagrees with re.match on pattern {wl[b][0]!r} string {wl[b][1]!r} (python: {wl[b][2]})", {"wild": wl[b]}, found_input=False)
    ck.bump("model_compared/prims", len(pt)); ck.bump("model_compared/wild", len(wt)); ck.evaluations += len(pt) + len(wt)
    ck.log(f"primitives: {len(badp)} of {len(pt)} disagree; wildcard matcher: {len(badw)} of {len(wt)} disagree")
    # multi-connection traces against the factory model
    mt, mi = [], []
    for fw in ("tx", "aio"):
        for case, x in zip(MULTI, RES[fw]["multi"]):
            if "trace" in x and all(t["count"] >= 0 for t in x["trace"]):      # a negative counter is reported by analyse_multi; N has no literal for it
                ops = ";".join("FOpen" if o[0] == "open" else "(FLose %d%%nat)" % o[1] for o in case["ops"])
                exp = ";".join("(%d,[%s])" % (t["count"], ";".join(cbool(st == "OPEN") for st in t["states"])) for t in x["trace"])
                mt.append("(%d,[%s],[%s])" % (case["max"], ops, exp)); mi.append((fw, case))
    badm = ck.coq_cases("multi", IMPORTS, "multi_case_ok", mt, ty="multi_case", shard=400)
    for b in badm[:3]:
        ck.violation("correspondence/multi/connection-limit", f"factory model and implementation disagree on a multi-connection trace ({mi[b][0]})",
                     {"role": "multi", "framework": mi[b][0], "case": mi[b][1]}, found_input=False)
    ck.bump("model_compared/multi", len(mt)); ck.evaluations += len(mt)
    ck.log(f"multi-connection traces: {len(badm)} of {len(mt)} disagree")
    nbad = model_compare(ck, S, Cc, E, RES)
    if broken:
        ck.log(f"proof obligations broken: {broken}")


def replay(path):
    rec = json.load(open(path))
    r = rec.get("replay", rec)
    ck = vlib.Check("C07", "quick", 1)
    if r.get("role") == "e2e" and "case" in r:
        rc = 0
        for fw in ([r["framework"]] if r.get("framework") in ("tx", "aio") else ["tx", "aio"]):
            x = ck.run_impl("ws_handshake.py", {"fw": fw, "e2e": [r["case"]]})["e2e"][0]
            if "server" not in x:
                print(f"[{fw}] driver error:", x.get("driver_error")); rc = 1; continue
            print(f"[{fw}] client request :", b"".join(bytes.fromhex(c) for c in x["req_chunks"])[:600])
            print(f"[{fw}] server outcome :", json.dumps({k: v for k, v in x["server"]["outcome"].items() if k != "response"})[:300])
            print(f"[{fw}] server reply   :", b"".join(bytes.fromhex(c) for c in x["resp_chunks"])[:400])
            print(f"[{fw}] client outcome :", json.dumps(x["client"]["outcome"])[:300])
            ts = server_term(fw, r["case"]["server"], x["server"], chunks=x["req_chunks"])
            tc = client_term(r["case"]["client"], x["client"], chunks=x["resp_chunks"])
            try:
                vals = ck.coq_eval(IMPORTS, ["server_case_ok " + ts, "client_case_ok " + tc])
                print(f"[{fw}] Gallina model agrees (server, client):", vals)
            except Exception as e:
                print("model evaluation failed:", str(e)[-300:])
            if x["server"]["outcome"]["kind"] == "escaped" or x["client"]["outcome"]["kind"] == "escaped":
                rc = 1
        return rc
    if "case" not in r or r.get("role") not in ("server", "client"):
        print(json.dumps(r, indent=1)[:3000]); return 1
    role = r["role"]
    rc = 0
    for fw in ([r["framework"]] if r.get("framework") in ("tx", "aio") else ["tx", "aio"]):
        x = ck.run_impl("ws_handshake.py", {"fw": fw, role: [r["case"]]})[role][0]
        print(f"[{fw}] octets:", b"".join(bytes.fromhex(c) for c in r["case"]["chunks"])[:400])
        print(f"[{fw}] implementation:", json.dumps(x.get("outcome", x))[:600])
        if "outcome" in x and x["outcome"]["kind"] != "weird":
            term = server_term(fw, r["case"], x) if role == "server" else client_term(r["case"], x)
            try:
                vals = ck.coq_eval(IMPORTS, [("server_case_out " if role == "server" else "client_case_out ") + term,
                                             ("server_case_ok " if role == "server" else "client_case_ok ") + term])
                print(f"[{fw}] Gallina model   :", vals[0][:600]); print(f"[{fw}] model agrees    :", vals[1])
            except Exception as e:
                print("model evaluation failed:", str(e)[-500:])
            if x["outcome"]["kind"] == "escaped":
                rc = 1
    return rc
