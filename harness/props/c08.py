"""C08 — untrusted WAMP input is either a valid message or a protocol error (message-schema part).

Proof obligations: coq/Props/C08.v (+ generated coq/Gen/WampShape.v).  Correspondence: every grammar instance
with each node replaced by every boundary value / deleted / extended, wrong lengths, unknown type codes, non-list
top levels -- through Cls.parse and through the real JSON / MsgPack / CBOR serializers -- and arbitrary / mutated
octet strings; outcome classes compared with the Gallina model, and judged by an oracle written from the property
text (never another exception class; never accepts what the text excludes; re-marshal equivalent)."""
import json
import os
import sys

import vlib

sys.path.insert(0, os.path.join(vlib.ROOT, "harness", "impl"))
sys.path.insert(0, os.path.join(vlib.ROOT, "translators"))
import wamp_messages as W  # noqa: E402

IMPORTS = "From AV Require Import Model.WampValue Model.WampSchema Model.WampMsg Model.WampMsgRun."
DEFS = "Open Scope string_scope.\nOpen Scope Z_scope."
VIA = ["json", "msgpack", "cbor"]
PROTO = ("ProtocolError", "InvalidUriError")


def run_impl_chunks(ck, op, cases, nproc=8, timeout=3000):
    """run the implementation driver on slices of the case list in parallel processes; results in order"""
    from concurrent.futures import ThreadPoolExecutor
    if len(cases) < 400:
        nproc = 1
    size = (len(cases) + nproc - 1) // nproc or 1
    parts = [cases[i:i + size] for i in range(0, len(cases), size)] or [[]]
    with ThreadPoolExecutor(max_workers=nproc) as ex:
        outs = list(ex.map(lambda p_: ck.run_impl("wamp_messages.py", {"op": op, "cases": p_}, timeout=timeout), parts))
    res = {"installed": outs[0]["installed"], "results": []}
    for o in outs:
        res["results"] += o["results"]
    return res


def regenerate_shape(ck):
    """translators/schema_shape.py -> coq/Gen/WampShape.v ; a ShapeError leaves a file that cannot compile"""
    import schema_shape
    path = os.path.join(vlib.COQ, "Gen", "WampShape.v")
    try:
        text = schema_shape.generate(vlib.REPO)
        ck.obligation("translator_schema_shape", True)
    except Exception as e:  # fail closed
        ck.obligation("translator_schema_shape", False, f"{type(e).__name__}: {e}")
        import re as _re
        msg = _re.sub(r"[^A-Za-z0-9 _.:,/=\[\]-]", " ", str(e))[:300]
        text = ("(* translator failed closed: %s *)\nFrom Coq Require Import String.\n"
                "Definition gen_shapes_unavailable : True := I.\n" % msg)
    vlib.write_if_changed(path, text)


def report_broken_obligations(ck, broken):
    """Every broken obligation is reported under its own key (baseline findings must not mask it).  For a changed
    shape the differing class / option keys are computed (Coq prints both shapes) and a concrete failing input
    of that class mentioning the option, if the run found one, becomes the replay."""
    import re
    if not broken:
        return
    changed = []          # (cls, [strings that differ], detail)
    tr = next((d for n, ok, d in ck.obligations if n == "translator_schema_shape" and not ok), None)
    if tr:
        m = re.search(r"ShapeError: (\w+):", tr)
        cls = m.group(1) if m else "?"
        strs = re.findall(r"'([A-Za-z_\-]+)'|self\.([a-z_]+)", tr)
        changed.append((cls, sorted({a or b for a, b in strs}), "translator failed closed: " + tr[:400]))
    elif any("shape_agrees" in b for b in broken):
        try:
            vals = ck.coq_eval(IMPORTS + "\nFrom AV Require Import Gen.WampShape.", ["map shape_of schemas", "gen_shapes"])
            recs = []
            for v in vals:
                parts = v.split("{| sh_name :=")[1:]
                recs.append({re.match(r'\s*"(\w+)"', p_).group(1): " ".join(p_.split()) for p_ in parts})
            for cls in sorted(set(recs[0]) | set(recs[1])):
                a, b = recs[0].get(cls, ""), recs[1].get(cls, "")
                if a != b:
                    sa, sb = re.findall(r'"([^"]*)"', a), re.findall(r'"([^"]*)"', b)
                    diff = sorted({x for x in set(sa) | set(sb) if sa.count(x) != sb.count(x)})
                    changed.append((cls, diff, f"model shape: {a[:600]} || source shape: {b[:600]}"))
        except Exception as e:  # noqa
            changed.append(("?", [], f"shape diff unavailable: {e}"))
    for cls, strs, detail in changed:
        hit = None
        for key, what, path, found in ck.viol:
            if not (found and key.startswith(cls)):
                continue
            # attribute only a finding about the element that changed; a structural change (lengths, indices)
            # shows up as a length / round-trip failure
            if (strs and any(x and (f"/{x}/" in key or f"+{x}" in key or f"{x}+" in key) for x in strs)) or \
                    (not strs and ("/length/" in key or "/roundtrip/" in key)):
                hit = (key, path)
                break
        key = f"{cls}/shape-changed/{'+'.join(strs) or 'structure'}"
        if hit:
            rp = json.load(open(hit[1]))["replay"]
            ck.violation(key, f"{cls}: parse/marshal shape in message.py no longer matches the proved schema ({', '.join(strs)}); "
                              f"failing input found by the correspondence run (see {hit[0]})", rp, found_input=True)
        else:
            ck.violation(key, f"{cls}: parse/marshal shape in message.py no longer matches the proved schema ({', '.join(strs)}): {detail[:300]}",
                         {"theorem": "shape_agrees", "class": cls, "detail": detail}, found_input=False)
    reported_details = set()
    for b in broken:
        if "shape_agrees" in b and changed:
            det0 = next((d for n, ok, d in ck.obligations if n == b), "")
            reported_details.add(det0)
            continue
        if b == "translator_schema_shape":
            continue
        if tr and b.endswith(("_constants_agree", "_type_map_agrees", "_binary_flags_agree", "_shape_agrees")):
            continue      # same cause: nothing was generated
        det = next((d for n, ok, d in ck.obligations if n == b), "")
        if det.startswith("property file fails at") and det in reported_details:
            continue      # statements after the first failing one in the file were not reached, not refuted
        reported_details.add(det)
        ck.violation(f"obligation/{b}", f"proof obligation {b} no longer checks: {det[:200]}",
                     {"theorem": b, "detail": det[:1500]}, found_input=False)


# ------------------------------------------------------------------ case generation
def grid_cases(ck):
    """[(cls, variant, where, description, wire list)] single-point mutations of every grammar instance"""
    out = []
    quick = ck.quick()
    for cls in W.CLASSES:
        for vn, w in W.exemplars(cls):
            out.append((cls, vn, "valid", "grammar instance", w))
            for path in W.paths(w):
                if not path or path[0] == 0:
                    continue            # top level / type code: dispatch cases below
                depth = len(path)
                cur = W.get_at(w, path)
                for b in W.BOUNDARY:
                    if type(b) is type(cur) and b == cur:
                        continue
                    if quick and depth > 3 and not any(b == t and type(b) is type(t) for t in (None, -1, 0, 0.0, "", [], {}, "x", 1.5, False)):
                        continue
                    out.append((cls, vn, W.where_of(cls, w, path), f"{'/'.join(map(str, path))} := {W.vrepr(b)}",
                                W.replace_at(w, path, b)))
                parent = W.get_at(w, path[:-1])
                if type(parent) is dict:
                    out.append((cls, vn, W.where_of(cls, w, path), f"{'/'.join(map(str, path))} deleted",
                                W.delete_at(w, path)))
            # unknown / extra keys, appended elements
            for path in W.paths(w):
                node = W.get_at(w, path)
                if type(node) is dict and path:
                    for k, v in (("zzz_unknown", 1), ("x_custom", "c"), ("self", True), ("enc_algo", "cryptobox"),
                                 ("enc_key", "k"), ("match", "prefix")):
                        if k not in node:
                            n2 = dict(node); n2[k] = v
                            out.append((cls, vn, W.where_of(cls, w, path + (k,)), f"{'/'.join(map(str, path))} + {k}",
                                        W.replace_at(w, path, n2)))
                if type(node) is list and path and len(path) >= 2:
                    for b in (None, -1, W.ID_MAX + 1, "x", {"session": -1, "authid": 5, "authrole": None}):
                        out.append((cls, vn, W.where_of(cls, w, path), f"{'/'.join(map(str, path))} append {W.vrepr(b)}",
                                    W.replace_at(w, path, list(node) + [b])))
            # wrong lengths
            for n in range(1, len(w) + 4):
                if n < len(w):
                    out.append((cls, vn, "length", f"truncated to {n}", w[:n]))
                elif n > len(w):
                    for filler in (None, [], {}, b"x", "x", 1):
                        w2 = w + [filler] * (n - len(w))
                        wh = W.where_of(cls, w2, (n - 1,)) if n <= W.max_len(cls) else "length"
                        out.append((cls, vn, wh, f"extended to {n} with {W.vrepr(filler)}", w2))
    # every KNOWN feature flag of every role (names read from role.py by the translator) with every boundary value,
    # plus an unknown feature name: roles.<role>.features.<feature> must be a bool or absent
    for cls, table, head in (("Hello", W.HELLO_ROLES, [1, "realm1"]), ("Welcome", W.WELCOME_ROLES, [2, 7])):
        for role, feats in table.items():
            for f in list(feats) + ["zzz_unknown_feature"]:
                for b in W.BOUNDARY:
                    out.append((cls, "roles", f"roles.{role}.features", f"roles/{role}/features/{f} := {W.vrepr(b)}",
                                head + [{"roles": {role: {"features": {f: b}}}}]))
            out.append((cls, "roles", f"roles.{role}.features", f"roles/{role}: all features True",
                        head + [{"roles": {role: {"features": {f: True for f in feats}}}}]))
    # every URI slot (positional or option) with strings just outside the URI grammar
    BAD_URIS = ["com.myapp.topic1\n", "com.myapp.topic1 ", " com.a", "com.a\t.b", "com.a#b", "com..a", ".com.a", "com.a.", "", "\n"]
    for cls in W.CLASSES:
        sp = W.SPEC[cls]
        vn, w = W.exemplars(cls)[0]
        dpos = next((i + 1 for i, (a, _) in enumerate(sp["pos"]) if a == "DICT"), None)
        slots = [((i + 1,), a) for i, (a, kd) in enumerate(sp["pos"]) if kd in ("uri", "uri_pattern") and i + 1 < len(w)]
        slots += [((dpos, key), key) for key, _, kd in sp["opts"] if kd == "uri" and dpos and type(w[dpos]) is dict and key in w[dpos]]
        for path, name in slots:
            for u in BAD_URIS:
                out.append((cls, vn, name, f"{'/'.join(map(str, path))} := {u!r}", W.replace_at(w, path, u)))
    # several roles in every announced order, each role plain `{}` / `{"features": {}}` / with its own feature set:
    # whatever parse() keeps per role must come from that role's entry alone
    import itertools
    rs = ck.rng("role-orders")
    for cls, table, head in (("Hello", W.HELLO_ROLES, [1, "realm1"]), ("Welcome", W.WELCOME_ROLES, [2, 7])):
        names = list(table)
        orders = [list(p_) for k in range(2, len(names) + 1) for p_ in itertools.permutations(names, k)]
        if quick and len(orders) > 14:
            orders = [o for o in orders if len(o) == 2] + rs.sample([o for o in orders if len(o) > 2], 6)
        for o in orders:
            states = list(itertools.product(range(3), repeat=len(o)))
            if len(o) > 2:
                states = rs.sample(states, 4 if quick else 12)
            for st in states:
                roles = {}
                for r, k in zip(o, st):
                    ph = (names.index(r) + sum(st)) % 3
                    fs = {f: (True, False, None)[(j + ph) % 3] for j, f in enumerate(table[r])}
                    roles[r] = {} if k == 0 else {"features": {}} if k == 1 else {"features": fs}
                out.append((cls, "roles", "roles", "roles " + " > ".join(f"{r}:{'-e+'[k]}" for r, k in zip(o, st)),
                            head + [{"roles": roles}]))
    # the quirks found while reading (always present, named)
    extra = [
        ("Register", "full", "force_reregister", "force_reregister := 1.0", [64, 1, {"force_reregister": 1.0}, "a.b"]),
        ("Register", "full", "match", "bad match and bad procedure", [64, 1, {"match": 5}, 7]),
        ("Register", "full", "procedure", "wildcard with empty component", [64, 1, {"match": "wildcard"}, "a..b"]),
        ("Register", "full", "procedure", "exact with empty component", [64, 1, {}, "a..b"]),
        ("Register", "full", "procedure", "prefix with trailing dot", [64, 1, {"match": "prefix"}, "a.b."]),
        ("Unsubscribed", "full", "subscription", "request != 0 with subscription", [35, 5, {"subscription": 7}]),
        ("Unsubscribed", "full", "subscription", "request 0 subscription 0", [35, 0, {"subscription": 0}]),
        ("Unregistered", "full", "registration", "request != 0 with registration", [67, 5, {"registration": 7}]),
        ("Publish", "args", "payload|args", "bytes args with empty kwargs", [16, 1, {}, "a.b", b"x", {}]),
        ("Publish", "args", "payload|args", "str args", [16, 1, {}, "a.b", "s", {"k": 1}]),
        ("Publish", "args", "kwargs", "str kwargs", [16, 1, {}, "a.b", [], "str"]),
        ("Publish", "payload", "payload|args", "str payload", [16, 1, {}, "a.b", "x"]),
        ("Call", "payload", "payload|args", "str payload", [48, 1, {}, "a.b", "x"]),
        ("Result", "payload", "payload|args", "str payload", [50, 1, {}, "x"]),
        ("Event", "payload", "enc_*", "enc_key without enc_algo", [36, 1, 2, {"enc_key": "k"}, b"x"]),
        ("Event", "payload", "payload|args", "empty payload with enc_algo", [36, 1, 2, {"enc_algo": "cryptobox"}, b""]),
        ("Event", "payload", "enc_*", "custom enc_algo", [36, 1, 2, {"enc_algo": "x_my1"}, b"x"]),
        ("Event", "payload", "enc_*", "bad custom enc_algo", [36, 1, 2, {"enc_algo": "x_A"}, b"x"]),
        ("Hello", "full", "roles/features", "feature key self", [1, "realm1", {"roles": {"caller": {"features": {"self": True}}}}]),
        ("Hello", "full", "roles", "unknown feature + None feature", [1, "realm1", {"roles": {"caller": {"features": {"zzz": 5, "call_timeout": None}}}}]),
        ("Hello", "full", "realm", "realm None", [1, None, {"roles": {"caller": {}}}]),
        ("Hello", "full", "resume-token", "resume-session without token", [1, "realm1", {"roles": {"caller": {}}, "resume-session": 5}]),
        ("Hello", "full", "resume-token", "resume-session 0 without token", [1, "realm1", {"roles": {"caller": {}}, "resume-session": 0}]),
        ("Welcome", "full", "authmethod", "authmethod without authrole", [2, 1, {"roles": {"broker": {}}, "authmethod": "anonymous"}]),
        ("Welcome", "full", "authrole", "authrole without authmethod", [2, 1, {"roles": {"broker": {}}, "authrole": "a"}]),
        ("Welcome", "full", "resume_token", "resumable without token", [2, 1, {"roles": {"broker": {}}, "resumable": True}]),
        ("Welcome", "full", "resumed", "falsy flags", [2, 1, {"roles": {"broker": {}}, "x_foo": 1, "resumed": False}]),
        ("Call", "args_kwargs", "kwargs", "empty args and kwargs", [48, 1, {}, "a.b", [], {}]),
        ("Call", "args_kwargs", "kwargs", "bytes key in kwargs", [48, 1, {}, "a.b", [], {b"k": 1}]),
        ("Event", "none", "publisher", "publisher 2**60", [36, 1, 2, {"publisher": 2 ** 60}]),
        ("Event", "none", "forward_for", "forward_for authid None", [36, 1, 2, {"forward_for": [{"session": 1, "authid": None, "authrole": "r"}]}]),
        ("Unregister", "full", "forward_for", "forward_for [1,2]", [66, 1, 2, {"forward_for": [1, 2]}]),
    ]
    return out + extra


def dispatch_cases():
    """raw structures for Serializer.unserialize: non-list top level, empty, non-int / unknown type codes"""
    out = [("toplevel", f"raw := {W.vrepr(b)}", b) for b in W.BOUNDARY]
    for t in (0, 7, 9, 10, 15, 18, 31, 37, 47, 51, 63, 71, 100, 336, 338, -1, W.ID_MAX, W.ID_MAX + 1,
              True, False, "1", 1.0, None, [1], {}, b"\x01"):
        out.append(("type", f"type code {W.vrepr(t)}", [t]))
        out.append(("type", f"type code {W.vrepr(t)} + 2 ids", [t, 1, 2]))
    for cls in W.CLASSES:
        code = W.SPEC[cls]["code"]
        out.append(("length", f"{cls}: type code only", [code]))
        w = W.exemplars(cls)[0][1]
        out.append(("type", f"{cls} body under type code True", [True] + w[1:]))
        out.append(("type", f"{cls} body under float type code", [float(code)] + w[1:]))
    return out


def mutate_bytes(rng, data):
    data = bytearray(data)
    k = rng.randint(0, 5)
    if not data:
        return bytes(rng.getrandbits(8) for _ in range(rng.randint(0, 6)))
    if k == 0:
        i = rng.randrange(len(data)); data[i] ^= 1 << rng.randrange(8)
    elif k == 1:
        del data[rng.randrange(len(data)):]
    elif k == 2:
        i = rng.randrange(len(data) + 1); data[i:i] = bytes(rng.getrandbits(8) for _ in range(rng.randint(1, 4)))
    elif k == 3:
        i = rng.randrange(len(data)); data[i] = rng.choice([0, 0x18, 0x7f, 0x80, 0xff, 0xc0, 0xf6, 0x9f, 0xbf, 0xa0])
    elif k == 4:
        i = rng.randrange(len(data)); j = rng.randrange(i, len(data)); del data[i:j]
    else:
        i = rng.randrange(len(data)); j = rng.randrange(i, len(data)); data[i:i] = data[i:j]
    return bytes(data)


# ------------------------------------------------------------------ judging
def norm_attr(v):
    """absent == default == empty for the reparse idempotence oracle"""
    return None if v in ("", False, [], {}, b"", (), "exact", "single") else v


def judge_parse(ck, cls, where, desc, w, out, origin):
    """property-text oracle on one implementation outcome; returns the outcome class"""
    if out["k"] == "exc":
        if out["cls"] in PROTO:
            return out["cls"]
        ck.violation(f"{cls}.parse/{where}/{out['cls']}",
                     f"{cls}.parse raises {out['cls']} (not a protocol-level error) when '{where}' is malformed: {desc}",
                     {"cls": cls, "w": W.enc(w), "via": origin, "outcome": out["cls"], "desc": desc}, found_input=True)
        return "Other(" + out["cls"] + ")"
    for what, kind in W.conformance_violations(cls, w):
        ck.violation(f"{cls}.parse/{what}/accepts-{kind}",
                     f"{cls}.parse accepts a message whose '{what}' is not a valid {kind}: {desc}",
                     {"cls": cls, "w": W.enc(w), "via": origin, "outcome": "Ok", "desc": desc}, found_input=True)
    # the object reflects the input, field by field and -- for repeated sub-structures -- entry by entry
    for attr, exp, got in W.reflect_violations(cls, w, {n: W.dec(v) for n, v in out["attrs"]}):
        ck.violation(f"{cls}.parse/{attr}/not-reflected",
                     f"{cls}.parse: attribute '{attr}' of the accepted message is {W.vrepr(got)}, the input says {W.vrepr(exp)} ({desc})",
                     {"cls": cls, "w": W.enc(w), "via": origin, "attr": attr, "desc": desc}, found_input=True)
    # re-marshal equivalence: parse(marshal(obj)) must reproduce obj (absent == default)
    if "re_exc" in out:
        ck.violation(f"{cls}.marshal/{where}/reparse-{out['re_exc']}",
                     f"{cls}: the re-marshalled form of an accepted message is rejected with {out['re_exc']}: {desc}",
                     {"cls": cls, "w": W.enc(w), "via": origin, "desc": desc}, found_input=True)
    elif "re" in out:
        a = {n: norm_attr(W.dec(v)) for n, v in out["attrs"]}
        b = {n: norm_attr(W.dec(v)) for n, v in out["re"]}
        for n in a:
            if a[n] != b.get(n):
                kn = "enc_*" if n.startswith("enc_") else n
                ck.violation(f"{cls}.marshal/{kn}/not-equivalent",
                             f"{cls}: attribute '{n}' of an accepted message is not reproduced by parse(marshal()): "
                             f"{W.vrepr(a[n])} -> {W.vrepr(b.get(n))} ({desc})",
                             {"cls": cls, "w": W.enc(w), "via": origin, "attr": n, "desc": desc}, found_input=True)
    return "Ok"


def outcome_class(out):
    if out["k"] == "ok":
        return "Ok"
    return out["cls"] if out["cls"] in PROTO else "Other(" + out["cls"] + ")"


def run(ck):
    ck.rule.append("grammar instance of each of the 25 classes (payload classes x 5 payload shapes) with every node "
                   "(position, option, nested element) replaced by each of 19 boundary values, deleted, extended; wrong "
                   "lengths; unknown/non-int type codes; non-list top level; each through Cls.parse and the real JSON, "
                   "MsgPack, CBOR serializers; random and mutated octet strings per serializer (batched and not). "
                   "non-trivial = passed the envelope checks (reached Cls.parse); distinct = distinct wire structure")
    ck.extra_tb += [
        "modelled, not verified: CPython type()/truthiness/== on decoded values as mirrored by Model/WampValue.v; "
        "json / msgpack / cbor2 decoders are oracles (the model starts at the decoded structure)",
        "URI / custom-attribute validators are Section variables in the theorems; the executable instance in "
        "Model/WampMsgRun.v is a plain ASCII grammar used only inside the ASCII core (C08Uri covers the regexes)",
        "translator translators/schema_shape.py (AST of message.py, serializer.py, role.py) is trusted to emit what it reads",
        "oracle assumptions: harness/impl/wamp_messages.py SPEC table (field kinds per class) written from the WAMP spec "
        "and the property text",
    ]
    regenerate_shape(ck)
    # the role / feature names the grid and the oracle use are the ones role.py has now (fail closed)
    try:
        import schema_shape
        hr, wr = schema_shape.role_tables(vlib.REPO)
        same = dict(hr) == W.HELLO_ROLES and dict(wr) == W.WELCOME_ROLES
        ck.obligation("role_tables_agree", same, "" if same else f"role.py now has {hr} / {wr}; harness SPEC table differs")
    except Exception as e:  # noqa
        ck.obligation("role_tables_agree", False, f"{type(e).__name__}: {e}")
    broken = ck.coq_props()
    ok, out = vlib.coq_make(["Model/WampMsgRun.vo"])
    if not ok:
        raise RuntimeError("WampMsgRun build failed: " + out[-1500:])

    # ---------- 1. parse grid
    grid = grid_cases(ck)
    corpus_dir = os.path.join(vlib.ROOT, "corpus", "C08")
    corpus = []
    if os.path.isdir(corpus_dir):
        for fn in sorted(os.listdir(corpus_dir)):
            if not fn.startswith("msg-"):
                continue          # other files in corpus/C08 belong to the URI part (props/c08uri.py)
            c = json.load(open(os.path.join(corpus_dir, fn)))
            corpus.append((c["cls"], "corpus", c["where"], c.get("desc", fn), W.dec(c["w"])))
    grid = corpus + grid
    r = run_impl_chunks(ck, "parse", [{"cls": c, "w": W.enc(w), "via": VIA} for c, _, _, _, w in grid])
    if not r["installed"]["ubjson"]:
        ck.notes.append("UBJSON not installed (bjdata import broken in this sandbox): serializer skipped")
    coq_cases, coq_meta = [], []
    for (cls, vn, where, desc, w), res in zip(grid, r["results"]):
        d = res["direct"]
        oc = judge_parse(ck, cls, where, desc, w, d, "direct")
        ck.bump("parse:" + oc)
        ck.bump("class:" + cls)
        ck.evaluations += 1
        coq_cases.append("(%s, %s, %s)" % (W.coq_string(cls), W.coq_list(w), W.coq_expect(d)))
        coq_meta.append((cls, where, desc, w, oc))
        for sn in VIA:
            s = res.get(sn)
            if not s or s["k"] == "skip":
                ck.bump(f"via-{sn}:skipped")
                continue
            ck.evaluations += 1
            soc = outcome_class(s)
            if soc != oc:
                raw = W.dec(s["raw"]) if "raw" in s else None
                if raw is not None and W.enc(raw) != W.enc(w):
                    # the serializer legitimately changed the structure (not expected inside this grid)
                    ck.bump(f"via-{sn}:structure-changed")
                    judge_parse(ck, cls, where, desc + f" (via {sn})", raw, s, sn)
                    coq_cases.append("(%s, %s, %s)" % (W.coq_string(cls), W.coq_list(raw), W.coq_expect(s)))
                    coq_meta.append((cls, where, desc + f" via {sn}", raw, soc))
                else:
                    ck.violation(f"{cls}/{where}/serializer-{sn}-differs",
                                 f"{cls}: outcome through the {sn} serializer ({soc}) differs from Cls.parse ({oc}): {desc}",
                                 {"cls": cls, "w": W.enc(w), "via": sn}, found_input=True)
    ck.note_cases(0, (json.dumps(W.enc(w)) for _, _, _, w, oc in coq_meta))
    for m in coq_meta[:2] + coq_meta[len(coq_meta) // 2: len(coq_meta) // 2 + 2]:
        ck.sample({"cls": m[0], "where": m[1], "desc": m[2], "outcome": m[4]})
    ck.log(f"parse grid: {len(grid)} structures x (direct + {len(VIA)} serializers)")
    if ck.quick():
        # quick tier: the model re-evaluates a stratified sample (every (class, mutated element, outcome) stratum is
        # represented, named cases and corpus always); the thorough tier re-evaluates every case
        budget = int(os.environ.get("AV_C08_QUICK_MODEL_CASES", "3600"))
        strata = {}
        for i, m in enumerate(coq_meta):
            strata.setdefault((m[0], m[1], m[4]), []).append(i)
        rs = ck.rng("model-sample")
        pick = set()
        per = 3
        for k, idx in sorted(strata.items()):
            pick.update(idx if len(idx) <= per else rs.sample(idx, per))
        rest = [i for i in range(len(coq_meta)) if i not in pick]
        if len(pick) < budget and rest:
            pick.update(rs.sample(rest, min(len(rest), budget - len(pick))))
        pick = sorted(pick)
        ck.log(f"quick tier: model re-evaluates {len(pick)} of {len(coq_meta)} cases ({len(strata)} strata)")
        coq_cases = [coq_cases[i] for i in pick]
        coq_meta = [coq_meta[i] for i in pick]
    bad = ck.coq_cases("parse", IMPORTS, "parse_case_ok", coq_cases, ty="msg_case", defs=DEFS, shard=120 if ck.quick() else 300)
    ck.bump("model_compared_parse", len(coq_cases))
    ck.log(f"model comparison (parse): {len(coq_cases)} cases, {len(bad)} disagreements")
    groups = {}
    for i in bad:
        cls, where, desc, w, oc = coq_meta[i]
        groups.setdefault((cls, oc), []).append(i)
    for (cls, oc), idx in sorted(groups.items()):
        cls, where, desc, w, oc = coq_meta[idx[0]]
        wheres = sorted({coq_meta[i][1] for i in idx})
        key = f"{cls}/model-disagrees/{oc}" if len(wheres) > 1 else f"{cls}/{wheres[0]}/model-disagrees/{oc}"
        try:
            mv = ck.coq_eval(IMPORTS + "\n" + DEFS, [
                "match find_schema_by_name schemas %s with Some s => match parse_i s %s with Ok m => (None, msg_attrs s m, marshal s m) | Raise e => (Some e, [], []) end | None => (None, [], []) end"
                % (W.coq_string(cls), W.coq_list(w))])[0][:600] if len(groups) <= 6 else "(not evaluated)"
        except Exception as e:  # noqa
            mv = f"(coq_eval failed: {e})"
        ck.violation(key, f"implementation ({oc}) and Gallina model disagree on {len(idx)} {cls} cases (mutated: {', '.join(wheres[:12])}); "
                          f"first: {desc}; model: {mv}",
                     {"cls": cls, "w": W.enc(w), "impl": oc, "model": mv, "correspondence": "parse_case_ok", "mutated": wheres}, found_input=False)

    # ---------- 2. dispatch (envelope) cases
    disp = dispatch_cases()
    payload = {"op": "parse", "cases": [{"w": W.enc(w), "via": VIA} for _, _, w in disp]}
    r = ck.run_impl("wamp_messages.py", payload, timeout=600)
    coq_cases, coq_meta = [], []
    for (where, desc, w), res in zip(disp, r["results"]):
        for sn in VIA:
            s = res.get(sn)
            if not s or s["k"] == "skip":
                continue
            ck.evaluations += 1
            raw = W.dec(s["raw"]) if "raw" in s else w
            oc = outcome_class(s)
            ck.bump("dispatch:" + oc)
            if oc.startswith("Other"):
                ck.violation(f"Serializer.unserialize/{where}/{s['cls']}",
                             f"Serializer.unserialize raises {s['cls']} on {desc}", {"w": W.enc(w), "via": sn}, found_input=True)
            elif oc == "Ok":
                cls = s["cls"]
                judge_parse(ck, cls, where, desc, raw, s, sn)
            coq_cases.append("(%s, %s)" % (W.to_coq(raw), W.coq_expect(s)))
            coq_meta.append((where, desc, raw, oc, sn))
    bad = ck.coq_cases("dispatch", IMPORTS, "unser_case_ok", coq_cases, ty="unser_case", defs=DEFS, shard=60)
    ck.bump("model_compared_dispatch", len(coq_cases))
    ck.log(f"model comparison (dispatch): {len(coq_cases)} cases, {len(bad)} disagreements")
    for i in bad[:5]:
        where, desc, raw, oc, sn = coq_meta[i]
        ck.violation(f"Serializer.unserialize/{where}/model-disagrees/{oc}",
                     f"implementation ({oc}) and model disagree on the envelope: {desc} via {sn}",
                     {"w": W.enc(raw), "via": sn, "correspondence": "unser_case_ok"}, found_input=False)

    # ---------- 3. arbitrary and mutated octet strings
    rng = ck.rng("octets")
    n_rand, n_mut = (1500, 4500) if ck.quick() else (20000, 120000)
    seeds = []
    payload = {"op": "parse", "cases": [{"w": W.enc(w), "via": []} for c in W.CLASSES for _, w in W.exemplars(c)]}
    # valid serialized messages to mutate: produced by the harness's own json/msgpack/cbor2 (same libraries)
    import cbor2, msgpack, base64  # noqa
    def ser_bytes(sn, w, batched):
        if sn == "json":
            class E(json.JSONEncoder):
                def default(self, o):
                    if isinstance(o, bytes):
                        return "\x00" + base64.b64encode(o).decode("ascii")
                    return json.JSONEncoder.default(self, o)
            b = json.dumps(w, separators=(",", ":"), ensure_ascii=False, cls=E).encode("utf8")
            return b + b"\x18" if batched else b
        b = msgpack.packb(w, use_bin_type=True) if sn == "msgpack" else cbor2.dumps(w)
        return len(b).to_bytes(4, "big") + b if batched else b
    valid = [(sn, batched, ser_bytes(sn, w, batched)) for c in W.CLASSES for _, w in W.exemplars(c)
             for sn in VIA for batched in (False, True)]
    cases = []
    for _ in range(n_rand):
        sn = rng.choice(VIA); batched = rng.random() < 0.5
        n = rng.choice([0, 1, 2, 3, 4, 5, 8, 16, 40])
        cases.append({"ser": sn, "batched": batched, "hex": bytes(rng.getrandbits(8) for _ in range(n)).hex(), "kind": "random"})
    for _ in range(n_mut):
        sn, batched, data = rng.choice(valid)
        if batched and rng.random() < 0.3:
            data = data + rng.choice(valid_by(valid, sn, True))
        for _ in range(rng.randint(1, 3)):
            data = mutate_bytes(rng, data)
        cases.append({"ser": sn, "batched": batched, "hex": data.hex(), "kind": "mutated"})
    for sn, batched, data in valid:
        cases.append({"ser": sn, "batched": batched, "hex": data.hex(), "kind": "valid"})
        if batched:
            cases.append({"ser": sn, "batched": True, "hex": (data + data).hex(), "kind": "valid-batch2"})
    r = run_impl_chunks(ck, "octets", cases)
    coq_cases, coq_meta, bcases, bmeta = [], [], [], []
    for c, res in zip(cases, r["results"]):
        ck.evaluations += 1
        oc = "Ok" if res["k"] == "ok" else (res["cls"] if res["cls"] in PROTO else "Other(" + res["cls"] + ")")
        ck.bump(f"octets:{c['kind']}:{oc}")
        decoded = "raws" in res
        if oc.startswith("Other"):
            # attribute to the raw message whose parse raised (the real dispatch was run on each raw separately) and,
            # through the conformance oracle, to the element that is malformed: same key as the grid finding
            key = f"Serializer.unserialize/{c['ser']}/octets/{res['cls']}"
            if decoded and "per_raw" in res:
                for raw_e, pr in zip(res["raws"], res["per_raw"]):
                    if pr["k"] == "exc" and pr["cls"] == res["cls"]:
                        raw = W.dec(raw_e)
                        if type(raw) is list and raw and type(raw[0]) is int and raw[0] in W.CODE2CLS:
                            rc = W.CODE2CLS[raw[0]]
                            bad_el = W.conformance_violations(rc, raw)
                            wh = bad_el[0][0] if bad_el else "octets"
                            wh = "enc_*" if wh.startswith("enc_") else wh
                            key = f"{rc}.parse/{wh}/{res['cls']}"
                        break
            ck.violation(key, f"{c['ser']} Serializer.unserialize raises {res['cls']} on a {c['kind']} octet string",
                         {"ser": c["ser"], "batched": c["batched"], "hex": c["hex"], "outcome": res["cls"]}, found_input=True)
        if decoded:
            ck.note_cases(0, [c["hex"]])
            raws = [W.dec(x) for x in res["raws"]]
            # model on every decoded raw message (the real dispatch was run on each of them separately)
            if len(raws) <= 3 and len(coq_cases) < (1200 if ck.quick() else 30000):
                stop = False
                for raw, pr in zip(raws, res["per_raw"]):
                    coq_cases.append("(%s, %s)" % (W.to_coq(raw), W.coq_expect(pr)))
                    coq_meta.append((c, raw, outcome_class(pr)))
                # the whole batch: the first raw message that raises decides; all Ok otherwise
                ocs = [outcome_class(pr) for pr in res["per_raw"]]
                first_bad = next((o for o in ocs if o != "Ok"), "Ok")
                if first_bad != oc:
                    ck.violation(f"Serializer.unserialize/{c['ser']}/batch-order",
                                 f"outcome of a batch ({oc}) is not that of its first failing message ({first_bad})",
                                 {"ser": c["ser"], "batched": c["batched"], "hex": c["hex"]}, found_input=True)
        # batching framing: the model splits the same octets into the same chunks
        if c["batched"] and len(c["hex"]) <= 400 and len(bcases) < (800 if ck.quick() else 6000):
            data = bytes.fromhex(c["hex"])
            exp = split_oracle(c["ser"], data)
            bcases.append("(%d, [%s], %s)" % (0 if c["ser"] == "json" else 1, ";".join(str(b) for b in data),
                                              "None" if exp is None else "(Some [" + ";".join("[" + ";".join(str(b) for b in ch) + "]" for ch in exp) + "])"))
            bmeta.append(c)
    bad = ck.coq_cases("octets", IMPORTS, "unser_case_ok", coq_cases, ty="unser_case", defs=DEFS, shard=80 if ck.quick() else 300)
    ck.bump("model_compared_octets", len(coq_cases))
    ck.log(f"octets: {len(cases)} strings; model comparison on {len(coq_cases)} decoded structures, {len(bad)} disagreements")
    for i in bad[:5]:
        c, raw, oc = coq_meta[i]
        ck.violation(f"Serializer.unserialize/{c['ser']}/octets/model-disagrees/{oc}",
                     f"implementation ({oc}) and model disagree on a decoded {c['kind']} octet string",
                     {"ser": c["ser"], "batched": c["batched"], "hex": c["hex"], "correspondence": "unser_case_ok"}, found_input=False)
    badb = ck.coq_cases("framing", IMPORTS, "batch_case_ok", bcases, ty="batch_case", defs=DEFS, shard=100)
    ck.bump("model_compared_framing", len(bcases))
    ck.log(f"batch framing: {len(bcases)} octet strings split by the model, {len(badb)} disagreements")
    for i in badb[:3]:
        c = bmeta[i]
        ck.violation(f"batching/{c['ser']}/model-disagrees", "batch framing model and reference splitter disagree",
                     {"ser": c["ser"], "hex": c["hex"], "correspondence": "batch_case_ok"}, found_input=False)

    # ---------- 4. URI part (owned by b-wampuri)
    if os.environ.get("AV_C08_SKIP_URI"):
        ck.notes.append("AV_C08_SKIP_URI set: URI regex part (props/c08uri.py) not run in this invocation")
    else:
        try:
            from props import c08uri
            c08uri.run_part(ck)
        except ImportError:
            ck.notes.append("props/c08uri.py not present: URI regex part not run here")
    if broken:
        ck.log(f"broken obligations: {broken}")
        report_broken_obligations(ck, broken)


def valid_by(valid, sn, batched):
    return [d for s, b, d in valid if s == sn and b == batched]


def split_oracle(sn, data):
    """reference batch splitter written from the serializer.py text: list of chunks or None (format error)"""
    if sn == "json":
        chunks = data.split(b"\x18")[:-1]
        return None if not chunks else chunks
    out, i, n = [], 0, len(data)
    while i < n:
        if i + 4 > n:
            return None
        l = int.from_bytes(data[i:i + 4], "big")
        if i + 4 + l > n:
            return None
        out.append(data[i + 4:i + 4 + l]); i += 4 + l
    return out


def replay(path):
    r = json.load(open(path))
    rp = r["replay"]
    ck = vlib.Check("C08", "quick", 1)
    if "hex" in rp:
        res = ck.run_impl("wamp_messages.py", {"op": "octets", "cases": [{"ser": rp["ser"], "batched": rp["batched"], "hex": rp["hex"]}]})["results"][0]
        print("octets:", rp["ser"], "batched" if rp["batched"] else "", rp["hex"])
        print("implementation:", res["k"], res.get("cls", ""), res.get("msg", ""))
        if "raws" in res:
            raws = [W.dec(x) for x in res["raws"]]
            print("decoded:", raws)
            vals = ck.coq_eval(IMPORTS + "\n" + DEFS, ["match unserialize1_i %s with Ok (t, _) => (Some t, None) | Raise e => (None, Some e) end" % W.to_coq(x) for x in raws])
            print("model (per raw message):", vals)
        return 0 if res["k"] == "ok" or res.get("cls") in PROTO else 1
    w = W.dec(rp["w"])
    cls = rp.get("cls")
    res = ck.run_impl("wamp_messages.py", {"op": "parse", "cases": [{"cls": cls, "w": rp["w"], "via": VIA}]})["results"][0]
    print("input:", cls, w)
    for k, v in res.items():
        print(f"implementation [{k}]:", v.get("k"), v.get("cls", ""), v.get("msg", ""), (W.dec(v["rem"]) if "rem" in v else ""))
    if cls:
        vals = ck.coq_eval(IMPORTS + "\n" + DEFS, [
            "match find_schema_by_name schemas %s with Some s => match parse_i s %s with Ok m => (None, marshal s m) | Raise e => (Some e, []) end | None => (None, []) end"
            % (W.coq_string(cls), W.coq_list(w))])
        print("Gallina model:", vals[0][:800])
    d = res.get("direct") or next(iter(res.values()))
    return 0 if (d["k"] == "ok" and not W.conformance_violations(d["cls"], w)) or d.get("cls") in PROTO else 1
