"""C09 - UTF-8 validation equals RFC 3629, incrementally and in both implementations."""
import glob, json, os, re, sys
from collections import deque
from concurrent.futures import ThreadPoolExecutor
import vlib

sys.path.insert(0, os.path.join(vlib.ROOT, "translators"))
import utf8_table  # noqa: E402

IMPORTS = "From AV Require Import Model.Utf8 Model.Utf8Run."
GEN_FILES = ("Utf8TablePy.v", "Utf8TableC.v", "Utf8Unrolled.v")
IMPL_NAME = {0: "pure-Python Utf8Validator", 5: "NVX Utf8Validator (as constructed)", 1: "NVX set_impl(1) table",
             2: "NVX set_impl(2) unrolled", 3: "NVX set_impl(3) 'SSE2' (dispatches to the table loop)",
             4: "NVX set_impl(4) 'SSE4.1' (dispatches to the table loop)"}


def nlist(bs):
    return "[" + ";".join(str(b) for b in bs) + "]"


def coq_results(rs):
    return "[" + ";".join("(%s,%s,%d,%d)" % ("true" if r[0] else "false", "true" if r[1] else "false", r[2], r[3])
                          for r in rs) + "]"


def coq_case(s):
    chunks = [bytes.fromhex(c) for c in s["chunks"]]
    return "(%d, [%s], %s)" % (s["impl"], ";".join(nlist(c) for c in chunks), coq_results(s["got"]))


def plan(ck):
    seed = f"{ck.seed}/C09"
    if ck.quick():
        tasks = [dict(kind="transitions", samples=150),
                 dict(kind="short", maxlen=2, modes=["bytewise", "splits"], procs=16, samples=250),
                 dict(kind="mixtures", count=20000, maxlen=4096, procs=16, samples=350),
                 dict(kind="splits", count=300, maxlen=64, procs=16, samples=80)]
    else:
        tasks = [dict(kind="transitions", samples=250),
                 dict(kind="short", maxlen=2, modes=["bytewise", "splits"], procs=16, samples=500),
                 dict(kind="short", maxlen=3, modes=["bytewise"], procs=16, samples=700, label="short3"),
                 dict(kind="mixtures", count=1000000, maxlen=4096, procs=16, samples=800),
                 dict(kind="splits", count=20000, maxlen=64, procs=16, samples=300)]
    for t in tasks:
        t["seed"] = seed
    return tasks


def corpus_cases():
    out = []
    for f in sorted(glob.glob(os.path.join(vlib.ROOT, "corpus", "C09", "*.json"))):
        d = json.load(open(f))
        for c in (d if isinstance(d, list) else [d]):
            out.append({"chunks": c["chunks"], "name": c.get("name", os.path.basename(f))})
    return out


# ---------------------------------------------------------------- verdicts from oracle mismatches
def describe(fam, phase, comp, only_empty, ex):
    got, exp = ex["got"][ex["call"]], ex["expected"][ex["call"]]
    where = ("a call made after an earlier call already had to report invalid" if phase == "after-reject"
             else "the first call that has to report on this input")
    q = " (only seen for EMPTY chunks)" if only_empty else ""
    return (f"{fam}: validate() result differs from CPython's strict UTF-8 codec in component '{comp}' on {where}{q}: "
            f"chunks={ex['chunks']} call #{ex['call']} returned {tuple(got)} expected {tuple(exp)}")


def report_mismatches(ck, groups):
    """groups: (fam, phase, comp) -> {"count", "empty", "nonempty", "examples"}"""
    for (fam, phase, comp), g in sorted(groups.items()):
        only_empty = g["nonempty"] == 0
        key = f"{fam}/{phase}/" + ("empty-chunk/" if only_empty else "") + comp
        # representative: the smallest input, preferring a non-empty offending chunk when there is one
        ex = sorted(g["examples"], key=lambda e: (len(e["chunks"][e["call"]]) == 0 and not only_empty, e["size"]))[0]
        ck.bump(f"oracle_mismatch[{key}]", g["count"])
        replay = {"impl": ex["impl"], "chunks": ex["chunks"], "got": ex["got"], "expected": ex["expected"],
                  "call": ex["call"], "component": comp, "family": fam, "mismatching_evaluations": g["count"]}
        ck.violation(key, describe(fam, phase, comp, only_empty, ex), replay, found_input=True)


def fold(groups, task_result):
    for (fam, phase, comp, empty), v in ((tuple(k), v) for k, v in task_result["mism"]):
        g = groups.setdefault((fam, phase, comp), {"count": 0, "empty": 0, "nonempty": 0, "examples": []})
        g["count"] += v["count"]
        g["empty" if empty else "nonempty"] += v["count"]
        g["examples"] += v["examples"]


# ---------------------------------------------------------------- search for a broken generated theorem
class _Distinct(set):
    """ck.hashes with an extra count: cases of exhaustive enumerations are distinct by construction and far too many to
    hash one by one in the harness process; the drivers count them (and the distinct generated cases) instead"""
    extra = 0

    def __len__(self):
        return set.__len__(self) + self.extra


REP = [0x00, 0x7F, 0x80, 0x8F, 0x90, 0x9F, 0xA0, 0xBF, 0xC2, 0xE0, 0xED, 0xF0, 0xF4]


def table_step(tbl):
    def step(s, b):
        try:
            i = 256 + s * 16 + tbl[b]
            return tbl[i] if 0 <= i < len(tbl) else None
        except IndexError:
            return None
    return step


def macro_step(mac):
    return lambda s, b: mac[s * 256 + b] if 0 <= s < 9 else s


def bfs_path(step, target):
    """shortest octet string driving the (possibly mutated) automaton from state 0 to [target];
    the reject state 1 ends a call, so it is a possible target but is never passed through"""
    if target == 0:
        return b""
    seen, q = {0: b""}, deque([0])
    while q:
        s = q.popleft()
        for b in range(256):
            t = step(s, b)
            if t is None or t in seen:
                continue
            seen[t] = seen[s] + bytes([b])
            if t == target:
                return seen[t]
            if t != 1:
                q.append(t)
    return None


def search(ck, info, run_explicit):
    terms = {"py": "diff_cells_py", "c": "diff_cells_c", "unrolled": "diff_cells_unrolled"}
    try:
        vals = ck.coq_eval(IMPORTS, list(terms.values()))
    except RuntimeError as e:
        ck.log("search: cannot evaluate the model's diff_cells: " + str(e)[-300:])
        return
    steps = {"py": table_step(info["py"]), "c": table_step(info["c"]["dfa"]), "unrolled": macro_step(info["c"]["macro"])}
    fam_of = {"py": "py", "c": "nvx.table", "unrolled": "nvx.unrolled"}
    thm = {"py": "C09_transitions_py", "c": "C09_transitions_c", "unrolled": "C09_unrolled"}
    for (which, _), val in zip(terms.items(), vals):
        cells = [tuple(int(x) for x in m) for m in re.findall(r"\(\s*(\d+),\s*(\d+),\s*(\d+),\s*(\d+)\s*\)", val)]
        ck.log(f"search: {thm[which]}: {len(cells)} differing transition(s) {cells[:6]}")
        # one violation per table: the first reachable differing cell (the others are listed in the text)
        reach = [c for c in cells if bfs_path(steps[which], c[0]) is not None]
        for (s, b, got, want) in (reach or cells)[:1]:
            key = f"{fam_of[which]}/transition/s{s}/x{b:02x}"
            what = (f"{which} table/macro: transition from state {s} on octet 0x{b:02x} goes to {got}, "
                    f"RFC 3629 requires {want} ({thm[which]} no longer checks; {len(cells)} differing (state, octet) "
                    f"pairs in all: {[(c[0], hex(c[1])) for c in cells[:8]]}{'...' if len(cells) > 8 else ''})")
            path = bfs_path(steps[which], s)
            if path is None:
                ck.violation(key, what + "; the state is unreachable, no failing input exists through this cell",
                             {"theorem": thm[which], "cell": [s, b, got, want]}, found_input=False)
                continue
            cands = []
            sufs = [b""] + [bytes([x]) for x in REP] + [bytes([x, y]) for x in REP for y in REP]
            for suf in sufs:
                full = path + bytes([b]) + suf
                cands.append([full])
                cands.append([path, bytes([b]) + suf])
                if suf:
                    cands.append([path + bytes([b]), suf])
            res = run_explicit([{"chunks": [c.hex() for c in ch]} for ch in cands])
            best = None
            for r in res:
                for code, o in r["results"].items():
                    if o and o["diff"] and o["family"] == fam_of[which]:
                        size = sum(len(c) // 2 for c in r["chunks"]) * 4 + len(r["chunks"])
                        if best is None or size < best[0]:
                            best = (size, int(code), r, o)
            if best:
                _, code, r, o = best
                ck.violation(key, what + f"; failing input: chunks={r['chunks']} on {IMPL_NAME[code]} returned "
                             f"{o['got']} , CPython's codec implies {r['expected']}",
                             {"impl": code, "chunks": r["chunks"], "got": o["got"], "expected": r["expected"],
                              "theorem": thm[which], "cell": [s, b, got, want]}, found_input=True)
            else:
                ck.violation(key, what + "; no input through this cell made an implementation disagree with CPython's codec",
                             {"theorem": thm[which], "cell": [s, b, got, want], "path": path.hex()}, found_input=False)


# ---------------------------------------------------------------- the check
def run(ck):
    ck.rule.append(
        "implementations: pure-Python Utf8Validator (AUTOBAHN_USE_NVX=0) and the freshly compiled NVX Utf8Validator as "
        "constructed and after set_impl(1..4); every case = a list of chunks fed one validate() call each after reset(); "
        "every call's 4-tuple is compared with an oracle on CPython's strict utf-8 codec. Generators: corpus; every octet "
        "from every DFA state (12 fixed prefixes, 5 chunk shapes); ALL strings of length <= 2 (quick) / <= 3 (thorough), "
        "whole, octet-by-octet and at every split; generated valid / truncated / ill-formed (overlong, surrogate, "
        ">U+10FFFF, stray tail, noise) mixtures up to 4 KiB under random chunkings incl. empty chunks; every split position "
        "of generated strings <= 64 octets. A sample of executed cases (with the implementation's outputs) is re-evaluated "
        "by the Gallina model in coqc. Implementation selection: 18 (AUTOBAHN_USE_NVX value, NVX importable) combinations. non-trivial = at least one octet fed; distinct = distinct (impl, chunks)")
    ck.extra_tb += [
        "translator translators/utf8_table.py (+ utf8_c_dump.c): trusted to print the table values it reads (Python table by "
        "import, C table / DFA_TRANSITION / one-octet loop observations by compiling a dumper that #includes the C file)",
        "modelled, not verified: CPython indexing of bytes objects and int arithmetic; C size_t wrap-around of total_index "
        "at 2^64 octets; memory safety of the C loops; the cffi conversion of the chunk to const uint8_t*; the dead SSE2 / "
        "SSE4.1 function bodies (nvx_utf8vld_validate never dispatches to them; set_impl(3|4) is exercised by the runs only "
        "as far as the dispatcher goes); websocket/__init__.py's HAS_NVX/USES_NVX selection is exercised in fresh interpreters "
        "(9 values of AUTOBAHN_USE_NVX x extension importable or not, against the rule documented in that file), not modelled",
        "oracle assumptions: CPython's strict bytes.decode('utf-8') accepts exactly well-formed UTF-8 and reports the start "
        "of the first ill-formed sequence; viability of a partial sequence is decided by strict decoding of candidate completions",
    ]
    # 1. regenerate coq/Gen from the tree under test (fail closed)
    info = None
    try:
        info = utf8_table.generate()
        ck.obligation("translator_utf8_table", True)
        ck.log(f"translator: tree {info['src']}, rewritten {info['changed'] or 'nothing'}; C build flags {info['c']['cflags']}")
    except utf8_table.TranslatorError as e:
        ck.obligation("translator_utf8_table", False, str(e))
        for f in GEN_FILES:     # never prove anything about stale tables
            try:
                os.remove(os.path.join(vlib.COQ, "Gen", f))
            except FileNotFoundError:
                pass
    # 2. the real code: both drivers run (in threads) while the theorems are being checked
    groups, samples = {}, []
    avail = {}
    distinct = {"enumerated": 0, "generated": 0}
    corpus = corpus_cases()
    tasks = plan(ck)

    def drive(mode):
        pre = [dict(kind="explicit", cases=corpus, label="corpus")] if corpus else []
        if mode == "py":     # implementation selection by AUTOBAHN_USE_NVX (websocket/__init__.py), in fresh interpreters
            pre = pre + [dict(kind="selection", values=[None, "", "0", "1", "no", "false", " TRUE ", "yes", "2"])]
        try:
            return ck.run_impl("utf8.py", {"mode": mode, "seed": f"{ck.seed}/C09", "tasks": pre + tasks},
                               nvx=(mode == "nvx"), timeout=3000)
        except vlib.DriverCrash as e:
            return e

    def run_explicit(cases):
        out = None
        for mode in ("py", "nvx"):
            r = ck.run_impl("utf8.py", {"mode": mode, "seed": "x", "tasks": [dict(kind="explicit", cases=cases)]},
                            nvx=(mode == "nvx"), timeout=1200)["tasks"][0]["cases"]
            if out is None:
                out = r
            else:
                for a, b in zip(out, r):
                    a["results"].update(b["results"])
        return out

    pool = ThreadPoolExecutor(max_workers=2)
    futs = {mode: pool.submit(drive, mode) for mode in ("py", "nvx")}

    # 3. theorems
    broken = ck.coq_props() if info else ["translator_utf8_table"]
    have_model = False
    if info:
        ok, out = vlib.coq_make(["Model/Utf8Run.vo"])
        have_model = ok
        if not ok:
            ck.obligation("model_Utf8Run_builds", False, out[-1500:])
    ck.log(f"theorems checked ({len(broken)} broken); waiting for the implementation drivers")

    for mode in ("py", "nvx"):
        r = futs[mode].result()
        if isinstance(r, vlib.DriverCrash):
            ck.obligation(f"driver_{mode}_completed", False, str(r)[-1500:])
            ck.violation(f"{mode}/driver-crash", f"implementation driver ({mode}) died: rc={r.rc}",
                         {"rc": r.rc, "out": r.out[-2000:]}, found_input=False)
            continue
        distinct["generated"] += r.get("distinct_digested", 0)
        avail[mode] = {k: r[k] for k in ("impl_codes", "unavailable", "families", "nvx_default_impl", "validator_class", "source")}
        for t in r["tasks"]:
            ck.evaluations += t["evals"]
            for k, v in t["hist"].items():
                ck.bump(f"{mode}:{k}", v)
            ck.bump(f"{mode}:task_{t['label']}_evaluations", t["evals"])
            fold(groups, t)
            samples.extend(t["samples"])
            distinct["enumerated"] += t.get("distinct_enum", 0)
            for row in t.get("rows", []):
                if not row["ok"]:
                    ck.violation(f"selection/AUTOBAHN_USE_NVX={row['env']!r}/nvx_importable={row['nvx_importable']}",
                                 f"websocket/__init__.py selected {row['got']} where the documented rule gives {row['expected']}",
                                 {"selection": row}, found_input=True)
            nm = sum(v["count"] for _, v in t["mism"])
            ck.log(f"impl {mode} task {t['label']}: {t['evals']} evaluations in {t['wall_s']} s, {nm} oracle mismatches")
        if corpus:
            for c in r["tasks"][0].get("cases", []):
                for code, o in c["results"].items():
                    if o:
                        samples.append({"impl": int(code), "chunks": c["chunks"], "got": o["got"]})
    pool.shutdown()
    for mode, a in avail.items():
        ck.notes.append(f"{mode}: {a}")
    if "nvx" in avail and avail["nvx"]["unavailable"]:
        ck.notes.append(f"NVX set_impl not available in this build for {avail['nvx']['unavailable']}")
    if not ck.quick():
        ck.exhaustive = True
        ck.notes.append("exhaustive part of the quantifier completely enumerated on the implementations: every octet from every "
                        "DFA state and all 16 843 009 strings of length <= 3; the generated mixtures are a sample")

    # 4. the Gallina model on a sample of the executed cases (all four tuple components after every call)
    nontriv = [s for s in samples if any(s["chunks"])]
    # distinct non-trivial cases: counted by the drivers (enumerations: by construction; generated: digests of the chunk
    # lists x implementations); the model-compared sample is a subset of these and is not added again
    h = _Distinct()
    h.extra = distinct["enumerated"] + distinct["generated"]
    ck.hashes = h
    ck.notes.append(f"distinct non-trivial (impl, chunks) cases: {distinct['enumerated']} from the all-3-octet-strings enumeration (distinct by "
                    f"construction) + {distinct['generated']} others (distinct 64-bit digests of the chunk lists x implementations); {len(nontriv)} of them re-evaluated in Coq")
    for s in samples[:2] + [s for s in samples if len(s["chunks"]) > 2][:2]:
        ck.sample(s)
    if have_model and samples:
        try:
            bad = ck.coq_cases("utf8", IMPORTS, "utf8_case_ok", [coq_case(s) for s in samples], ty="utf8_case")
        except RuntimeError as e:
            ck.obligation("model_evaluation", False, str(e)[-1500:])
            bad = []
        ck.bump("model_compared", len(samples))
        ck.log(f"model comparison: {len(samples)} sampled cases ({len(nontriv)} non-trivial), {len(bad)} disagreements")
        fams = {}
        for a in avail.values():
            fams.update({int(k): v for k, v in a["families"].items()})
        for i in bad[:8]:
            s = samples[i]
            fam = fams.get(s["impl"], str(s["impl"]))
            ck.violation(f"{fam}/model-disagrees", f"{IMPL_NAME[s['impl']]} and the Gallina model return different 4-tuples "
                         f"(correspondence broken: the theorems no longer describe this code) on chunks={s['chunks']}: "
                         f"implementation {s['got']}", dict(s, correspondence="utf8_case_ok"), found_input=False)

    # 5. verdicts: oracle mismatches are concrete failing inputs; then the search for broken generated theorems
    report_mismatches(ck, groups)
    if broken and info and have_model:
        search(ck, info, run_explicit)
    if broken:
        ck.log(f"broken obligations: {broken}")


def replay(path):
    d = json.load(open(path))
    r = d["replay"]
    if "chunks" not in r:
        print("no concrete input stored (proof obligation / correspondence failure):")
        print(json.dumps(r, indent=1)[:3000])
        return 1
    ck = vlib.Check("C09", "quick", 1)
    case = {"chunks": r["chunks"]}
    print("case: chunks =", r["chunks"], " stored for implementation", r.get("impl"))
    rc = 0
    outs = {}
    for mode in ("py", "nvx"):
        try:
            o = ck.run_impl("utf8.py", {"mode": mode, "seed": "replay", "tasks": [dict(kind="explicit", cases=[case])]},
                            nvx=(mode == "nvx"))["tasks"][0]["cases"][0]
        except vlib.DriverCrash as e:
            print(f"implementation ({mode}): CRASH rc={e.rc}")
            return 1
        print("oracle (CPython strict codec), per call:", o["expected"])
        for code, res in sorted(o["results"].items()):
            if res is None:
                print(f"  {IMPL_NAME[int(code)]}: not available in this build")
                continue
            outs[int(code)] = res["got"]
            flag = "OK" if res["diff"] is None else f"DIFFERS at call #{res['diff'][0]} component {res['diff'][1]}"
            print(f"  {IMPL_NAME[int(code)]}: {res['got']}  {flag}")
            if res["diff"] is not None and (r.get("impl") is None or int(code) == r.get("impl")):
                rc = 1
    try:
        utf8_table.generate()
        ok, out = vlib.coq_make(["Model/Utf8Run.vo"])
        terms = ["utf8_case_ok " + coq_case({"impl": c, "chunks": r["chunks"], "got": g}) for c, g in sorted(outs.items())]
        vals = ck.coq_eval(IMPORTS, terms)
        for (c, _), v in zip(sorted(outs.items()), vals):
            print(f"  Gallina model agrees with {IMPL_NAME[c]}: {v}")
    except Exception as e:  # the replay verdict does not depend on the model
        print("model evaluation unavailable:", str(e)[-300:])
    return rc
