"""C19 - authentication signatures interoperate and mutual authentication is enforced."""
import ast, json, os
from concurrent.futures import ThreadPoolExecutor
import vlib

IMPORTS = "From AV Require Import Model.Auth Model.AuthRun."
DEFS = "Open Scope N_scope."
VECTORS = os.path.join(vlib.ROOT, "corpus", "C19", "rfc_vectors.json")

EXN = {"ValueError": "ValueError", "UnicodeEncodeError": "UnicodeEncodeError", "Error": "BinasciiError", "error": "StructError",
       "RuntimeError": "RuntimeError", "AssertionError": "AssertionError", "TypeError": "TypeError", "Exception": "PlainException",
       "KeyError": "KeyError", "IndexError": "IndexError", "OverflowError": "OverflowError", "AttributeError": "AttributeError"}


# ---------------------------------------------------------------------------------------------------------
# the one fact of the model that is read off the source on every run (fail closed): does the pbkdf2 branch of
# AuthScram.on_challenge base64-decode the salt before handing it to PBKDF2 (as the argon2 branch does)?
# ---------------------------------------------------------------------------------------------------------
def _is_b64decode_of(node, name):
    return (isinstance(node, ast.Call) and len(node.args) == 1 and not node.keywords
            and isinstance(node.args[0], ast.Name) and node.args[0].id == name
            and ast.unparse(node.func) in ("base64.b64decode", "binascii.a2b_base64"))


def scram_pbkdf2_decodes_salt(repo):
    src = open(os.path.join(repo, "src", "autobahn", "wamp", "auth.py")).read()
    tree = ast.parse(src)
    helper = [n for n in tree.body if isinstance(n, ast.FunctionDef) and n.name == "_hash_pbkdf2_secret"]
    cls = [n for n in tree.body if isinstance(n, ast.ClassDef) and n.name == "AuthScram"]
    if len(helper) != 1 or len(cls) != 1:
        raise ValueError("auth.py: _hash_pbkdf2_secret / AuthScram not found exactly once")
    body = [s for s in helper[0].body if not (isinstance(s, ast.Expr) and isinstance(s.value, ast.Constant))]
    if len(body) != 1 or not isinstance(body[0], ast.Return) or not isinstance(body[0].value, ast.Call):
        raise ValueError("auth.py: _hash_pbkdf2_secret has an unrecognised body")
    c = body[0].value
    if ast.unparse(c.func) != "pbkdf2" or len(c.args) != 3 or ast.unparse(c.args[0]) != "password" \
            or ast.unparse(c.args[2]) != "iterations" or [(k.arg, ast.unparse(k.value)) for k in c.keywords] != [("keylen", "32")]:
        raise ValueError("auth.py: _hash_pbkdf2_secret does not call pbkdf2(password, <salt>, iterations, keylen=32)")
    if isinstance(c.args[1], ast.Name) and c.args[1].id == "salt":
        in_helper = False
    elif _is_b64decode_of(c.args[1], "salt"):
        in_helper = True
    else:
        raise ValueError("auth.py: unrecognised salt expression in _hash_pbkdf2_secret: " + ast.unparse(c.args[1]))
    oc = [n for n in cls[0].body if isinstance(n, ast.FunctionDef) and n.name == "on_challenge"]
    if len(oc) != 1:
        raise ValueError("auth.py: AuthScram.on_challenge not found")
    calls = [n for n in ast.walk(oc[0]) if isinstance(n, ast.Call) and ast.unparse(n.func) == "_hash_pbkdf2_secret"]
    if len(calls) != 1 or len(calls[0].args) != 3 or calls[0].keywords or ast.unparse(calls[0].args[0]) != "password" \
            or ast.unparse(calls[0].args[2]) != "iterations":
        raise ValueError("auth.py: AuthScram.on_challenge does not call _hash_pbkdf2_secret(password, <salt>, iterations) exactly once")
    a = calls[0].args[1]
    if isinstance(a, ast.Name) and a.id == "salt":
        at_call = False
    elif _is_b64decode_of(a, "salt"):
        at_call = True
    else:
        raise ValueError("auth.py: unrecognised salt expression at the _hash_pbkdf2_secret call: " + ast.unparse(a))
    # `salt` itself must still be the raw challenge field
    assigns = [n for n in ast.walk(oc[0]) if isinstance(n, ast.Assign) and any(isinstance(t, ast.Name) and t.id == "salt" for t in n.targets)]
    if len(assigns) != 1 or ast.unparse(assigns[0].value) != "challenge.extra['salt']":
        raise ValueError("auth.py: AuthScram.on_challenge assigns `salt` in an unrecognised way")
    if in_helper and at_call:
        raise ValueError("auth.py: the pbkdf2 salt is base64-decoded twice")
    return in_helper or at_call


def shim_gate_is_strict(repo):
    """protocol.py: _SessionShim.onWelcome - the gate in front of IAuthenticator.on_welcome.  Recognises exactly two shapes:
       lenient: `if msg.authmethod is None or self._authenticators is None: return`
       strict : `if self._authenticators is None: return` then
                `if msg.authmethod is None: if 'anonymous' in A or 'anonymous-proxy' in A: return; return <str>`
       each followed by the lookup `self._authenticators[msg.authmethod]` (KeyError -> RuntimeError) and
       `return authenticator.on_welcome(self, msg.authextra)`.  Anything else: ValueError (fail closed)."""
    tree = ast.parse(open(os.path.join(repo, "src", "autobahn", "wamp", "protocol.py")).read())
    cls = [n for n in tree.body if isinstance(n, ast.ClassDef) and n.name == "_SessionShim"]
    if len(cls) != 1:
        raise ValueError("protocol.py: class _SessionShim not found exactly once")
    fn = [n for n in cls[0].body if isinstance(n, ast.FunctionDef) and n.name == "onWelcome"]
    if len(fn) != 1 or [a.arg for a in fn[0].args.args] != ["self", "msg"]:
        raise ValueError("protocol.py: _SessionShim.onWelcome(self, msg) not found exactly once")
    body = [st for st in fn[0].body if not (isinstance(st, ast.Expr) and isinstance(st.value, ast.Constant))]
    if len(body) < 3:
        raise ValueError("protocol.py: _SessionShim.onWelcome has an unrecognised body")
    *guards, tr, ret = body
    if not (isinstance(ret, ast.Return) and ret.value is not None and ast.unparse(ret.value) == "authenticator.on_welcome(self, msg.authextra)"):
        raise ValueError("protocol.py: _SessionShim.onWelcome does not end in `return authenticator.on_welcome(self, msg.authextra)`")
    ok_try = (isinstance(tr, ast.Try) and len(tr.body) == 1 and ast.unparse(tr.body[0]) == "authenticator = self._authenticators[msg.authmethod]"
              and len(tr.handlers) == 1 and tr.handlers[0].type is not None and ast.unparse(tr.handlers[0].type) == "KeyError"
              and len(tr.handlers[0].body) == 1 and isinstance(tr.handlers[0].body[0], ast.Raise)
              and isinstance(tr.handlers[0].body[0].exc, ast.Call) and ast.unparse(tr.handlers[0].body[0].exc.func) == "RuntimeError"
              and not tr.orelse and not tr.finalbody)
    if not ok_try:
        raise ValueError("protocol.py: _SessionShim.onWelcome: unrecognised authenticator lookup")

    def bare_return(st):
        return isinstance(st, ast.Return) and st.value is None

    def is_if(st, test, n_body):
        return isinstance(st, ast.If) and ast.unparse(st.test) == test and len(st.body) == n_body and not st.orelse
    if len(guards) == 1 and is_if(guards[0], "msg.authmethod is None or self._authenticators is None", 1) and bare_return(guards[0].body[0]):
        return False
    if (len(guards) == 2 and is_if(guards[0], "self._authenticators is None", 1) and bare_return(guards[0].body[0])
            and is_if(guards[1], "msg.authmethod is None", 2)
            and is_if(guards[1].body[0], "'anonymous' in self._authenticators or 'anonymous-proxy' in self._authenticators", 1)
            and bare_return(guards[1].body[0].body[0])
            and isinstance(guards[1].body[1], ast.Return) and isinstance(guards[1].body[1].value, ast.Constant)
            and isinstance(guards[1].body[1].value.value, str) and guards[1].body[1].value.value):
        return True
    raise ValueError("protocol.py: _SessionShim.onWelcome: unrecognised guard(s) in front of on_welcome: "
                     + " | ".join(ast.unparse(g).replace("\n", " ")[:120] for g in guards))


# ---------------------------------------------------------------------------------------------------------
# Coq term printers
# ---------------------------------------------------------------------------------------------------------
def nl(xs):
    return "[" + ";".join(str(int(x)) for x in xs) + "]"


class Share:
    """byte/code-point strings that occur more than once in a case are bound once with `let` (Coq's cost is per literal)"""
    def __init__(self):
        self.names, self.count, self.on = {}, {}, False

    def lit(self, xs):
        t = tuple(int(x) for x in xs)
        if len(t) < 12:
            return nl(t)
        if not self.on:
            self.count[t] = self.count.get(t, 0) + 1
            return nl(t)
        if self.count.get(t, 0) < 2:
            return nl(t)
        if t not in self.names:
            self.names[t] = f"v{len(self.names)}"
        return self.names[t]

    def wrap(self, body):
        return "".join(f"let {n} := {nl(t)} in " for t, n in self.names.items()) + body


SH = Share()


def hx(h):
    return SH.lit(bytes.fromhex(h))


def sl(xs):
    return SH.lit(xs)


def pyv(d):
    return f"(VStr {sl(d['s'])})" if "s" in d else f"(VBytes {hx(d['b'])})"


def opt(v, f):
    return "None" if v is None else f"(Some {f(v)})"


def res(o, f):
    if "ok" in o:
        return f"(Ok {f(o['ok'])})"
    return f"(Raise {EXN.get(o['exc'], 'OtherExn')})"


def zlit(z):
    return f"({int(z)})%Z"


def blit(b):
    return "true" if b else "false"


def tables(t):
    def e2(k):
        return "[" + ";".join(f"({hx(a)},{hx(b)})" for a, b in t.get(k, [])) + "]"

    def e3(k):
        return "[" + ";".join(f"({hx(a)},{hx(b)},{hx(c)})" for a, b, c in t.get(k, [])) + "]"

    def e5(k):
        return "[" + ";".join(f"({hx(a)},{hx(b)},{int(i)},{int(l)},{res(r, hx)})" for a, b, i, l, r in t.get(k, [])) + "]"
    sasl = "[" + ";".join(f"({sl(a)},{res(r, sl)})" for a, r in t.get("sasl", [])) + "]"
    rep = "[" + ";".join(f"({hx(a)},{sl(b)})" for a, b in t.get("repr", [])) + "]"
    return f"(mkT {e2('h256')} {e3('hmac256')} {e3('hmac1')} {e5('pbkdf2')} {e5('argon')} {e3('sign')} {sasl} {rep})"


STRICT_GATE = [True]


def coq_case(c, decode_salt):
    global SH
    SH = Share()
    _coq_case(c, decode_salt)          # first pass: count occurrences
    SH.on = True
    return "(" + SH.wrap(_coq_case(c, decode_salt)) + ")"


def _coq_case(c, decode_salt):
    k, o = c["kind"], c.get("out")
    tb = tables(c.get("tables", {}))
    if k == "cra":
        sa = opt(c["salted"], lambda s: f"({pyv(s[0])},{int(s[1])},{int(s[2])})")
        return f"CCra {tb} {sl(c['secret'])} {sa} {sl(c['challenge'])} {res(o, sl)}"
    if k == "derive_key":
        return f"CDeriveKey {tb} {pyv(c['secret'])} {pyv(c['salt'])} {c['iterations']} {c['keylen']} {res(o, hx)}"
    if k == "wcs":
        return f"CWcs {tb} {pyv(c['key'])} {pyv(c['challenge'])} {res(o, hx)}"
    if k == "pbkdf2":
        return f"CPbkdf2 {tb} {pyv(c['data'])} {pyv(c['salt'])} {c['iterations']} {c['keylen']} {res(o, hx)}"
    if k == "totp":
        return f"CTotp {tb} {sl(c['secret'])} {zlit(c['now'])} {zlit(c['offset'])} {res(o, sl)}"
    if k == "check_totp":
        return f"CCheckTotp {tb} {sl(c['secret'])} {sl(c['ticket'])} {zlit(c['now'])} {res(o, blit)}"
    if k == "scram_challenge":
        x = c["extra"]
        xr = (f"{{| sx_nonce := {sl(x['nonce'])}; sx_kdf := {sl(x['kdf'])}; sx_salt := {pyv(x['salt'])}; sx_iterations := {int(x['iterations'])}; "
              f"sx_memory := {opt(x['memory'], lambda m: str(int(m)))}; sx_cbind := {sl(x['cbind'])} |}}")
        return (f"CScramChallenge {tb} {blit(decode_salt)} {sl(c['password'])} {sl(c['authid'])} {sl(c['client_nonce'])} {xr} "
                f"{res(o, lambda v: '(' + ','.join(hx(h) for h in v) + ')')}")
    if k == "scram_welcome":
        return f"CScramWelcome {tb} {hx(c['am'])} {hx(c['salted'])} {pyv(c['sig'])} {res(o, blit)}"
    if k == "scram_history":
        def op(o):
            if o["op"] == "authextra":
                return f"OpAuthextra {sl(o['nonce'])}"
            if o["op"] == "welcome":
                return f"OpWelcome {opt(o['sig'], pyv)}"
            x = o["extra"]
            return (f"OpChallenge {{| sx_nonce := {sl(x['nonce'])}; sx_kdf := {sl(x['kdf'])}; sx_salt := {pyv(x['salt'])}; "
                    f"sx_iterations := {int(x['iterations'])}; sx_memory := {opt(x['memory'], lambda m: str(int(m)))}; sx_cbind := {sl(x['cbind'])} |}}")
        ops = "[" + ";".join(op(o_) for o_ in c["ops"]) + "]"
        outs = "[" + ";".join(res(o_, hx) for o_ in c["outs"]) + "]"
        st = f"({opt(c['state'][0], hx)},{opt(c['state'][1], hx)})"
        return f"CScramHistory {tb} {blit(decode_salt)} {sl(c['password'])} {sl(c['authid'])} {ops} {outs} {st}"
    if k == "session_welcome":
        cfg = "(Some [" + ";".join(nl(n) for n in c["configured"]) + "])"
        st = f"({opt(c['state'][0], hx)},{opt(c['state'][1], hx)})"
        if c["ax"] is None:
            ax = "AxAbsent"
        elif c["ax"]["dict"] is None:
            ax = "(AxDict None)"
        elif c["ax"]["dict"] == "other":
            ax = "(AxDict (Some SvOther))"
        else:
            ax = f"(AxDict (Some (SvText {pyv(c['ax']['dict'])})))"
        return f"CSessionWelcome {tb} {blit(STRICT_GATE[0])} {cfg} {st} {opt(c['authmethod'], nl)} {ax} {blit(c['joined'])}"
    if k == "scram_cred":
        return f"CScramCred {tb} {sl(c['password'])} {hx(c['salt'])} {res(o, lambda v: '(' + sl(v[0].encode()) + ',' + sl(v[1].encode()) + ')')}"
    if k == "cs_sign":
        return (f"CCsSign {tb} {hx(c['seed'])} {pyv(c['challenge'])} {opt(c['cid'], hx)} {opt(c['cid_type'], nl)} {res(o, sl)}")
    if k == "xor":
        return f"CXor {hx(c['a'])} {hx(c['b'])} {res(o, hx)}"
    if k == "codec":
        return f"CCodec {c['codec']} {hx(c['input'])} {res(o, hx)}"
    if k == "codec_s":
        return f"CCodec {c['codec']} {sl(c['input'])} {res(o, hx)}"
    if k == "codec_n":
        return f"CCodecN {c['codec']} {int(c['input'])} {res(o, hx)}"
    if k == "create":
        return f"CCreate {sl(c['name'])} {res(o, lambda v: str(int(v)))}"
    raise ValueError("unknown case kind " + k)


AREA = {"totp": ("compute_totp",), "check_totp": ("check_totp", "compute_totp"),
        "cra": ("AuthWampCra", "derive_key", "compute_wcs", "pbkdf2"), "derive_key": ("derive_key", "pbkdf2"), "wcs": ("compute_wcs",),
        "pbkdf2": ("pbkdf2",), "scram_challenge": ("AuthScram.on_challenge", "derive_scram"), "scram_welcome": ("AuthScram.on_welcome",),
        "scram_cred": ("derive_scram_credential",), "scram_history": ("AuthScram.on_welcome", "AuthScram.on_challenge"), "session_welcome": ("session/",), "cs_sign": ("cryptosign", "CryptosignKey"), "xor": ("util.xor",),
        "create": ("create_authenticator",)}


def nontrivial(c):
    """reached the modelled core: a primitive was called, or a codec/xor produced output"""
    return bool(c.get("tables")) or c["kind"] in ("scram_history", "session_welcome") or ("ok" in c["out"] and c["kind"] in ("xor", "codec", "codec_s", "codec_n", "create"))


# ---------------------------------------------------------------------------------------------------------
def plan(ck):
    if ck.quick():
        caps = {"cra": 80, "derive_key": 20, "wcs": 25, "pbkdf2": 25, "totp": 90, "check_totp": 30, "scram_challenge": 16,
                "scram_welcome": 28, "scram_history": 40, "session_welcome": 70, "cs_sign": 22, "xor": 50, "codec": 200, "codec_s": 120, "codec_n": 60, "create": 20, "scram_cred": 1}
        jobs = [dict(parts=["vectors", "misc"], n_misc=150),
                dict(parts=["cra"], n_cra=220),
                dict(parts=["totp"], n_totp=140),
                dict(parts=["scram"], n_scram=24, exhaustive_every=8, scram_cred=1),
                dict(parts=["scram"], n_scram=24, exhaustive_every=8, scram_cred=0, sub=1),
                dict(parts=["history"], n_history=60),
                dict(parts=["cs"], n_cs=60, exhaustive_every=15),
                dict(parts=["cs"], n_cs=60, exhaustive_every=15, sub=1)]
    else:
        caps = {"cra": 260, "derive_key": 60, "wcs": 60, "pbkdf2": 60, "totp": 380, "check_totp": 150, "scram_challenge": 90,
                "scram_welcome": 220, "scram_history": 150, "session_welcome": 540, "cs_sign": 160, "xor": 300, "codec": 1500, "codec_s": 700, "codec_n": 300, "create": 20, "scram_cred": 2}
        jobs = [dict(parts=["vectors", "misc"], n_misc=1500)]
        for s in range(4):
            jobs.append(dict(parts=["cra"], n_cra=2500, sub=s))
        for s in range(3):
            jobs.append(dict(parts=["totp"], n_totp=2000, sub=s))
        for s in range(5):
            jobs.append(dict(parts=["scram"], n_scram=700, exhaustive_every=5, scram_cred=2, sub=s))
        for s in range(3):
            jobs.append(dict(parts=["cs"], n_cs=1500, exhaustive_every=6, sub=s))
        for s in range(3):
            jobs.append(dict(parts=["history"], n_history=1200, sub=s))
    for i, j in enumerate(jobs):
        j["seed"] = f"{ck.seed}/C19/{j.get('sub', 0)}"
        j["framework"] = "tx"
    # cryptosign's future plumbing also on asyncio (one framework per process)
    jobs.append(dict(parts=["cs"], n_cs=(30 if ck.quick() else 400), exhaustive_every=0, seed=f"{ck.seed}/C19/aio", framework="aio"))
    # the real ApplicationSession: HELLO/CHALLENGE/AUTHENTICATE/WELCOME with forged and genuine server signatures
    for fw in ("tx", "aio"):
        jobs.append(dict(parts=["session"], n_session=(18 if ck.quick() else 180), seed=f"{ck.seed}/C19/session", framework=fw))
    # the WELCOME grid (configured authenticators x challenge done x authmethod x authextra shape), complete in both tiers
    for fw in ("tx", "aio"):
        jobs.append(dict(parts=["welcome"], welcome_reps=(1 if ck.quick() else 4), seed=f"{ck.seed}/C19/welcome", framework=fw))
    for j in jobs:
        j["vector_files"] = [VECTORS]
        j["caps"] = dict(caps)
    jobs[-5]["caps"]["cs_sign"] = 12 if ck.quick() else 60
    return jobs


def run(ck):
    ck.extra_tb += [
        "oracle assumptions (Section variables + hypotheses, see coq/Proofs/AuthProofs.v): SHA-256, HMAC-SHA256, HMAC-SHA1, PBKDF2-HMAC, "
        "argon2id, Ed25519 sign/verify are arbitrary functions; assumed laws: output lengths (|H|=|HMAC-SHA256|=32 only as 'equal lengths', "
        "|HMAC-SHA1|=20) and verify(pk(seed), m, sign(seed, m)) = true. Collision resistance / unforgeability ('any alteration yields a "
        "different signature or a rejection') is NOT proved: assumed of the primitives and sampled by the bit-flip runs",
        "modelled, not verified: CPython str/bytes/int semantics, struct.pack/unpack, f-string formatting, binascii/base64 codecs (modelled "
        "concretely, hex/base64 round trips proved, all compared with the interpreter's codecs on generated valid and corrupted inputs; "
        "base64.b32decode/b32encode modelled concretely and compared, their round trip NOT proved in general - only the instances of "
        "Example C19_base32_roundtrip_samples); passlib saslprep and repr(bytes) are oracles; txaio future plumbing of _sign_challenge is "
        "exercised by the runs only (Twisted and asyncio)",
        "convention of this code base, not RFC 5802: for kdf=argon2id-13 the SaltedPassword is the unpadded base64 TEXT of the 32-octet tag "
        "(same in derive_scram_credential); the password is not SASLprep-normalised; the reference SCRAM server of the run follows that convention",
    ]
    ck.rule.append(
        "RFC vectors (4231, 6070, 7914 s11, 4226 D, 6238 B, 5802, 7677, 8032) first; then generated secrets (ASCII, non-ASCII, astral, empty, "
        "long, lone surrogates), salts (str/bytes), iteration counts {1,2,3,10,100,1000,4096}, key lengths {1,16,20,32,33,64}, challenges, "
        "TOTP times around 30 s step boundaries, SCRAM exchanges (pbkdf2 / argon2id-13 with small cost) against an RFC 5802 server written "
        "in the driver, cryptosign with/without tls-unique channel id verified by `cryptography` Ed25519; every single-bit alteration of "
        "signature / server signature / client proof (exhaustive on a subset of exchanges, 24-32 sampled bits on the rest) and sampled bits of "
        "challenge, key, salt, password. Every case is re-evaluated by the Gallina model with the recorded primitive calls as oracle tables. "
        "non-trivial = the case reached a primitive (or a codec produced output); distinct = distinct canonical case incl. outputs")
    # 1. the source-derived model parameter
    try:
        decode_salt = scram_pbkdf2_decodes_salt(vlib.REPO)
        ck.obligation("translator:scram_pbkdf2_salt_expression", True)
        ck.notes.append(f"auth.py read: pbkdf2 branch of AuthScram.on_challenge base64-decodes the salt = {decode_salt}")
        # the main pbkdf2 theorem (C19_scram_pbkdf2_interop) is about the decoding variant; for the other variant the
        # refuted statement applies and the run below produces the failing exchange
        ck.obligation("source:scram_pbkdf2_salt_is_base64_decoded (C19_scram_pbkdf2_interop is about the tree under test)", decode_salt,
                      "auth.py passes challenge.extra['salt'] to PBKDF2 undecoded: C19_scram_pbkdf2_interop_without_decoding_refuted applies")
    except Exception as e:
        ck.obligation("translator:scram_pbkdf2_salt_expression", False, f"{type(e).__name__}: {e}")
        decode_salt = False
    try:
        STRICT_GATE[0] = shim_gate_is_strict(vlib.REPO)
        ck.obligation("translator:session_shim_welcome_gate", True)
        ck.notes.append(f"protocol.py read: _SessionShim.onWelcome refuses a WELCOME without authmethod (strict gate) = {STRICT_GATE[0]}")
        ck.obligation("source:session_welcome_gate_is_strict (C19_session_join_implies_verified is about the tree under test)", STRICT_GATE[0],
                      "protocol.py lets a WELCOME without authmethod pass the gate: C19_session_join_lenient_gate_refuted applies")
    except Exception as e:
        ck.obligation("translator:session_shim_welcome_gate", False, f"{type(e).__name__}: {e}")
        STRICT_GATE[0] = True
    # 2. theorems
    broken = ck.coq_props()
    ck.log(f"theorems built: {len(broken)} broken obligations")
    ok, out = vlib.coq_make(["Model/AuthRun.vo"])
    if not ok:
        raise RuntimeError("AuthRun build failed: " + out[-1500:])
    # 3. the real code + independent verifiers
    jobs = plan(ck)
    with ThreadPoolExecutor(max_workers=min(16, len(jobs))) as ex:
        results = list(ex.map(lambda j: ck.run_impl("wamp_auth.py", j, timeout=3000), jobs))
    ck.log("drivers finished")
    cases, failures = [], []
    for j, r in zip(jobs, results):
        ck.evaluations += r["evaluations"]
        for k, v in r["hist"].items():
            ck.bump(k, v)
        cases += r["cases"]
        failures += r["failures"]
        ck.log(f"driver {j['parts']} fw={j['framework']} seed={j['seed']}: {r['evaluations']} evaluations, {len(r['cases'])} model cases, "
               f"{len(r['failures'])} verifier failures")
        if not r["has_argon"]:
            ck.notes.append("argon2/passlib not importable: SCRAM not exercised")
    seen, uniq = set(), []
    for c in cases:
        c.pop("force", None)
        s = json.dumps(c, sort_keys=True)
        if s not in seen:
            seen.add(s)
            uniq.append(c)
    ck.note_cases(0, (json.dumps(c, sort_keys=True) for c in uniq if nontrivial(c)))
    kinds_sampled = set()
    for c in uniq:
        if c["kind"] not in kinds_sampled and (c["kind"] == "scram_history" or (c["kind"] in ("cra", "totp", "scram_challenge", "scram_welcome", "cs_sign") and "ok" in c["out"])):
            kinds_sampled.add(c["kind"])
            ck.sample(c)
    # 4. the model on the same cases
    bad = ck.coq_cases("auth", IMPORTS, "auth_case_ok", [coq_case(c, decode_salt) for c in uniq], ty="auth_case", defs=DEFS, shard=(60 if ck.quick() else 120))
    ck.bump("model_compared", len(uniq))
    ck.log(f"model comparison: {len(uniq)} distinct cases, {len(bad)} disagreements")
    # 5. verdicts
    for f in failures:
        ck.violation(f["key"], f["what"], f["replay"], found_input=True)
    failed_kinds = set()
    for i in bad:
        c = uniq[i]
        if c["kind"] in failed_kinds:
            continue
        failed_kinds.add(c["kind"])
        related = [f["key"] for f in failures if f["key"].startswith(AREA.get(c["kind"], ("\0",)))]
        if related:
            # the search for a concrete failing input already succeeded for this function (independent verifier)
            ck.log(f"model disagrees on {c['kind']} cases as well; concrete failing input reported under {related[0]}")
            ck.bump("model disagreement explained by a verifier failure")
            continue
        ck.violation(f"model-disagrees/{c['kind']}", f"implementation and Gallina model disagree on a {c['kind']} case "
                     f"(implementation output {json.dumps(c.get('out', c.get('outs')))[:120]}); correspondence broken",
                     {"op": "model_case", "case": c, "decode_salt": decode_salt, "strict_gate": STRICT_GATE[0]}, found_input=False)
    if broken and not failures:
        ck.log("proof obligations broken, no failing input found by the sweep")


def replay(path):
    d = json.load(open(path))
    r = d["replay"]
    ck = vlib.Check("C19", "quick", d.get("seed", 1))
    print("key:", d.get("key"))
    if r.get("op") == "model_case":
        c = r["case"]
        print("case:", json.dumps({k: v for k, v in c.items() if k != "tables"})[:1500])
        vlib.coq_make(["Model/AuthRun.vo"])
        STRICT_GATE[0] = r.get("strict_gate", True)
        vals = ck.coq_eval(IMPORTS + "\nOpen Scope N_scope.", ["auth_case_ok (" + coq_case(c, r.get("decode_salt", False)) + ")"])
        print("Gallina model agrees with the recorded implementation output:", vals)
        return 0 if vals and vals[0].startswith("true") else 1
    if "broken_obligations" in r or "traceback" in r:
        print(json.dumps(r, indent=1)[:3000])
        return 1
    print("input:", json.dumps(r)[:1500])
    out = ck.run_impl("wamp_auth.py", {"seed": "replay", "framework": "tx", "replay": r})
    print("implementation:", json.dumps(out["replay"]))
    print("expected      :", d.get("what"))
    return 1
