"""C12 - per-message compression is lossless and negotiated soundly.

Coq side: Props/C12.v over Model/Pmce.v (+ Gen/PmceConsts.v regenerated from the tree under test on every run).
Correspondence: harness/impl/ws_pmce.py drives REAL client+server protocol objects (both frameworks) through REAL
handshakes and REAL zlib/bz2/brotli traffic; Model/PmceRun.v recomputes every observation with the Gallina model.
"""
import concurrent.futures as cf
import importlib.util
import itertools
import json
import os
import sys

import vlib

EXT_CODE = {"deflate": 0, "bzip2": 1, "brotli": 2, "snappy": 3}
IMPORTS = "From AV Require Import Gen.PmceConsts Model.Pmce Model.PmceRun."


# ------------------------------------------------------------------------------------------------ Coq rendering
class _Intern:
    """string literals are expensive for coqc to type-check (9 constructors per character): define each distinct
    string once per generated file and refer to it by name"""
    def __init__(self):
        self.names = {}

    def __call__(self, s):
        if s not in self.names:
            self.names[s] = f"av_s{len(self.names)}"
        return self.names[s]

    def defs(self):
        return "\n".join('Definition %s : string := "%s"%%string.' % (n, s.replace('"', '""')) for s, n in self.names.items())


INTERN = _Intern()


def cstr(s):
    return INTERN(s)


def ascii_ok(s):
    return all(32 <= ord(c) < 127 for c in s)


def copt_str(v):
    return "None" if v is None else f"(Some {cstr(v)})"


def clist(xs):
    return "[" + "; ".join(xs) + "]"


def cz(n):
    return f"({n})%Z"


def cn(n):
    return f"{n}%N"


def cb(b):
    return "true" if b else "false"


def czl(xs):
    return clist(cz(x) for x in xs)


def cnl(xs):
    return clist(cn(x) for x in xs)


def csext(e):
    return f"({cstr(e[0])}, {clist('(%s, %s)' % (cstr(k), copt_str(v)) for k, v in e[1])})"


def cexts(parsed):
    return clist("(%s, %s)" % (cstr(n), clist("(%s, %s)" % (cstr(k), clist(copt_str(v) for v in vs)) for k, vs in ps))
                 for n, ps in parsed)


def neg_case(j, r):
    return "(%s, %s, %s, %s, (%s, %s, %s))" % (cn(EXT_CODE[j["ext"]]), czl(j["off"]), czl(j["acc"]), czl(j["racc"]),
                                             cn(r["code"]), clist(csext(e) for e in r["strs"]),
                                             clist(czl(s) for s in r["sets"]))


# ------------------------------------------------------------------------------------------------ job generation
def consts():
    spec = importlib.util.spec_from_file_location("pmce_consts", os.path.join(vlib.ROOT, "translators", "pmce_consts.py"))
    mod = importlib.util.module_from_spec(spec)
    spec.loader.exec_module(mod)
    return mod


def deflate_pairs(W, boundary_only, rng, extra):
    """(offer args, accept args) of the deflate lattice.  boundary_only: window values restricted to {absent, min, max}
    plus [extra] random interior pairs."""
    wz_full = [0] + W
    wo_full = [-1] + W
    if boundary_only:
        wz = [0, W[0], W[-1]]
        wo = [-1, W[0], W[-1]]
    else:
        wz, wo = wz_full, wo_full
    offers = [[a, b, c, d] for a in (1, 0) for b in (1, 0) for c in (1, 0) for d in wz]
    accepts = [[a, b, c, d, -1] for a in (1, 0) for b in wz for c in (-1, 1, 0) for d in wo]
    pairs = [(o, a) for o in offers for a in accepts]
    if boundary_only:
        seen = {json.dumps(p) for p in pairs}
        for _ in range(extra):
            o = [rng.choice((1, 0)), rng.choice((1, 0)), rng.choice((1, 0)), rng.choice(wz_full)]
            a = [rng.choice((1, 0)), rng.choice(wz_full), rng.choice((-1, 1, 0)), rng.choice(wo_full), rng.choice([-1] * 3 + [1, 8, 9])]
            k = json.dumps((o, a))
            if k not in seen:
                seen.add(k); pairs.append((o, a))
    return pairs


def deflate_raccepts(W, boundary_only):
    wo = [-1, W[0], W[-1]] if boundary_only else [-1] + W
    return [[n, w, -1] for n in (-1, 1, 0) for w in wo]


def ctor_jobs(W, M, L):
    jobs = []
    bad_w = [W[0] - 1, W[-1] + 1, -1, 1, 100]
    for v in bad_w + [0] + W:
        jobs.append({"t": "ctor", "ext": "deflate", "kind": 0, "base": [], "args": [1, 1, 0, v]})
    for base in ([1, 1, 0, 0], [1, 0, 0, 0], [0, 1, 1, 10], [1, 1, 1, W[0]], [1, 1, 0, W[-1]]):
        for req_mwb in bad_w + [0, W[0], W[-1]]:
            jobs.append({"t": "ctor", "ext": "deflate", "kind": 1, "base": base, "args": [0, req_mwb, -1, -1, -1]})
        for wb in bad_w + [0] + W:
            jobs.append({"t": "ctor", "ext": "deflate", "kind": 1, "base": base, "args": [0, 0, -1, wb, -1]})
        for mem in [M[0] - 1, M[-1] + 1, -5, 100] + M:
            jobs.append({"t": "ctor", "ext": "deflate", "kind": 1, "base": base, "args": [0, 0, -1, -1, mem]})
        for rn in (0, 1):
            for nct in (-1, 0, 1):
                jobs.append({"t": "ctor", "ext": "deflate", "kind": 1, "base": base, "args": [rn, 0, nct, -1, -1]})
    for base in ([0, 0, 0, 0], [10, 1, 12, 1], [W[0], 0, 0, 0], [W[-1], 1, 0, 0]):
        for wb in bad_w + [0] + W:
            jobs.append({"t": "ctor", "ext": "deflate", "kind": 2, "base": base, "args": [-1, wb, -1]})
        for mem in [M[0] - 1, M[-1] + 1] + M:
            jobs.append({"t": "ctor", "ext": "deflate", "kind": 2, "base": base, "args": [-1, -1, mem]})
        for nct in (-1, 0, 1):
            jobs.append({"t": "ctor", "ext": "deflate", "kind": 2, "base": base, "args": [nct, -1, -1]})
    bad_l = [L[0] - 1, L[-1] + 1, -1, 100]
    for v in bad_l + [0] + L:
        jobs.append({"t": "ctor", "ext": "bzip2", "kind": 0, "base": [], "args": [1, v]})
        for base in ([1, 0], [0, 0], [1, 5]):
            jobs.append({"t": "ctor", "ext": "bzip2", "kind": 1, "base": base, "args": [v, -1]})
            jobs.append({"t": "ctor", "ext": "bzip2", "kind": 1, "base": base, "args": [0, v]})
        for base in ([0, 0], [4, 6]):
            jobs.append({"t": "ctor", "ext": "bzip2", "kind": 2, "base": base, "args": [v]})
    for base in ([1, 1], [0, 0], [1, 0], [0, 1]):
        for a in ([0, -1], [1, -1], [0, 0], [0, 1], [1, 0], [1, 1]):
            jobs.append({"t": "ctor", "ext": "brotli", "kind": 1, "base": base, "args": a})
        for a in ([-1], [0], [1]):
            jobs.append({"t": "ctor", "ext": "brotli", "kind": 2, "base": base, "args": a})
    return jobs


# malformed / unusual Sec-WebSocket-Extensions values.  verdict: "open" | "fail" | None (= model decides; int() leniency)
def client_header_jobs(W, L):
    D = "permessage-deflate"
    off_d = [["deflate", [1, 1, 0, 0]]]
    off_all = [["deflate", [1, 1, 0, 0]], ["bzip2", [1, 0]], ["brotli", [1, 0]]]
    H = []
    def add(kind, header, verdict, offers=off_d, policy=0):
        H.append({"t": "client", "offers": offers, "headers": header if isinstance(header, list) else [header],
                  "policy": policy, "kind": kind, "verdict": verdict})
    add("valid", D, "open")
    add("valid", f"{D}; server_no_context_takeover; client_no_context_takeover", "open")
    for w in W:
        add("valid", f"{D}; client_max_window_bits={w}; server_max_window_bits={w}", "open")
    add("valid", "PerMessage-Deflate; Client_Max_Window_Bits=10", "open")
    add("valid", f'{D}; client_max_window_bits="10"', "open")
    add("valid", f"  {D} ;  server_max_window_bits = 12 ", "open")
    add("valid", "permessage-bzip2; server_max_compress_level=5", "open", off_all)
    add("valid", "permessage-brotli; server_no_context_takeover", "open", off_all)
    add("none", None, "open")
    for e in ("x-webkit-deflate-frame", "permessage-snappy", "permessage-foo", "deflate-frame; max_window_bits",
              "permessage-deflate2", "permessage_deflate"):
        add("unknown_ext", e, "fail")
    add("unknown_ext", f"{D}, x-foo", "fail")
    add("unknown_ext", f"x-foo, {D}", "fail")
    add("dup_pmce", f"{D}, {D}", "fail")
    add("dup_pmce", f"{D}; server_max_window_bits=10, {D}", "fail")
    add("dup_pmce", f"{D}, permessage-bzip2", "fail", off_all)
    add("dup_pmce", f"permessage-brotli, {D}", "fail", off_all)
    add("dup_header", [D, D], "fail")
    for p in ("foo", "max_window_bits=10", "client_max_compress_level=5", "server_max_compress_level", "mem_level=8",
              "client_max_window_bit=10", "", "=10"):
        add("unknown_param", f"{D}; {p}", "fail")
    add("unknown_param", "permessage-bzip2; client_max_window_bits=10", "fail", off_all)
    add("unknown_param", "permessage-brotli; client_max_window_bits=10", "fail", off_all)
    for p in ("client_max_window_bits=10; client_max_window_bits=10", "client_max_window_bits=10; client_max_window_bits=11",
              "server_no_context_takeover; server_no_context_takeover", "client_no_context_takeover; Client_No_Context_Takeover",
              "server_max_window_bits=9; x; server_max_window_bits=9"):
        add("dup_param", f"{D}; {p}", "fail")
    add("dup_param", "permessage-bzip2; server_max_compress_level=5; server_max_compress_level=5", "fail", off_all)
    add("dup_param", "permessage-brotli; server_no_context_takeover; server_no_context_takeover", "fail", off_all)
    for k in ("client_max_window_bits", "server_max_window_bits"):
        for v in (W[0] - 1, W[-1] + 1, 0, 1, -9, 100, 99999999999999999999):
            add("out_of_range", f"{D}; {k}={v}", "fail")
        for v in ("abc", "9.0", "0x9", "1e1", "", "ten", "9 0", "--9", "9-"):
            add("bad_value", f"{D}; {k}={v}", "fail")
        add("valueless_int", f"{D}; {k}", "fail")
        for v in ("+10", "010", "1_0", "0010", "+0_9"):          # Python int() accepts these: the model's ascii_int decides
            add("lenient_int", f"{D}; {k}={v}", None)
    for k in ("client_max_compress_level", "server_max_compress_level"):
        for v in (L[0] - 1, L[-1] + 1, -1, 100):
            add("out_of_range", f"permessage-bzip2; {k}={v}", "fail", off_all)
        add("bad_value", f"permessage-bzip2; {k}=x", "fail", off_all)
        # int(True) == 1 is a permissible bzip2 level: the valueless form is read as level 1 (the model says the same)
        add("valueless_int", f"permessage-bzip2; {k}", None, off_all)
    for k in ("client_no_context_takeover", "server_no_context_takeover"):
        for v in ("1", "true", "0", '""'):
            add("flag_with_value", f"{D}; {k}={v}", "fail")
            add("flag_with_value", f"permessage-brotli; {k}={v}", "fail", off_all)
    add("policy_none", D, "fail", policy=1)
    add("policy_none", f"{D}; client_max_window_bits=10", "fail", policy=1)
    add("policy_none", "permessage-bzip2", "fail", off_all, policy=1)
    add("policy_none", "permessage-brotli", "fail", off_all, policy=1)
    for j in H:
        if j["headers"] == [None]:
            j["headers"] = []
    return H


def server_header_jobs(W, L):
    D = "permessage-deflate"
    H = []
    def add(kind, header, verdict, policy=0):
        H.append({"t": "server", "headers": [header] if header is not None else [], "policy": policy,
                  "kind": kind, "verdict": verdict})
    add("none", None, "plain")
    add("valid", D, "pmce")
    add("valid", f"{D}; client_max_window_bits", "pmce")
    add("valid", f"{D}; client_max_window_bits=12; client_no_context_takeover", "pmce")
    for w in W:
        add("valid", f"{D}; server_max_window_bits={w}; server_no_context_takeover", "pmce")
    add("valid", f"x-foo; bar=1, {D}; server_max_window_bits=10", "pmce")
    add("valid", "permessage-bzip2; client_max_compress_level; server_max_compress_level=3", "pmce")
    add("valid", "permessage-brotli; client_no_context_takeover", "pmce")
    add("valid", f"permessage-brotli, {D}", "pmce")
    add("unknown_ext", "x-webkit-deflate-frame", "plain")
    add("unknown_ext", "permessage-snappy; client_no_context_takeover", "plain")
    add("policy_none", D, "plain", policy=1)
    for p in ("foo", "server_max_window_bits=8", "server_max_window_bits=16", "server_max_window_bits", "server_max_window_bits=x",
              "client_max_window_bits=16", "client_max_window_bits=abc", "client_no_context_takeover=1",
              "server_no_context_takeover=yes", "server_max_window_bits=10; server_max_window_bits=10",
              "client_max_window_bits; client_max_window_bits", "mem_level=9"):
        add("bad_offer", f"{D}; {p}", "fail")
        add("bad_offer", f"{D}, {D}; {p}", "fail")       # a bad alternative fails the handshake even after a good one
    add("bad_offer", "permessage-bzip2; server_max_compress_level=0", "fail")
    add("bad_offer", "permessage-bzip2; client_max_compress_level=5", "fail")
    add("bad_offer", "permessage-brotli; server_no_context_takeover=1", "fail")
    for v in ("+10", "010", "1_0"):
        add("lenient_int", f"{D}; server_max_window_bits={v}", None)
    return H


SIZES_SMALL = [0, 1, 2, 5, 17, 124, 125, 126, 127, 300, 1000]
SIZES_BIG = [4096, 65535, 65536, 65537, 200000]


def msg_plan(rng, thorough, idx):
    """a sequence of messages for one direction-pair run"""
    msgs = []
    n_msgs = rng.randint(5, 9)
    for i in range(n_msgs):
        kind = rng.choice(["comp", "comp", "rand", "rep", "empty"])
        big = thorough and rng.random() < 0.08
        n = 0 if kind == "empty" else rng.choice(SIZES_BIG if big else SIZES_SMALL)
        dnc = 1 if rng.random() < 0.2 else 0
        cutm = rng.choice(["all", "all", "two", "few", "many"] + (["one"] if n <= 300 else []))
        if rng.random() < 0.25 and n <= 1000:
            k = rng.randint(1, 4)
            pieces = [rng.choice([0, 1, 2, 7, 50, n]) for _ in range(k)]
            msgs.append({"api": "stream", "kind": "comp" if kind == "empty" else kind, "pieces": pieces, "bin": rng.randint(0, 1) if kind != "rand" else 1,
                         "dnc": dnc, "cut": cutm})
        else:
            frag = rng.choice([None, None, 1, 2, 7, 125, 126, 1000]) if n <= 1000 else rng.choice([None, 1000, 65535, 65536])
            if frag == 1 and n > 300:
                frag = 7
            msgs.append({"api": "whole", "kind": kind, "n": n, "bin": 1 if kind == "rand" else rng.randint(0, 1),
                         "frag": frag, "dnc": dnc, "cut": cutm})
    return msgs


RSV_SHAPES = {  # shape -> expected verdict with a PMCE / without one ("accept" | "reject")
    "valid": ("accept", "accept"), "ping_inside": ("accept", "accept"),
    "compressed_ping": ("reject", "reject"), "compressed_pong": ("reject", "reject"), "compressed_close": ("reject", "reject"),
    "ping_rsv1_inside": ("reject", "reject"), "cont_rsv1": ("reject", "reject"), "last_cont_rsv1": ("reject", "reject"),
    "rsv2_first": ("reject", "reject"), "rsv3_first": ("reject", "reject"),
    "rsv1_first_plain": ("accept", "reject"), "then_valid": ("reject", "reject"),
}


# ------------------------------------------------------------------------------------------------ running
def run_jobs(ck, fw, jobs, nshards, label):
    """shard the job list over driver processes of one framework; results in job order"""
    if not jobs:
        return []
    nshards = max(1, min(nshards, (len(jobs) + 199) // 200))
    shards = [jobs[i::nshards] for i in range(nshards)]

    def one(sh):
        return ck.run_impl("ws_pmce.py", {"fw": fw, "seed": f"{ck.seed}/C12/{label}", "jobs": sh}, timeout=3000)

    with cf.ThreadPoolExecutor(max_workers=nshards) as ex:
        outs = list(ex.map(one, shards))
    res = [None] * len(jobs)
    for si, o in enumerate(outs):
        for k, r in enumerate(o["results"]):
            res[si + k * nshards] = r
        for k, v in o["hist"].items():
            ck.bump(f"{fw}:{k}", v)
    ck._c12_meta = {"installed": outs[0]["installed"], "tree": outs[0]["tree"], "zlib": outs[0]["zlib"]}
    return res


def both(ck, jobs, nshards, label):
    with cf.ThreadPoolExecutor(max_workers=2) as ex:
        ft = ex.submit(run_jobs, ck, "tx", jobs, nshards, label)
        fa = ex.submit(run_jobs, ck, "aio", jobs, nshards, label)
        return ft.result(), fa.result()


class ModelQueue:
    """model-side cases of every kind, evaluated in ONE sharded coqc run at the end (Model/PmceRun.v: any_case)"""
    def __init__(self):
        self.cases, self.on_bad, self.kinds = [], [], {}

    def add(self, ctor, case, on_bad):
        self.cases.append(f"({ctor} {case})")
        self.on_bad.append(on_bad)
        self.kinds[ctor] = self.kinds.get(ctor, 0) + 1

    def run(self, ck, shard):
        if not self.cases:
            return
        bad = ck.coq_cases("all", IMPORTS, "any_case_ok", self.cases, ty="any_case", shard=shard, defs=INTERN.defs())
        per = {}
        for i in bad:
            k = self.cases[i].split()[0][1:]
            per[k] = per.get(k, 0) + 1
            self.on_bad[i]()
        ck.log(f"model comparison: {len(self.cases)} cases {self.kinds}, disagreements {per or 0}")
        for k, v in self.kinds.items():
            ck.bump(f"model_compared/{k}", v)


def strip_job(j):
    return {k: v for k, v in j.items() if k not in ("kind", "verdict")}


def run(ck):
    quick = ck.quick()
    rng = ck.rng("gen")
    ck.extra_tb += [
        "oracle (hypothesis of the theorems, not an axiom): the compression library behaves as a stream codec "
        "(codec_law: decompress is segmentation independent; compress..flush output decodes to the input; a restarted "
        "deflate stream is decodable by a continuing inflater; sync-flush output ends in 00 00 ff ff) - zlib, bz2, "
        "brotli are exercised for real only in the correspondence run",
        "oracle: Python int() on parameter values enters the theorems through int_law (it inverts str() on the "
        "permissible values); the executable model uses an ASCII reading (sign, leading zeros, single underscores, "
        "ASCII whitespace); non-ASCII digits/whitespace accepted by int() are not modelled",
        "modelled, not verified: constructor type checks (`type(x) != bool`, isinstance) are typing in the model; "
        "non-int numbers are outside it; header splitting/lower-casing/quote removal (_parseExtensionsHeader) is the "
        "handshake model's subject - the client/server cases take the REAL parser's output as model input",
        "modelled, not verified: frames carry header bits and payload only (length encoding, masking: C01/C15); "
        "processing after a protocol violation with failByDrop=False belongs to C02 (the model stops at the violation); "
        "max_message_size is carried but not interpreted (C16); UTF-8 validation of decompressed text is C09/C02",
        "python-snappy is not installed: the snappy instance is proved (discipline disc_snappy) but never run; its "
        "extension name is read from the AST",
    ]
    ck.rule.append(
        "negotiation: every point of the deflate lattice offer(2x2x2x8) x accept(2x8x3x8) x response-accept(3x8) "
        "(quick: windows restricted to {absent,min,max} + random interior points), all bzip2 (quick: boundary levels) "
        "and all 72 brotli points, each through a REAL opening handshake of a real client and a real server (tx and aio); "
        "compared with the model: both Sec-WebSocket-Extensions strings token by token, both effective settings, the stage "
        "at which a constructor raises. constructors also on out-of-lattice values. malformed/unusual response and offer "
        "headers to the real client/server. traffic: message sequences (compressible/random/repeated/empty, boundary sizes, "
        "sendMessage with fragment sizes and the streaming API, doNotCompress, stream re-segmentation) both directions over "
        "distinct negotiated settings; oracle = delivered identical to sent + RSV1/opcode/FIN placement; model = frame "
        "signatures from the recorded codec output sizes, index of the first failing send/receive. RSV-bit rejections on "
        "crafted frames. non-trivial = reached a constructor-valid stage or the codec; distinct = distinct canonical job")

    # 1. regenerate the generated part of the model from the tree under test (fail closed)
    tr = consts()
    try:
        text, vals = tr.render(os.path.join(vlib.REPO, "src"))
        vlib.write_if_changed(os.path.join(vlib.COQ, "Gen", "PmceConsts.v"), text)
        ck.obligation("translator_pmce_consts", True)
    except Exception as e:
        ck.obligation("translator_pmce_consts", False, f"{type(e).__name__}: {e}")
        ck.violation("translator/pmce_consts", f"cannot regenerate Gen/PmceConsts.v from the source: {e}",
                     {"translator": "translators/pmce_consts.py", "error": str(e)[:500]}, found_input=False)
        vals = None
    broken = ck.coq_props()
    ok, out = vlib.coq_make(["Model/PmceRun.vo"])
    model_ok = ok
    if not ok:
        ck.obligation("PmceRun_builds", False, out[-1500:])
    if vals is None:
        return
    W = vals["deflate"]["window"]; M = vals["deflate"]["mem"]; L = vals["bzip2"]["levels"]
    nsh = 6
    viol_budget = {"n": 0}

    def disagree(key, what, replay):
        """model <-> implementation disagreement (or a broken expectation without a property-level failing input)"""
        ck.violation(key, what, replay, found_input=False)

    model = ModelQueue()
    pool = cf.ThreadPoolExecutor(max_workers=8)
    # job lists that do not depend on earlier results: start their implementation runs at once
    cj = ctor_jobs(W, M, L)
    neg_jobs = []
    for o, a in deflate_pairs(W, quick, rng, 150):
        neg_jobs.append({"t": "neg", "ext": "deflate", "off": o, "acc": a, "racc": [-1, -1, -1]})
    lv = ([0, L[0], L[-1]] if quick else [0] + L)
    lo = ([-1, L[0], L[-1]] if quick else [-1] + L)
    for acc_ in (1, 0):
        for req in lv:
            for areq in lv:
                for lev in lo:
                    neg_jobs.append({"t": "neg", "ext": "bzip2", "off": [acc_, req], "acc": [areq, lev], "racc": [-1]})
    for o in itertools.product((1, 0), (1, 0)):
        for a in itertools.product((1, 0), (-1, 1, 0)):
            neg_jobs.append({"t": "neg", "ext": "brotli", "off": list(o), "acc": list(a), "racc": [-1]})
    hj = client_header_jobs(W, L) + server_header_jobs(W, L)
    rj = []
    base = {"off": [1, 1, 0, 0], "acc": [0, 0, -1, -1, -1], "racc": [-1, -1, -1]}
    for shape in RSV_SHAPES:
        for fbd in (True, False):
            for cutm in (("all", "one") if not quick else ("all",)):
                rj.append(dict(base, t="rsv", ext="deflate", fbd=fbd, shape=shape, cut=cutm))
                rj.append({"t": "rsv", "ext": None, "fbd": fbd, "shape": shape, "cut": cutm})
        rj.append({"t": "rsv", "ext": "bzip2", "off": [1, 0], "acc": [0, -1], "racc": [-1], "fbd": True, "shape": shape, "cut": "all"})
    fut_neg = pool.submit(both, ck, neg_jobs, nsh, "negA")
    fut_ctor = pool.submit(both, ck, cj, 1, "ctor")
    fut_hdr = pool.submit(both, ck, [strip_job(j) for j in hj], 1, "hdr")
    fut_rsv = pool.submit(both, ck, rj, 1, "rsv")

    # ---------------------------------------------------------------- 2. constructors
    rt, ra = fut_ctor.result()
    cases, keep = [], []
    for j, a, b in zip(cj, rt, ra):
        if a != b:
            disagree(f"ctor/{j['ext']}/framework-differs", "constructor outcome differs between twisted and asyncio", {"job": j, "tx": a, "aio": b})
            continue
        if "driver_error" in a:
            raise RuntimeError("driver error: " + json.dumps(a)[:600])
        if a.get("odd"):
            ck.violation(f"ctor/{j['ext']}/kind{j['kind']}/{a['odd']}", f"constructor raised {a['odd']} instead of Exception",
                         {"job": j, "result": a}, found_input=True)
        cases.append("(%s, %s, %s, %s, %s)" % (cn(EXT_CODE[j["ext"]]), cn(j["kind"]), czl(j["base"]), czl(j["args"]), cb(a["ok"])))
        keep.append(j)
        ck.bump("ctor/" + ("ok" if a["ok"] else "raise"))
    ck.note_cases(2 * len(cj), (json.dumps(j, sort_keys=True) for j in cj))
    for case, j in zip(cases, keep):
        model.add("KCtor", case, lambda j=j: disagree(
            f"ctor/{j['ext']}/kind{j['kind']}/model-disagrees",
            f"constructor check differs from the model: {j['ext']} kind {j['kind']} base {j['base']} args {j['args']}", {"job": j}))
    ck.log(f"constructors: {len(cj)} cases x2 frameworks")

    # ---------------------------------------------------------------- 3. negotiation lattice, phase A: (offer, accept)
    ck.log(f"negotiation phase A: {len(neg_jobs)} (offer, accept) pairs")
    rt, ra = fut_neg.result()
    # phase B: every response-accept for the pairs the server accepted
    jobsB = []
    accepted = [(j, a) for j, a in zip(neg_jobs, rt) if a.get("code", -1) >= 2]
    if quick:       # quick: the response-accept dimension for a sample of the accepted pairs (all brotli ones)
        rng.shuffle(accepted)
        keepq, nd = [], 0
        for j, a in accepted:
            if j["ext"] == "deflate":
                nd += 1
                if nd > 160:
                    continue
            keepq.append((j, a))
        accepted = keepq
    for j, a in accepted:
        if True:
            if j["ext"] == "deflate":
                raccs = deflate_raccepts(W, quick)
            elif j["ext"] == "bzip2":
                raccs = [[x] for x in lo]
            else:
                raccs = [[-1], [1], [0]]
            for rc in raccs:
                if rc != j["racc"]:
                    jobsB.append(dict(j, racc=rc))
    ck.log(f"negotiation phase B: {len(jobsB)} further response-accepts")
    rtB, raB = both(ck, jobsB, nsh, "negB")
    all_neg = neg_jobs + jobsB
    all_rt, all_ra = rt + rtB, ra + raB
    cases, keep = [], []
    valid = []            # (job, result) of fully negotiated points
    for j, a, b in zip(all_neg, all_rt, all_ra):
        if "driver_error" in a or "driver_error" in b:
            raise RuntimeError("driver error: " + json.dumps(a if "driver_error" in a else b)[:800])
        if a != b:
            disagree(f"neg/{j['ext']}/framework-differs", "negotiation differs between twisted and asyncio", {"job": j, "tx": a, "aio": b})
            continue
        if a.get("odd"):
            ck.violation(f"neg/{j['ext']}/{a['odd'].split()[0]}", f"negotiation anomaly: {a['odd']} for {j}", {"job": j, "result": a}, found_input=True)
        cases.append(neg_case(j, a)); keep.append((j, a))
        if a["code"] == 3:
            valid.append((j, a))
    ck.note_cases(2 * len(all_neg), (json.dumps(j, sort_keys=True) for j, a in keep if a["code"] >= 1))
    # independent negotiation oracle on the REAL settings objects (not derived from the model): per direction the
    # decompressing side's window >= the compressing side's, decompressor-reset implies compressor-reset
    for j, a in valid:
        if j["ext"] == "deflate":
            s, c = a["sets"]
            probs = []
            if not (s[3] <= c[3]): probs.append(f"s2c window: server compresses with {s[3]}, client inflates with {c[3]}")
            if not (c[4] <= s[4]): probs.append(f"c2s window: client compresses with {c[4]}, server inflates with {s[4]}")
            if c[1] and not s[1]: probs.append("s2c: client resets its decompressor per message, server keeps its compressor context")
            if s[2] and not c[2]: probs.append("c2s: server resets its decompressor per message, client keeps its compressor context")
            if probs:
                ck.violation(f"neg/deflate/unsound/{probs[0].split(':')[0].replace(' ', '_')}", "negotiated settings are not interoperable: " + "; ".join(probs),
                             {"job": j, "server": s, "client": c}, found_input=True)
        elif j["ext"] == "brotli":
            s, c = a["sets"]
            if (c[1] and not s[1]) or (s[2] and not c[2]):
                ck.violation("neg/brotli/unsound/context", f"decompressor reset without compressor reset: server {s}, client {c}",
                             {"job": j, "server": s, "client": c}, found_input=True)
    for case, (j, a) in zip(cases, keep):
        model.add("KNeg", case, lambda j=j, a=a: disagree(
            f"neg/{j['ext']}/stage{a['code']}/model-disagrees",
            f"negotiation result differs from the model for offer {j['off']} accept {j['acc']} response-accept {j['racc']}: "
            f"implementation stage {a['code']}, strings {a['strs']}, settings {a['sets']}", {"job": j, "impl": a}))
    ck.log(f"negotiation: {len(all_neg)} points x2 frameworks, {len(valid)} fully negotiated")
    ck.exhaustive = (not quick)

    # ---------------------------------------------------------------- 4. malformed / unusual headers
    rt, ra = fut_hdr.result()
    ccases, ckeep, scases, skeep = [], [], [], []
    for j, a, b in zip(hj, rt, ra):
        if "driver_error" in a:
            raise RuntimeError("driver error: " + json.dumps(a)[:800])
        if a != b:
            disagree(f"{j['t']}/framework-differs", "handshake outcome differs between twisted and asyncio", {"job": j, "tx": a, "aio": b})
            continue
        ck.bump(f"hdr/{j['t']}/{j['kind']}/code{a['code']}")
        v = j["verdict"]
        if a["code"] == 3:
            ck.violation(f"{j['t']}.processHandshake/ESCAPED/{a['esc'][0][1] if a['esc'] else '?'}",
                         f"exception escaped the {j['t']} handshake for Sec-WebSocket-Extensions {j['headers']}", {"job": strip_job(j), "result": a}, found_input=True)
        elif j["t"] == "client":
            want = {"open": (0, 1), "fail": (2,), None: (0, 1, 2)}[v]
            if a["code"] not in want:
                ck.violation(f"client.processHandshake/{j['kind']}/{'accepted' if a['code'] < 2 else 'rejected'}",
                             f"client {'accepted' if a['code'] < 2 else 'rejected'} a response with extension header {j['headers']} "
                             f"({j['kind']}; policy {'None' if j['policy'] else 'accept'})", {"job": strip_job(j), "result": a}, found_input=True)
        else:
            want = {"plain": (0,), "pmce": (1,), "fail": (2,), None: (0, 1, 2)}[v]
            if a["code"] not in want:
                ck.violation(f"server.processHandshake/{j['kind']}/code{a['code']}",
                             f"server answered {a.get('status')} (outcome {a['code']}) to an offer {j['headers']} ({j['kind']})",
                             {"job": strip_job(j), "result": a}, found_input=True)
        parsed = a.get("parsed") if j["headers"] else []
        if parsed is None or not all(ascii_ok(n) and all(ascii_ok(k) and all(x is None or ascii_ok(x) for x in vs) for k, vs in ps) for n, ps in parsed):
            continue
        if j["t"] == "client":
            ccases.append("(%s, %s, %s, %s)" % (cexts(parsed), cn(j["policy"]), cn(a["code"]), czl(a["sets"] or [])))
            ckeep.append((j, a))
        else:
            scases.append("(%s, %s, %s, %s, %s)" % (cexts(parsed), cn(j["policy"]), cn(a["code"]), clist(csext(e) for e in a["strs"]), czl(a["sets"] or [])))
            skeep.append((j, a))
    ck.note_cases(2 * len(hj), (json.dumps(strip_job(j), sort_keys=True) for j in hj if j["kind"] != "none"))
    for case, (j, a) in zip(ccases, ckeep):
        model.add("KClient", case, lambda j=j, a=a: disagree(
            f"client.processHandshake/{j['kind']}/model-disagrees", f"client outcome {a['code']} for {j['headers']} differs from the model",
            {"job": strip_job(j), "impl": a}))
    for case, (j, a) in zip(scases, skeep):
        model.add("KServer", case, lambda j=j, a=a: disagree(
            f"server.processHandshake/{j['kind']}/model-disagrees", f"server outcome {a['code']} for {j['headers']} differs from the model",
            {"job": strip_job(j), "impl": a}))
    ck.log(f"headers: {len(hj)} cases x2 frameworks")

    # ---------------------------------------------------------------- 5. traffic over distinct negotiated settings
    by_settings = {}
    for j, a in valid:
        k = (j["ext"], json.dumps(a["sets"]))
        by_settings.setdefault(k, (j, a))
    reps = list(by_settings.values())
    rng.shuffle(reps)
    limit = {"deflate": 36 if quick else 700, "bzip2": 5 if quick else 40, "brotli": 12 if quick else 100}
    tjobs, cnt = [], {}
    for j, a in reps:
        cnt[j["ext"]] = cnt.get(j["ext"], 0) + 1
        if cnt[j["ext"]] > limit[j["ext"]]:
            continue
        tjobs.append({"t": "traffic", "ext": j["ext"], "off": j["off"], "acc": j["acc"], "racc": j["racc"],
                      "msgs": msg_plan(rng, not quick, len(tjobs))})
    # large messages (thorough): 1 MiB compressible and incompressible at the extreme windows, both takeover modes
    if not quick:
        for off, acc in (([1, 1, 0, 0], [0, 0, -1, -1, -1]), ([1, 1, 1, W[0]], [1, W[0], -1, -1, 1]), ([1, 1, 0, W[0]], [0, W[0], -1, -1, -1])):
            tjobs.append({"t": "traffic", "ext": "deflate", "off": off, "acc": acc, "racc": [-1, -1, -1], "msgs": [
                {"api": "whole", "kind": "comp", "n": 1 << 20, "bin": 0, "frag": None, "dnc": 0, "cut": "few"},
                {"api": "whole", "kind": "rand", "n": 1 << 20, "bin": 1, "frag": 65536, "dnc": 0, "cut": "many"},
                {"api": "whole", "kind": "comp", "n": 300, "bin": 0, "frag": None, "dnc": 0, "cut": "all"},
                {"api": "whole", "kind": "rep", "n": 1 << 20, "bin": 1, "frag": None, "dnc": 1, "cut": "few"},
                {"api": "whole", "kind": "comp", "n": 70000, "bin": 0, "frag": 1000, "dnc": 0, "cut": "two"}]})
        tjobs.append({"t": "traffic", "ext": "bzip2", "off": [1, 0], "acc": [0, -1], "racc": [-1], "msgs": [
            {"api": "whole", "kind": "comp", "n": 1 << 20, "bin": 0, "frag": None, "dnc": 0, "cut": "few"},
            {"api": "whole", "kind": "rand", "n": 1 << 20, "bin": 1, "frag": 65536, "dnc": 0, "cut": "few"}]})
        tjobs.append({"t": "traffic", "ext": "brotli", "off": [1, 1], "acc": [1, -1], "racc": [-1], "msgs": [
            {"api": "whole", "kind": "comp", "n": 1 << 20, "bin": 0, "frag": None, "dnc": 0, "cut": "few"},
            {"api": "whole", "kind": "rand", "n": 1 << 20, "bin": 1, "frag": 65536, "dnc": 0, "cut": "few"}]})
    # window probes: asymmetric windows, a message whose only redundancy lies far outside the small window - an inflater
    # created with the wrong side's window (smaller than the peer's deflater) cannot decode it
    for off, acc in (([1, 1, 0, 0], [0, W[0], -1, -1, -1]), ([1, 1, 0, W[0]], [0, 0, -1, -1, -1]),
                     ([1, 1, 0, 0], [0, W[0], -1, W[0] + 1, -1]), ([1, 1, 1, W[0] + 1], [1, W[-1], -1, -1, -1])):
        tjobs.append({"t": "traffic", "ext": "deflate", "off": off, "acc": acc, "racc": [-1, -1, -1], "msgs": [
            {"api": "whole", "kind": "far", "n": 6000, "bin": 1, "frag": None, "dnc": 0, "cut": "few"},
            {"api": "whole", "kind": "far", "n": 70000, "bin": 1, "frag": 4096, "dnc": 0, "cut": "two"},
            {"api": "whole", "kind": "comp", "n": 300, "bin": 0, "frag": None, "dnc": 0, "cut": "all"}]})
    # the frame-level streaming API (beginMessage / beginMessageFrame / sendMessageFrameData / endMessage) on a compressed
    # connection: oracle only (the model covers sendMessage and beginMessage/sendMessageFrame/endMessage)
    for dnc in (0, 1):
        tjobs.append({"t": "traffic", "ext": "deflate", "off": [1, 1, 0, 0], "acc": [0, 0, -1, -1, -1], "racc": [-1, -1, -1], "rawframe": True,
                      "msgs": [{"api": "rawframe", "kind": "comp", "n": 40, "bin": 1, "dnc": dnc, "cut": "all"}]})
    # corpus: minimised cases that always run first
    cdir = os.path.join(vlib.ROOT, "corpus", "C12")
    corpus = []
    if os.path.isdir(cdir):
        for fn in sorted(os.listdir(cdir)):
            if fn.endswith(".json"):
                cj_ = json.load(open(os.path.join(cdir, fn)))
                if cj_.get("job", {}).get("t") == "traffic":
                    corpus.append(dict(cj_["job"], corpus=fn))
    tjobs = corpus + tjobs
    ck.bump("corpus_cases", len(corpus))
    ck.log(f"traffic: {len(tjobs)} negotiated pairs ({len(corpus)} from the corpus)")
    rt, ra = both(ck, [{k: v for k, v in j.items() if k not in ("corpus", "rawframe")} for j in tjobs], nsh, "traffic")
    wcases, wkeep, qcases, qkeep, rcases, rkeep = [], [], [], [], [], []
    n_msgs = 0
    for fw, res in (("tx", rt), ("aio", ra)):
        for j, a in zip(tjobs, res):
            if "driver_error" in a:
                raise RuntimeError("driver error: " + json.dumps(a)[:800])
            if a["code"] != 3:
                disagree(f"traffic/{j['ext']}/renegotiation-failed", "a previously valid point no longer negotiates", {"job": j, "fw": fw})
                continue
            s_set, c_set = a["sets"]
            for dname, dres, lib in a["dirs"]:
                if j["ext"] == "deflate":
                    cnct = (s_set[1] if dname == "s2c" else c_set[2]); dnct = (c_set[1] if dname == "s2c" else s_set[2])
                elif j["ext"] == "brotli":
                    cnct = (s_set[1] if dname == "s2c" else c_set[2]); dnct = (c_set[1] if dname == "s2c" else s_set[2])
                else:
                    cnct = dnct = 0
                # the library objects really constructed (independent of the model; RFC 7692 reading of the settings):
                # s2c: deflater gets the server's server_max_window_bits, inflater the client's server_max_window_bits; c2s alike
                if j["ext"] == "deflate" and lib["comp_args"] and lib["decomp_args"]:
                    cw_real, dw_real = -lib["comp_args"][2], -lib["decomp_args"][0]
                    cw_want, dw_want = (s_set[3], c_set[3]) if dname == "s2c" else (c_set[4], s_set[4])
                    mem_want = s_set[5] if dname == "s2c" else c_set[5]
                    if (cw_real, dw_real, lib["comp_args"][3]) != (cw_want, dw_want, mem_want):
                        ck.violation(f"traffic/deflate/zlib-arguments/{dname}",
                                     f"{dname}: zlib objects created with window {cw_real} (compress, mem {lib['comp_args'][3]}) / {dw_real} (decompress); "
                                     f"the negotiated settings say {cw_want} (mem {mem_want}) / {dw_want}",
                                     {"fw": fw, "dir": dname, "job": dict(j, msgs=j["msgs"][:1]), "lib": lib, "server": s_set, "client": c_set}, found_input=True)
                first_fail = -1
                recv_events = []
                rframes = []
                ncomp = 0
                for mi, (m, r) in enumerate(zip(j["msgs"], dres)):
                    n_msgs += 1
                    if not m["dnc"]:
                        ncomp += 1
                    rep = {"fw": fw, "dir": dname, "job": dict(j, msgs=j["msgs"][:mi + 1]), "msg_index": mi, "result": r}
                    mode = "context_takeover" if not cnct else "no_context_takeover"
                    if r.get("odd"):
                        ck.violation(f"traffic/{j['ext']}/{r['odd'].split(':')[0].replace(' ', '_')}", f"wire anomaly: {r['odd']}", rep, found_input=True)
                    if m["api"] == "rawframe":
                        if r["sent"] != "ok" or r.get("recv_bad") or not r.get("same"):
                            ck.violation("streaming.beginMessageFrame/compressed/raw-octets-flagged-RSV1" if not m["dnc"] else "streaming.beginMessageFrame/doNotCompress/lost",
                                         f"beginMessage(doNotCompress={bool(m['dnc'])}) + beginMessageFrame + sendMessageFrameData + endMessage on a connection with "
                                         f"permessage-deflate: frames {r.get('frames')} - the announced frame carries RSV1 but its octets are written uncompressed; "
                                         f"receiver: {r.get('recv_bad') or ('delivered %s' % r.get('delivered'))}", rep, found_input=True)
                        continue
                    if r["sent"] != "ok":
                        first_fail = mi
                        ck.violation(f"{j['ext']}/{mode}/msg{min(ncomp, 2)}",
                                     f"{j['ext']} with {mode.replace('_', ' ')} on the sending side: compressed message #{ncomp} of the "
                                     f"connection ({dname}, message {mi + 1} of the sequence) cannot be sent: {r['sent']}: {r.get('where')}",
                                     rep, found_input=True)
                        break
                    # RSV1 / opcode / FIN placement (independent of the model)
                    fs = r["frames"]
                    want_rsv = 0 if m["dnc"] else 4
                    want_op = 2 if m["bin"] else 1
                    okf = (len(fs) >= 1 and fs[0][1] == want_rsv and fs[0][2] == want_op and all(f[1] == 0 and f[2] == 0 for f in fs[1:])
                           and all(f[0] == 0 for f in fs[:-1]) and fs[-1][0] == 1)
                    if m["dnc"] and sum(f[3] for f in fs) != r["plen"]:
                        okf = False
                    if not okf:
                        ck.violation(f"traffic/{j['ext']}/frame-flags/{'dnc' if m['dnc'] else 'compressed'}/{m['api']}",
                                     f"frame flags wrong for a {'doNotCompress' if m['dnc'] else 'compressed'} message: {fs[:6]}", rep, found_input=True)
                    rmode = "context_takeover" if not dnct else "no_context_takeover"
                    if r.get("recv_bad") or not r.get("same"):
                        what = (f"receiver failed: {r.get('recv_bad')}" if r.get("recv_bad") else
                                f"delivered {r.get('delivered')} message(s), payload differs at octet {r.get('first_diff')} (got {r.get('got_len')} of {r['plen']} octets)")
                        esc = [x for x in (r.get("recv_bad") or []) if x[0] == "escaped"]
                        trailing_empty = len(fs) > 1 and fs[-1][3] == 0
                        if esc and trailing_empty and not (j["ext"] == "brotli" and not dnct and ncomp > 1):
                            key = f"{j['ext']}/trailing-empty-frame/recv/{esc[0][1]}"
                        elif esc:
                            key = f"{j['ext']}/{rmode}/recv/msg{min(ncomp, 2)}"
                        else:
                            key = f"traffic/{j['ext']}/not-identical/{m['api']}/{'dnc' if m['dnc'] else 'compressed'}"
                        ck.violation(key, f"{j['ext']} {dname} message #{mi + 1} ({m['api']}, {m['kind']}, {r['plen']} octets, frag {m.get('frag')}): {what}", rep, found_input=True)
                    if r.get("recv_wrote"):
                        ck.violation(f"traffic/{j['ext']}/receiver-wrote", f"receiver answered a data message with octets {r['recv_wrote']}", rep, found_input=True)
                    last_data = max([k for k, f in enumerate(fs) if f[3] > 0], default=-1)
                    for k, f in enumerate(fs):
                        rframes.append((f[0], f[1], f[2], f[3], 1, (k == last_data) and not m["dnc"]))
                    if r.get("recv_bad"):
                        recv_events.append("(2%N, false)")
                        break
                    recv_events.append("(0%%N, %s)" % cb(m["bin"]))
                    # model: frame signatures from the recorded codec output sizes
                    total = sum(f[3] for f in fs)
                    if total <= 3000 and len(fs) <= 400:
                        sizes = [c[1] for c in r["calls"]]
                        plens = [r["plen"]] if m["api"] == "whole" else m["pieces"]
                        wcases.append("(%s, true, %s, %s, %s, %s, %s, %s, %s)" % (
                            cn(EXT_CODE[j["ext"]]), cnl(plens), cb(m["api"] == "stream"), cb(m["bin"]),
                            cz(-1 if m.get("frag") is None else m["frag"]), cb(m["dnc"]), cnl(sizes), clist(cnl(f) for f in fs)))
                        wkeep.append(rep)
                if j.get("rawframe"):
                    continue
                # model: index of the first send that raises, for this sequence
                sent_msgs = j["msgs"][:len(dres)]
                qcases.append("(%s, %s, %s, %s, %s)" % (cn(EXT_CODE[j["ext"]]), cb(cnct),
                              clist("(%s, %s, %s)" % (cb(m["api"] == "stream"), cnl(m["pieces"] if m["api"] == "stream" else [0 if m["kind"] == "empty" else m["n"]]),
                                                      cb(m["dnc"])) for m in sent_msgs),
                              cz(first_fail), cn(lib["comp_new"])))
                qkeep.append({"fw": fw, "dir": dname, "job": j, "first_fail": first_fail})
                if sum(f[3] for f in rframes) <= (4000 if quick else 20000) and len(rframes) <= (150 if quick else 600):
                    rcases.append("(%s, true, %s, %s, %s, %s)" % (cn(EXT_CODE[j["ext"]]), cb(dnct),
                                  clist("(%s, %s, %s, %s, %s, %s)" % (cb(f[0]), cn(f[1]), cn(f[2]), cn(f[3]), cn(f[4]), cb(f[5])) for f in rframes),
                                  clist(recv_events), cz(lib["decomp_new"] if len(rframes) == sum(len(r["frames"]) for r in dres if "frames" in r) else -1)))
                    rkeep.append({"fw": fw, "dir": dname, "job": j, "lib": lib})
    ck.note_cases(n_msgs, (json.dumps(j, sort_keys=True) for j in tjobs))
    for case, rep in zip(wcases, wkeep):
        model.add("KWire", case, lambda rep=rep: disagree(
            f"traffic/{rep['job']['ext']}/frames/model-disagrees", f"frame boundaries/flags differ from the model: {rep['result']['frames'][:6]}", rep))
    for case, rep in zip(qcases, qkeep):
        model.add("KSeq", case, lambda rep=rep: disagree(
            f"traffic/{rep['job']['ext']}/send-sequence/model-disagrees",
            f"first failing send is #{rep['first_fail']} in the implementation, the model says otherwise", rep))
    for case, rep in zip(rcases, rkeep):
        model.add("KRecv", case, lambda rep=rep: disagree(
            f"traffic/{rep['job']['ext']}/receive-sequence/model-disagrees", "delivered/escaped event sequence differs from the model", rep))
    ck.log(f"traffic: {n_msgs} messages over {len(tjobs)} negotiated pairs x2 frameworks")

    # ---------------------------------------------------------------- 6. RSV rejections
    rt, ra = fut_rsv.result()
    vcases, vkeep = [], []
    for fw, res in (("tx", rt), ("aio", ra)):
        for j, a in zip(rj, res):
            if "driver_error" in a:
                raise RuntimeError("driver error: " + json.dumps(a)[:800])
            for dname, d in a["dirs"]:
                want = RSV_SHAPES[j["shape"]][0 if j["ext"] else 1]
                delivered = [e for e in d["evs"] if e[0] == "D"]
                rejected = (1002 in d["close_codes"]) or any(e[0] == "DROP" for e in d["evs"])
                escaped = [e for e in d["evs"] if e[0] == "X"]
                rep = {"fw": fw, "dir": dname, "job": j, "result": d}
                pm = "pmce" if j["ext"] else "no-pmce"
                if escaped:
                    ck.violation(f"rsv/{j['shape']}/{pm}/ESCAPED/{escaped[0][1]}", f"exception escaped dataReceived for frame shape {j['shape']}", rep, found_input=True)
                elif want == "reject" and (not rejected or delivered):
                    ck.violation(f"rsv/{j['shape']}/{pm}/not-rejected", f"frames {d['sig'][:4]} ({j['shape']}, {pm}, failByDrop={j['fbd']}) were not rejected as a protocol violation "
                                 f"(delivered {len(delivered)}, close codes {d['close_codes']}, state {d['state']})", rep, found_input=True)
                elif want == "accept" and (rejected or len(delivered) != 1 or not delivered[0][1]):
                    ck.violation(f"rsv/{j['shape']}/{pm}/wrongly-rejected", f"valid frames {d['sig'][:4]} ({j['shape']}, {pm}) were not delivered intact", rep, found_input=True)
                if want == "accept" and j["shape"] == "ping_inside" and d["pongs"] != 1:
                    ck.violation(f"rsv/ping_inside/{pm}/no-pong", "a ping inside a fragmented compressed message was not answered", rep, found_input=True)
                # model: event classes up to the first violation
                evs = []
                for e in d["evs"]:
                    if e[0] == "D":
                        evs.append("(0%%N, %s)" % cb(e[2]))
                if rejected:
                    evs.append("(1%N, false)")
                chunks = 1 if j.get("cut", "all") == "all" else 3
                last_data = max([k for k, f in enumerate(d["sig"]) if f[3] > 0 and f[2] <= 2], default=-1)
                vcases.append("(%s, %s, false, %s, %s, %s)" % (cn(EXT_CODE[j["ext"] or "deflate"]), cb(bool(j["ext"])),
                              clist("(%s, %s, %s, %s, %s, %s)" % (cb(f[0]), cn(f[1]), cn(f[2]), cn(f[3]), cn(chunks), cb(k == last_data and bool(j["ext"])))
                                    for k, f in enumerate(d["sig"])),
                              clist(evs), cz(-1)))
                vkeep.append(rep)
                ck.bump(f"rsv/{want}/{pm}")
    ck.note_cases(2 * len(vcases), (json.dumps(j, sort_keys=True) for j in rj))
    for case, rep in zip(vcases, vkeep):
        model.add("KRecv", case, lambda rep=rep: disagree(
            f"rsv/{rep['job']['shape']}/model-disagrees",
            f"receive verdict for frame shape {rep['job']['shape']} differs from the model: {rep['result']['evs']}", rep))
    ck.log(f"rsv: {len(vcases)} frame sequences")
    pool.shutdown()
    if model_ok:
        model.run(ck, shard=500 if quick else 800)

    meta = getattr(ck, "_c12_meta", {})
    ck.notes.append(f"extensions installed in this interpreter: {meta.get('installed')}; snappy not installed: instance proved, not run; "
                    f"zlib runtime {meta.get('zlib')}; tree under test {meta.get('tree')}")
    for j, a in valid[:3]:
        ck.sample({"job": j, "impl": a})
    for j in tjobs[:2]:
        ck.sample({"traffic": j})
    if broken:
        ck.log(f"proof obligations broken: {broken}")


def replay(path):
    d = json.load(open(path))
    r = d["replay"]
    ck = vlib.Check("C12", "quick", d.get("seed", 1))
    job = r.get("job")
    if job is None:
        print(json.dumps(r, indent=1)[:3000]); return 1
    fws = [r["fw"]] if r.get("fw") else ["tx", "aio"]
    rc = 0
    for fw in fws:
        out = ck.run_impl("ws_pmce.py", {"fw": fw, "seed": f"{ck.seed}/C12/replay", "jobs": [strip_job(job)]})
        res = out["results"][0]
        print(f"[{fw}] job:", json.dumps(strip_job(job))[:600])
        print(f"[{fw}] implementation:", json.dumps(res)[:2500])
        if job["t"] == "neg":
            vals = ck.coq_eval(IMPORTS, [f"neg_run {cn(EXT_CODE[job['ext']])} {czl(job['off'])} {czl(job['acc'])} {czl(job['racc'])}"])
            print("model:", vals)
        if job["t"] == "traffic":
            for dname, dres, _lib in res.get("dirs", []):
                for mi, m in enumerate(dres):
                    if m["sent"] != "ok" or m.get("recv_bad") or m.get("same") is False:
                        print(f"  FAILS: {dname} message #{mi + 1}: sent={m['sent']} {m.get('where', '')} recv={m.get('recv_bad')} same={m.get('same')}")
                        rc = 1
            if job["ext"] == "deflate" and res.get("code") == 3:
                s_set, c_set = res["sets"]
                for dname, dres, lib in res["dirs"]:
                    if lib["comp_args"] and lib["decomp_args"]:
                        got = (-lib["comp_args"][2], -lib["decomp_args"][0])
                        want = (s_set[3], c_set[3]) if dname == "s2c" else (c_set[4], s_set[4])
                        print(f"  {dname}: zlib windows (deflater, inflater) = {got}, negotiated settings say {want}" + ("" if got == want else "   <-- FAILS"))
                        if got != want:
                            rc = 1
    return rc
