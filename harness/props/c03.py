"""C03 — WAMP messages survive every serializer unchanged.

Proof obligations: coq/Props/C03.v (+ generated coq/Gen/WampShape.v).  Correspondence: valid message OBJECTS built with
the real constructors (all 25 classes x option subsets x boundary ids x payload shapes x forward_for chains), pushed
through the real JSON / MsgPack / CBOR serializers (batched and unbatched), compared attribute by attribute (public
attributes, never __eq__) with the original, with each other and with the Gallina model's parse . marshal; batches of
1..5 messages; the BINARY flag vs what serialize() returns; the per-serializer cache."""
import json
import os
import sys

import vlib

sys.path.insert(0, os.path.join(vlib.ROOT, "harness", "impl"))
sys.path.insert(0, os.path.join(vlib.ROOT, "translators"))
import wamp_messages as W  # noqa: E402
from props.c08 import regenerate_shape, report_broken_obligations, run_impl_chunks, IMPORTS, DEFS  # noqa: E402

VIA = ["json", "msgpack", "cbor"]
IDS = [0, 1, W.ID_MAX]
URIS = ["a", "com.myapp.topic1", "wamp.error.not_found", "a.b.c_d-1"]
STRS = ["x", "üñí", "\U0001F600 non-BMP \U00010000"]

# four hops, every hop different, authid None at the first and at a middle hop
FF4 = [{"session": 11, "authid": None, "authrole": "r1"}, {"session": 22, "authid": "b", "authrole": "r2"},
       {"session": 33, "authid": None, "authrole": "r3"}, {"session": 44, "authid": "d", "authrole": "r4"}]

SAMPLES = {
    "id": [0, 1, W.ID_MAX, 77], "str": STRS, "bool": [True, False], "nat": [0, 10], "pos": [1, 5],
    "dict": [{"a": 1}, {"n": {"m": [None, 1.5]}}], "list_id": [[1, W.ID_MAX], [0], [5, 4, 3, 2, 1, 5]],
    "list_str": [["a", "é"], ["r"], ["x", "y", "x", "z"]],
    "ff": [W.FF1, W.FF3, FF4], "uri": ["wamp.x", "com.reason"],
}
FALSY = {"str": "", "bool": False, "dict": {}, "list_id": [], "list_str": [], "ff": []}

PAYLOADS = {
    "none": {},
    "args": {"args": [1, "a"]},
    "args_kwargs": {"args": [1], "kwargs": {"k": 2}},
    "kwargs_only": {"kwargs": {"k": 1}},
    "emptyargs_kwargs": {"args": [], "kwargs": {"k": 1}},
    "nested": {"args": [[1, [2, {"a": [3, None, True]}]], {"d": {"e": None}}], "kwargs": {"deep": {"l": [[], {}]}}},
    "bytes": {"args": [b"\x00\xff\x18", {"b": b""}], "kwargs": {"bin": b"\x01"}},
    "nonbmp": {"args": ["\U0001F600", "üñí", "a\x18b"], "kwargs": {"ключ": "значение"}},
    "bigints": {"args": [W.ID_MAX, -W.ID_MAX, W.ID_MAX - 1, 0, -1], "kwargs": {"n": W.ID_MAX}},
    "floats": {"args": [1.5, -0.25], "kwargs": {"f": 1e10}},
    "payload": {"payload": b"\x01\x02"},
    "payload_algo": {"payload": b"\x00\xff", "enc_algo": "cryptobox"},
    "payload_algo_key": {"payload": b"p", "enc_algo": "mqtt", "enc_key": "key1"},
    "payload_triple": {"payload": b"ciphertext\x18", "enc_algo": "xbr", "enc_key": "k", "enc_serializer": "cbor"},
    "payload_custom": {"payload": b"p", "enc_algo": "x_algo1", "enc_serializer": "x_ser1"},
    "payload_empty_mqtt": {"payload": b"", "enc_algo": "mqtt"},
}
QUICK_PAYLOADS = ["none", "args", "args_kwargs", "kwargs_only", "nested", "bytes", "nonbmp", "bigints", "payload",
                  "payload_triple", "payload_custom", "payload_empty_mqtt"]


def roles_variants(cls):
    table = W.HELLO_ROLES if cls == "Hello" else W.WELCOME_ROLES
    names = list(table)
    out = [{names[0]: {}}]
    out.append({n: {f: (i + j) % 2 == 0 for j, f in enumerate(fs)} for i, (n, fs) in enumerate(table.items())})
    out.append({names[-1]: {table[names[-1]][0]: True}})
    return out


def role_feature_set(table, role, salt):
    """a feature assignment for one role that differs from what any other role gets for the shared feature names
    (values cycle True / False / absent with a per-role phase)"""
    fs = table[role]
    ph = (list(table).index(role) + salt) % 3
    out = {}
    for j, f in enumerate(fs):
        v = (True, False, None)[(j + ph) % 3]
        if v is not None:
            out[f] = v
    return out


def role_orders(cls, rng, quick):
    """HELLO / WELCOME role dicts: several roles in every announced order, every pattern of roles with / without
    features, a different feature set per role.  Repeated sub-structures must be handled entry by entry: nothing of
    one role may show up in (or vanish from) another."""
    import itertools
    table = W.HELLO_ROLES if cls == "Hello" else W.WELCOME_ROLES
    names = list(table)
    orders = [list(p) for k in range(2, len(names) + 1) for p in itertools.permutations(names, k)]
    if quick and len(orders) > 20:
        pairs = [o for o in orders if len(o) == 2]
        longer = [o for o in orders if len(o) > 2]
        orders = pairs + rng.sample(longer, 8)
    out = []
    for o in orders:
        masks = list(itertools.product((False, True), repeat=len(o)))
        if len(o) > 2 and quick:
            masks = rng.sample(masks, 3) + [tuple(i == 0 for i in range(len(o))), tuple(i != len(o) - 1 for i in range(len(o)))]
        for salt, mask in enumerate(masks):
            out.append({r: (role_feature_set(table, r, salt) if featured else {}) for r, featured in zip(o, mask)})
    return out


def positional(cls, k):
    """k-th choice of the mandatory fields (ids cycle through 0, 1, 2^53)"""
    sp = W.SPEC[cls]
    a = {}
    for i, (attr, kind) in enumerate(sp["pos"]):
        if attr == "DICT":
            continue
        if kind == "id":
            a[attr] = IDS[(k + i) % 3]
        elif kind in ("uri", "uri_pattern"):
            a[attr] = URIS[(k + i) % len(URIS)]
        elif kind == "reqtype":
            a[attr] = W.REQ_TYPES[k % len(W.REQ_TYPES)]
        elif kind == "str":
            a[attr] = STRS[k % len(STRS)]
        elif kind == "extra":
            a[attr] = [{"k": [1, {"x": None}]}, {}, {"challenge": "abc", "salt": b"\x00"}][k % 3]
    if cls == "Hello":
        a["realm"] = ["realm1", None, "com.example"][k % 3]
        a["roles"] = roles_variants(cls)[k % 3]
    if cls == "Welcome":
        a["roles"] = roles_variants(cls)[k % 3]
    if cls in ("Unsubscribed", "Unregistered"):
        a["request"] = [5, 1, W.ID_MAX][k % 3]
    return a


def option_values(cls, key, attr, kind):
    if kind.startswith("enum:"):
        return kind[5:].split("|")
    if cls == "Hello" and key == "authmethods":
        return [["anonymous", "ticket"], ["wampcra"], ["a", "b", "c", "a", "d"]]
    return SAMPLES[kind]


def fix_consistency(cls, a):
    """constraints between fields that the WAMP spec / the constructor impose"""
    if cls in ("Subscribe", "Register"):
        m = a.get("match")
        field = "topic" if cls == "Subscribe" else "procedure"
        if m == "wildcard":
            a[field] = "com..b"
        elif m == "prefix" and cls == "Register":
            a[field] = "com.a."
        elif cls == "Subscribe" and m is None:
            a[field] = "com.a..pattern"       # check_or_raise_uri(allow_empty_components=True) for every SUBSCRIBE
    if cls in ("Unsubscribed", "Unregistered"):
        sub = "subscription" if cls == "Unsubscribed" else "registration"
        if a.get(sub) is not None:
            a["request"] = 0
            if a[sub] == 0:
                a[sub] = 9
    if cls == "Hello" and a.get("resume_session") and a.get("resume_token") is None:
        a["resume_token"] = "tok"
    if cls == "Welcome" and a.get("resumable") and not a.get("resume_token"):
        a["resume_token"] = "tok"
    return a


def gen_cases(ck):
    rng = ck.rng("messages")
    quick = ck.quick()
    cases = []

    def add(cls, a, tag):
        cases.append({"cls": cls, "attrs": fix_consistency(cls, dict(a)), "tag": tag})
    for cls in W.CLASSES:
        sp = W.SPEC[cls]
        opts = [(k, at, kd) for k, at, kd in sp["opts"]]
        pls = [None]
        if sp["payload"]:
            pls = QUICK_PAYLOADS if quick else list(PAYLOADS)
        k = 0
        for pn in pls:
            pl = PAYLOADS[pn] if pn else {}
            # no option, every boundary id
            for j in range(3):
                add(cls, {**positional(cls, j), **pl}, f"opts=none pl={pn}")
            # all options
            for j in range(2):
                a = positional(cls, j)
                for key, attr, kind in opts:
                    vs = option_values(cls, key, attr, kind)
                    a[attr] = vs[j % len(vs)]
                add(cls, {**a, **pl}, f"opts=all pl={pn}")
            if pn not in (None, "none", "args_kwargs", "payload_triple") and quick:
                continue
            # each single option, each sample value
            for key, attr, kind in opts:
                for v in option_values(cls, key, attr, kind):
                    k += 1
                    add(cls, {**positional(cls, k), attr: v, **pl}, f"opts={attr} pl={pn}")
                if kind in FALSY:
                    add(cls, {**positional(cls, k), attr: FALSY[kind], **pl}, f"opts={attr}:falsy pl={pn}")
            # pairs
            pairs = [(x, y) for i, x in enumerate(opts) for y in opts[i + 1:]]
            if quick and len(pairs) > 12:
                pairs = rng.sample(pairs, 12)
            for (k1, a1, d1), (k2, a2, d2) in pairs:
                k += 1
                v1 = option_values(cls, k1, a1, d1); v2 = option_values(cls, k2, a2, d2)
                add(cls, {**positional(cls, k), a1: v1[k % len(v1)], a2: v2[(k // 2) % len(v2)], **pl}, f"opts={a1}+{a2} pl={pn}")
            # random subsets
            for _ in range(4 if quick else 30):
                k += 1
                a = positional(cls, k)
                for key, attr, kind in opts:
                    if rng.random() < 0.5:
                        vs = option_values(cls, key, attr, kind)
                        a[attr] = rng.choice(vs)
                add(cls, {**a, **pl}, f"opts=random pl={pn}")
        if cls in ("Hello", "Welcome"):
            for j, roles in enumerate(role_orders(cls, rng, quick)):
                a = positional(cls, j)
                a["roles"] = roles
                if j % 3 == 0:
                    a["authid"] = "joe"
                add(cls, a, "roles=" + ">".join(f"{r}{'+' if fs else '-'}" for r, fs in roles.items()))
        if cls == "Welcome":
            for cu in ({"x_cb_node": "n1"}, {"x_foo": {"a": [1]}, "x_": True}):
                add(cls, {**positional(cls, 1), "custom": cu, "authid": "joe", "authrole": "user", "authmethod": "ticket"}, "custom")
            add(cls, {**positional(cls, 0), "authmethod": "ticket"}, "opts=authmethod-only")
    return cases


TOLERATED_FALSY = ("", False, [], {}, b"", ())


def compare_attrs(orig, after):
    """field-by-field: list of (attr, kind, before, after); kind = 'lost' / 'changed' / 'defaulted'
    'defaulted' = a falsy value came back as None (absent == default): tolerated, counted"""
    diffs = []
    a, b = dict(orig), dict(after)
    for n in a:
        x, y = W.dec(a[n]), W.dec(b.get(n))
        if W.enc(x) == W.enc(y):
            continue
        if n == "roles" and type(x) is dict and type(y) is dict:
            # repeated sub-structure: entry by entry, and the announced order
            for r in list(x) + [r for r in y if r not in x]:
                if r not in y:
                    diffs.append((f"roles.{r}", "lost", x[r], None))
                elif r not in x:
                    diffs.append((f"roles.{r}", "changed", None, y[r]))
                elif x[r] != y[r]:
                    diffs.append((f"roles.{r}", "changed", x[r], y[r]))
            if not any(d[0].startswith("roles.") for d in diffs) and list(x) != list(y):
                diffs.append(("roles", "reordered", list(x), list(y)))
            continue
        if y is None and any(x == t and type(x) is type(t) for t in TOLERATED_FALSY):
            diffs.append((n, "defaulted", x, y))
        elif n == "args" and x == [] and y is None:
            diffs.append((n, "defaulted", x, y))
        elif y is None:
            diffs.append((n, "lost", x, y))
        else:
            diffs.append((n, "changed", x, y))
    return diffs


def run(ck):
    ck.rule.append("message objects built by the real constructors: 25 classes x {no option, each option x each sample value "
                   "(+ falsy value), pairs, all, random subsets} x ids {0,1,2^53} x payload shapes {none, args, kwargs, nested, "
                   "bytes, non-BMP, +-2^53, floats, payload / +enc_algo / +enc_key / triple / custom ids / empty} x forward_for "
                   "chains (authid None); each through JSON, MsgPack, CBOR (batched and not); batches of 1..5. "
                   "non-trivial = constructed and serialized; distinct = distinct (class, attributes)")
    ck.extra_tb += [
        "modelled, not verified: the byte formats of json / msgpack / cbor2 (oracles; the model starts at the marshalled list)",
        "documented domain limits: JSON strings starting with NUL are binaries by the WAMP convention; kwargs keys are strings; "
        "floats are opaque in the model; tuples come back as lists; UBJSON backend (bjdata) does not import in this sandbox",
        "URI / custom-attribute validators are Section variables in the theorems; executable instance = plain ASCII grammar",
        "translator translators/schema_shape.py is trusted to emit what it reads",
    ]
    regenerate_shape(ck)
    broken = ck.coq_props()
    ok, out = vlib.coq_make(["Model/WampMsgRun.vo"])
    if not ok:
        raise RuntimeError("WampMsgRun build failed: " + out[-1500:])

    cases = gen_cases(ck)
    corpus_dir = os.path.join(vlib.ROOT, "corpus", "C03")
    if os.path.isdir(corpus_dir):
        for fn in sorted(os.listdir(corpus_dir)):
            c = json.load(open(os.path.join(corpus_dir, fn)))
            cases.insert(0, {"cls": c["cls"], "attrs": {k: W.dec(v) for k, v in c["attrs"]}, "tag": "corpus:" + fn})

    def run_cases(cs):
        return run_impl_chunks(ck, "roundtrip", [{"cls": c["cls"], "attrs": [[k, W.enc(v)] for k, v in c["attrs"].items()], "via": VIA} for c in cs])
    r = run_cases(cases)
    if not r["installed"]["ubjson"]:
        ck.notes.append("UBJSON not installed (bjdata import broken in this sandbox): serializer skipped")

    def failure_kinds(c, res):
        """set of (key-suffix, description) for one executed case"""
        out = set()
        if "build" in res:
            out.add(("generator", "constructor rejected a generated message: " + res["build"]))
            return out
        for sn, o in res.items():
            if sn in ("orig", "w"):
                continue
            if o["k"] != "ok":
                out.add((f"roundtrip/{o['cls']}", f"serialize->unserialize raises {o['cls']}"))
                continue
            for n, kind, x, y in compare_attrs(res["orig"], o["attrs"]):
                if kind != "defaulted":
                    out.add((f"{n}/{kind}", f"attribute '{n}' {kind}: {W.vrepr(x)} -> {W.vrepr(y)}"))
            f = o["flags"]
            if f["is_binary"] != f["BINARY"] or f["type"] != "bytes" or (sn.startswith("json") and (f["is_binary"] or not f.get("utf8"))) \
                    or (not sn.startswith("json") and not f["is_binary"]):
                out.add((f"binary-flag/{sn}", f"serialize() flag/type mismatch {f}"))
            if o["wrongflag"] != "ProtocolError":
                out.add((f"binary-flag/{sn}/wrong-flag-{o['wrongflag']}", "unserialize with the opposite isBinary flag is not a ProtocolError"))
            if not o["cache_same"]:
                out.add((f"cache/{sn}", "second serialize() of an unchanged message returns different octets"))
        return out

    def shrink(c, suffix):
        """drop attributes while the same failure persists (one driver call per round)"""
        cur = dict(c["attrs"])
        sp = W.SPEC[c["cls"]]
        mandatory = {a for a, _ in sp["pos"]} | {"roles"}
        for _ in range(12):
            cands = [k for k in cur if k not in mandatory]
            if not cands and not (type(cur.get("roles")) is dict and len(cur["roles"]) > 1):
                break
            trial = [{"cls": c["cls"], "attrs": {k: v for k, v in cur.items() if k != d}} for d in cands]
            if type(cur.get("roles")) is dict and len(cur["roles"]) > 1:      # drop one role, keep the order
                trial += [{"cls": c["cls"], "attrs": {**cur, "roles": {r: f for r, f in cur["roles"].items() if r != d}}}
                          for d in cur["roles"]]
            rr = run_cases(trial)["results"]
            hit = next((t for t, res in zip(trial, rr) if any(s == suffix for s, _ in failure_kinds(t, res))), None)
            if hit is None:
                break
            cur = hit["attrs"]
        return cur

    coq_cases, coq_meta = [], []
    reported = {}
    for c, res in zip(cases, r["results"]):
        ck.evaluations += max(1, len(res) - 2)
        ck.bump("class:" + c["cls"])
        fk = failure_kinds(c, res)
        for suffix, desc in sorted(fk):
            if suffix == "generator":
                ck.violation(f"harness/generator/{c['cls']}", desc, {"cls": c["cls"], "attrs": [[k, W.enc(v)] for k, v in c["attrs"].items()]}, found_input=False)
                continue
            first = (c["cls"], suffix)
            if first in reported:
                continue
            small = shrink(c, suffix)
            opts = sorted(k for k in small if k not in {a for a, _ in W.SPEC[c["cls"]]["pos"]} and k != "roles")
            key = f"{c['cls']}/{'+'.join(opts) or 'positional'}/{suffix}"
            reported[first] = key
            shown = opts + (["roles"] if suffix.startswith("roles") else [])
            ck.violation(key, f"{c['cls']}({', '.join(f'{k}={small[k]!r}' if k == 'roles' else f'{k}={W.vrepr(small[k])}' for k in shown)}): {desc}",
                         {"cls": c["cls"], "attrs": [[k, W.enc(v)] for k, v in small.items()]}, found_input=True)
        if "build" in res:
            continue
        for sn, o in res.items():
            if sn in ("orig", "w") or o["k"] != "ok":
                continue
            for n, kind, x, y in compare_attrs(res["orig"], o["attrs"]):
                if kind == "defaulted":
                    ck.bump(f"defaulted:{c['cls']}.{n}")
        # agreement between serializers, and the model
        oks = {sn: o for sn, o in res.items() if sn not in ("orig", "w") and o["k"] == "ok"}
        if oks:
            ref = next(iter(oks.values()))
            for sn, o in oks.items():
                if json.dumps(o["attrs"]) != json.dumps(ref["attrs"]):
                    ck.violation(f"{c['cls']}/serializers-differ/{sn}", f"{c['cls']}: attributes after the {sn} round trip differ from the other serializers",
                                 {"cls": c["cls"], "attrs": [[k, W.enc(v)] for k, v in c["attrs"].items()]}, found_input=True)
            coq_cases.append("(%s, %s, %s)" % (W.coq_string(c["cls"]), W.coq_list(W.dec(res["w"])), W.coq_expect(ref)))
            coq_meta.append(c)
            ck.note_cases(0, [json.dumps([c["cls"], res["orig"]])])
    for c in cases[:2] + cases[len(cases) // 2: len(cases) // 2 + 2]:
        ck.sample({"cls": c["cls"], "tag": c["tag"], "attrs": {k: W.vrepr(v) for k, v in c["attrs"].items()}})
    ck.log(f"round trips: {len(cases)} messages x {2 * len(VIA)} serializer configurations")
    if ck.quick() and len(coq_cases) > 4000:
        idx = sorted(ck.rng("coq-sample").sample(range(len(coq_cases)), 4000))
        coq_cases = [coq_cases[i] for i in idx]; coq_meta = [coq_meta[i] for i in idx]
    bad = ck.coq_cases("roundtrip", IMPORTS, "roundtrip_case_ok", coq_cases, ty="msg_case", defs=DEFS, shard=100 if ck.quick() else 300)
    ck.bump("model_compared_roundtrip", len(coq_cases))
    ck.log(f"model comparison (parse.marshal on the marshalled original): {len(coq_cases)} cases, {len(bad)} disagreements")
    seen = set()
    for i in bad:
        c = coq_meta[i]
        t0 = c["tag"].split(" ")[0]
        key = f"{c['cls']}/model-disagrees/{'roles' if t0.startswith('roles=') else t0}"
        if key in seen or len(seen) > 8:
            continue
        seen.add(key)
        ck.violation(key, f"Gallina model and implementation disagree on the round trip of {c['cls']} ({c['tag']})",
                     {"cls": c["cls"], "attrs": [[k, W.enc(v)] for k, v in c["attrs"].items()], "correspondence": "roundtrip_case_ok"},
                     found_input=False)

    # ---------- batches of 1..5 messages
    rng = ck.rng("batches")
    good = [c for c, res in zip(cases, r["results"]) if "build" not in res and not failure_kinds(c, res)]
    batches = []
    for n in range(1, 6):
        for _ in range(6 if ck.quick() else 60):
            batches.append([rng.choice(good) for _ in range(n)])
    # state carried from one message to the next one of the SAME class: (all options | featured roles) then (none), and back
    by_cls = {}
    for c in good:
        by_cls.setdefault(c["cls"], []).append(c)
    for cls, cs in by_cls.items():
        rich = [c for c in cs if c["tag"].startswith("opts=all") or c["tag"].startswith("roles=")]
        poor = [c for c in cs if c["tag"].startswith("opts=none")] or cs[:1]
        for a in rich[:2] + rich[-1:]:
            for b in poor[:1] + [c for c in cs if c["tag"].startswith("roles=") and c is not a][:2]:
                batches.append([a, b]); batches.append([b, a]); batches.append([a, b, a])
    rb = ck.run_impl("wamp_messages.py", {"op": "batch", "cases": [
        {"msgs": [[c["cls"], [[k, W.enc(v)] for k, v in c["attrs"].items()]] for c in b], "via": VIA} for b in batches]}, timeout=1500)
    bcases = []
    for b, res in zip(batches, rb["results"]):
        for sn in VIA:
            o = res[sn]
            ck.evaluations += 1
            ck.bump(f"batch:{len(b)}")
            bad_b = None
            if o["k"] != "ok":
                bad_b = f"raises {o['cls']}"
            elif o["n"] != len(b):
                bad_b = f"{o['n']} messages came back instead of {len(b)}"
            else:
                for i, (orig, m) in enumerate(zip(res["orig"], o["msgs"])):
                    if any(kind != "defaulted" for _, kind, _, _ in compare_attrs(orig, m["attrs"])) or m["cls"] != b[i]["cls"]:
                        bad_b = f"message {i} of the batch differs / out of order"
            if bad_b:
                ck.violation(f"batch/{sn}/size{len(b)}", f"batch of {len(b)} through {sn}.batched: {bad_b}",
                             {"msgs": [[c["cls"], [[k, W.enc(v)] for k, v in c["attrs"].items()]] for c in b], "via": sn}, found_input=True)
            elif o.get("octets") and len(bcases) < 600:
                chunks = [bytes.fromhex(x) for x in o["chunks"]]
                inner = [ch[:-1] if sn == "json" else ch[4:] for ch in chunks]
                data = bytes.fromhex(o["octets"])
                bcases.append("(%d, [%s], (Some [%s]))" % (0 if sn == "json" else 1, ";".join(str(x) for x in data),
                                                        ";".join("[" + ";".join(str(x) for x in ch) + "]" for ch in inner)))
    badb = ck.coq_cases("framing", IMPORTS, "batch_case_ok", bcases, ty="batch_case", defs=DEFS, shard=100)
    ck.bump("model_compared_framing", len(bcases))
    ck.log(f"batches: {len(batches)} x {len(VIA)} serializers; framing model on {len(bcases)} octet strings, {len(badb)} disagreements")
    for i in badb[:3]:
        ck.violation("batch/framing/model-disagrees", "batch framing model and the real serializer disagree",
                     {"case": bcases[i][:2000], "correspondence": "batch_case_ok"}, found_input=False)
    history_stage(ck, good)
    dflt = sorted(k[len("defaulted:"):] for k in ck.hist if k.startswith("defaulted:"))
    if dflt:
        ck.notes.append("not violations (absent == default): falsy attribute values that come back as None after the round trip "
                        "because marshal() writes the option only `if self.x`: " + ", ".join(dflt))
    if broken:
        ck.log(f"broken obligations: {broken}")
        report_broken_obligations(ck, broken)


def mangle(rng, data, kind):
    if kind == "truncated":
        return data[:rng.randrange(0, len(data))] if data else b""
    if kind == "extended":
        return data + bytes(rng.getrandbits(8) for _ in range(rng.randint(1, 6)))
    if kind == "garbage":
        return bytes(rng.getrandbits(8) for _ in range(rng.choice([1, 2, 3, 5, 9, 17])))
    if kind == "bitflip":
        b = bytearray(data); i = rng.randrange(len(b)); b[i] ^= 1 << rng.randrange(8); return bytes(b)
    if kind == "empty":
        return b""
    if kind == "prefix-of-two":        # a valid message followed by the first half of another one
        return data + data[:max(1, len(data) // 2)]
    raise ValueError(kind)


MALFORMED = ["truncated", "extended", "garbage", "bitflip", "empty", "prefix-of-two"]


def history_stage(ck, good):
    """Serializer objects live as long as a connection: unserialize must be a function of its argument.  Histories
    on long-lived serializer objects (two per configuration, batched and unbatched of one family interleaved) mixing
    valid serialized messages with truncated / extended / garbage / bit-flipped octet strings."""
    rng = ck.rng("histories")
    quick = ck.quick()
    msgs = rng.sample(good, min(len(good), 10 if quick else 40))
    rs = ck.run_impl("wamp_messages.py", {"op": "serialize", "cases": [
        {"cls": c["cls"], "attrs": [[k, W.enc(v)] for k, v in c["attrs"].items()], "via": VIA} for c in msgs]}, timeout=600)["results"]
    hists = []
    for sn in VIA:
        for h in range(8 if quick else 80):
            steps, meta = [], []
            for _ in range(rng.randint(6, 16 if quick else 30)):
                cfg = sn + (".batched" if rng.random() < 0.5 else "")
                inst = rng.randint(0, 1)
                i = rng.randrange(len(msgs))
                data = bytes.fromhex(rs[i][cfg])
                u = rng.random()
                if u < 0.5:
                    kind, exp = "valid", [i]
                    if cfg.endswith(".batched") and rng.random() < 0.4:
                        j = rng.randrange(len(msgs)); data += bytes.fromhex(rs[j][cfg]); exp = [i, j]
                else:
                    kind, exp = rng.choice(MALFORMED), None
                    data = mangle(rng, data, kind)
                steps.append([cfg, inst, data.hex()]); meta.append((kind, exp))
            hists.append({"steps": steps, "meta": meta, "fresh": len(hists) + 1})
    # named: the shortest shapes (one malformed call, then valid ones on the same and on the other object)
    for sn in VIA:
        for cfg in (sn, sn + ".batched"):
            for kind in MALFORMED:
                d0 = bytes.fromhex(rs[0][cfg])
                steps = [[cfg, 0, mangle(rng, d0, kind).hex()]] + [[cfg, k % 2, rs[k % len(msgs)][cfg]] for k in range(4)]
                meta = [(kind, None)] + [("valid", [k % len(msgs)]) for k in range(4)]
                hists.append({"steps": steps, "meta": meta, "fresh": len(hists) + 1})

    def execute(hs):
        return ck.run_impl("wamp_messages.py", {"op": "history", "cases": [{"steps": h["steps"], "fresh": h["fresh"]} for h in hs]}, timeout=1500)["results"]

    def verdict(h, outs):
        """first failing step of one history: (index, key-suffix, text) or None"""
        last_bad = "start"
        for i, ((cfg, inst, hx), (kind, exp), o) in enumerate(zip(h["steps"], h["meta"], outs)):
            if kind == "valid":
                why = None
                if o["k"] != "ok":
                    why = (o["cls"], f"raises {o['cls']}")
                elif o["n"] != len(exp):
                    why = ("wrong-count", f"{o['n']} messages instead of {len(exp)}")
                else:
                    for j, m in zip(exp, o["msgs"]):
                        if m["cls"] != rs[j]["cls"] or any(kd != "defaulted" for _, kd, _, _ in compare_attrs(rs[j]["orig"], m["attrs"])):
                            why = ("different-message", f"comes back as a different message ({m['cls']})")
                if why:
                    return i, f"history/{cfg}/valid-after-{'malformed' if last_bad != 'start' else 'valid-only'}/{why[0]}", \
                        f"{cfg}: a valid serialized message {why[1]} after a {last_bad} octet string was fed to a serializer object before"
            else:
                # C03 says nothing about WHICH exception a corrupted payload raises (exception hygiene is C08's clause
                # and is reported there, e.g. the known enc_* constructor asserts): any exception = rejected.  What is
                # judged here: the valid payloads around it, and that every payload is answered the same way wherever
                # it occurs (consistency check below).
                last_bad = kind
        return None

    outs = execute(hists)
    seen_payload = {}
    reported = set()
    for h, ho in zip(hists, outs):
        for (cfg, inst, hx), (kind, exp), o in zip(h["steps"], h["meta"], ho):
            ck.evaluations += 1
            ck.bump(f"history:{kind}:{o['k'] if o['k'] == 'ok' else o['cls']}")
            summ = json.dumps([o["k"], o.get("cls"), o.get("n"), [m["attrs"] for m in o.get("msgs", [])]])
            prev = seen_payload.setdefault((cfg, hx), summ)
            if prev != summ and ("nf", cfg) not in reported:
                reported.add(("nf", cfg))
                ck.violation(f"history/{cfg}/not-a-function-of-its-argument",
                             f"{cfg}: the same octet string unserializes differently depending on earlier calls",
                             {"cfg": cfg, "hex": hx, "history": h["steps"]}, found_input=True)
        v = verdict(h, ho)
        if v and v[1] not in reported:
            i, key, text = v
            reported.add(key)
            # shrink: shortest suffix ending at the failing step that still fails the same way
            best = h["steps"][:i + 1], h["meta"][:i + 1]
            trial = []
            for k in (2, 3, 5, 8):
                if k <= i:
                    trial.append({"steps": h["steps"][i + 1 - k:i + 1], "meta": h["meta"][i + 1 - k:i + 1], "fresh": 10 ** 6 + len(trial) + 1000 * len(reported)})
            if trial:
                for t, to in zip(trial, execute(trial)):
                    tv = verdict(t, to)
                    if tv and tv[1].split("/")[-1] == key.split("/")[-1]:
                        best = t["steps"], t["meta"]
                        break
            ck.violation(key, text, {"history": best[0], "kinds": [m[0] for m in best[1]]}, found_input=True)
    ck.note_cases(0, (json.dumps(h["steps"]) for h in hists))
    ck.log(f"histories: {len(hists)} call sequences ({sum(len(h['steps']) for h in hists)} unserialize calls) on long-lived serializer objects, "
           f"{len([k for k in reported if k[0] != 'nf'])} failing")


def replay(path):
    r = json.load(open(path))
    rp = r["replay"]
    ck = vlib.Check("C03", "quick", 1)
    if "history" in rp:
        outs = ck.run_impl("wamp_messages.py", {"op": "history", "cases": [{"steps": rp["history"], "fresh": 1}]})["results"][0]
        rc = 0
        for (cfg, inst, hx), o, kind in zip(rp["history"], outs, rp.get("kinds", ["?"] * len(outs))):
            print(f"  {cfg} object {inst} <- {kind:14s} {hx[:60]}{'...' if len(hx) > 60 else ''} : "
                  f"{'ok ' + str([m['cls'] for m in o['msgs']]) if o['k'] == 'ok' else 'raises ' + o['cls']}")
            if kind == "valid" and o["k"] != "ok":
                rc = 1
        print("model: unserialize is a function of its argument (Props/C03.v C03_unserialize_stateless); every 'valid' step must be ok")
        return rc
    if "attrs" not in rp:
        print(json.dumps(rp)[:2000]); return 1
    res = ck.run_impl("wamp_messages.py", {"op": "roundtrip", "cases": [{"cls": rp["cls"], "attrs": rp["attrs"], "via": VIA}]})["results"][0]
    print("message:", rp["cls"], {k: W.dec(v) for k, v in rp["attrs"]})
    if "build" in res:
        print("constructor:", res["build"]); return 1
    print("marshal():", W.dec(res["w"]))
    rc = 0
    for sn, o in res.items():
        if sn in ("orig", "w"):
            continue
        if o["k"] != "ok":
            print(f"  {sn}: raises {o['cls']} {o.get('msg', '')}"); rc = 1
        else:
            d = [(n, k, x, y) for n, k, x, y in compare_attrs(res["orig"], o["attrs"])]
            print(f"  {sn}: ok, differences: {d or 'none'}")
            if any(k != "defaulted" for _, k, _, _ in d):
                rc = 1
    vals = ck.coq_eval(IMPORTS + "\n" + DEFS, [
        "match find_schema_by_name schemas %s with Some s => match parse_i s %s with Ok m => (None, msg_attrs s m) | Raise e => (Some e, []) end | None => (None, []) end"
        % (W.coq_string(rp["cls"]), W.coq_list(W.dec(res["w"])))])
    print("Gallina model, parse of the marshalled list:", vals[0][:1200])
    return rc
